"""entry point of ./check — see framework.py and DESIGN.md §2.3"""
import argparse
import importlib
import json
import os
import subprocess
import sys
import time
import traceback

sys.path.insert(0, os.path.dirname(os.path.dirname(os.path.abspath(__file__))))
from lib import framework as fw  # noqa: E402


def main():
    ap = argparse.ArgumentParser()
    ap.add_argument('prop')
    ap.add_argument('--tier', default=os.environ.get('VERIF_TIER', 'quick'), choices=['quick', 'thorough'])
    ap.add_argument('--replay')
    ap.add_argument('--no-build', action='store_true', help='(development) skip lake build/audit')
    args = ap.parse_args()
    seed = int(os.environ.get('VERIF_SEED', '0') or 0)
    prop = args.prop.upper()
    t0 = time.time()
    try:
        mod = importlib.import_module('harness.%s' % prop.lower())
    except Exception:
        traceback.print_exc()
        print('INFRA-ERROR: cannot load harness for %s' % prop)
        sys.exit(2)
    check = mod.CHECK
    ctx = fw.Ctx(check, args.tier, seed)

    if args.replay:
        data = json.load(open(os.path.join(fw.VERIF, args.replay) if not os.path.isabs(args.replay) else args.replay))
        ensure_built(ctx, check, quiet=True)
        check.replay(ctx, data)
        if ctx.violations or ctx.disagreements:
            for v in ctx.violations:
                print('REPLAY still fails: %s' % json.dumps(v, default=repr)[:2000])
            for d in ctx.disagreements:
                print('REPLAY still disagrees: %s' % json.dumps(d, default=repr)[:2000])
            print('VIOLATION property=%s replay=%s' % (prop, args.replay))
            sys.exit(1)
        print('REPLAY passes now')
        sys.exit(0)

    broken = []          # obligations / correspondence that no longer check: dicts
    info = {}
    # 1-3. translate, build, audit
    theorems, discharged, gen_changed = [], [], []
    if not args.no_build:
        try:
            broken += ensure_built(ctx, check, info=info)
        except subprocess.TimeoutExpired:
            print('INFRA-ERROR: lake build timed out')
            sys.exit(2)
        theorems = info.get('theorems', [])
        discharged = info.get('discharged', [])
    else:
        ctx.model_ok = True

    # 4-5. correspondence + oracle
    try:
        check.run(ctx)
    except fw.TimeLimit:
        print('INFRA-ERROR: time limit in harness')
        traceback.print_exc()
        sys.exit(2)
    except Exception as e:
        # harness crashed: infrastructure problem unless the implementation itself is what broke
        traceback.print_exc()
        broken.append({'kind': 'harness', 'what': 'harness exception %r' % (e,)})

    for e in ctx.harness_errors[:5]:
        broken.append({'kind': 'harness', 'what': 'harness phase failed: %s' % e})
    for d in ctx.disagreements[:5]:
        broken.append({'kind': 'correspondence', 'what': d['correspondence'], 'input': d['input'],
                       'impl': d['impl'], 'model': d['model']})

    # search mode
    if broken and not ctx.violations:
        print('NOTE: %d proof obligation(s)/correspondence(s) no longer check; searching for a failing input'
              % len(broken))
        n_dis = len(ctx.disagreements)
        try:
            check.search(ctx)
        except Exception:
            traceback.print_exc()
        del ctx.disagreements[n_dis:]

    # 6. known findings
    kf_lines = []
    for f in fw.load_known(prop):
        if f.get('status') != 'known':
            continue
        try:
            still = check.known(ctx, f)
        except Exception:
            traceback.print_exc()
            still = True
        if still:
            kf_lines.append('KNOWN-FINDING: property=%s %s [%s]' % (prop, f['what_fails'], f['id']))
        else:
            print('NOTE: known finding %s no longer reproduces on the implementation' % f['id'])
    for line in kf_lines:
        print(line)

    # 7. verdict + evidence
    wall = time.time() - t0
    rc = 0
    replay = None
    if ctx.violations:
        v = ctx.violations[0]
        replay = fw.write_replay(ctx, 'impl-violates', {'clause': v['clause'], 'witness': v['witness'],
                                                       'detail': v['detail'], 'broken': broken[:3],
                                                       'more_violations': ctx.violations[1:6]})
        print('VIOLATION property=%s replay=%s' % (prop, replay))
        rc = 1
    elif broken:
        replay = fw.write_replay(ctx, 'obligation-or-correspondence', {'broken': broken[:5]})
        print('VIOLATION property=%s replay=%s no-failing-input-found' % (prop, replay))
        rc = 1
    write_evidence(ctx, check, theorems, discharged, info, broken, wall, rc, kf_lines)
    print('%s tier=%s seed=%d: %d theorems (%d discharged), %d evaluations, %d distinct non-trivial, '
          '%d model traces, %d disagreements, %d violations, %.1fs -> %s'
          % (prop, ctx.tier, seed, len(theorems), len(discharged), ctx.evaluations, len(ctx.nontrivial),
             ctx.traces, len(ctx.disagreements), len(ctx.violations), wall, 'FAIL' if rc else 'ok'))
    sys.exit(rc)


def ensure_built(ctx, check, info=None, quiet=False):
    """translate + lake build + audit. returns list of broken obligations."""
    info = info if info is not None else {}
    broken = []
    lock = fw.lake_lock()
    try:
        try:
            files = check.translate(ctx)
            info['gen_changed'] = fw.write_generated(ctx, files)
            info['gen_files'] = sorted(files)
        except Exception as e:
            traceback.print_exc()
            broken.append({'kind': 'translator', 'what': 'translator failed: %r' % (e,)})
        targets = [check.props_module] + list(check.extra_modules) + ['CssVerif.Lib.Audit']
        rc, out = fw.lake_build(targets)
        if rc != 0:
            errs = [l for l in out.split('\n') if 'error' in l.lower()][:20]
            broken.append({'kind': 'obligation', 'what': 'lake build of %s failed' % check.props_module,
                           'lean_error': '\n'.join(errs) or out[-3000:]})
            if not quiet:
                print(out[-4000:])
        if check.driver_exe:
            rc2, out2 = fw.lake_build([check.driver_exe])
            ctx.model_ok = rc2 == 0
            if rc2 != 0:
                broken.append({'kind': 'model', 'what': 'model driver %s does not build' % check.driver_exe,
                               'lean_error': out2[-3000:]})
                if not quiet:
                    print(out2[-4000:])
        mods = [check.props_module] + list(check.extra_modules)
        theorems = []
        for m in mods:
            theorems += fw.declared_theorems(m)
        info['theorems'] = theorems
        info['discharged'] = []
        if rc == 0:
            ax, raw, arc = fw.audit(mods)
            for t in theorems:
                axs = ax.get(t)
                if axs is None:
                    broken.append({'kind': 'obligation', 'what': 'theorem %s not found by the audit' % t})
                elif set(axs) - fw.ALLOWED_AXIOMS:
                    broken.append({'kind': 'obligation', 'what': 'theorem %s depends on %s' % (t, sorted(set(axs) - fw.ALLOWED_AXIOMS))})
                else:
                    info['discharged'].append(t)
            info['axioms'] = {t: ax.get(t) for t in theorems}
            if not theorems:
                broken.append({'kind': 'obligation', 'what': 'no theorems in %s' % check.props_module})
        hits = fw.scan_sources()
        if hits:
            broken.append({'kind': 'obligation', 'what': 'forbidden construct in Lean sources: %s' % hits[:10]})
        if ctx.tier == 'thorough' and rc == 0 and not quiet:
            p = subprocess.run(['lake', 'env', 'leanchecker'] + mods, cwd=fw.LEAN, stdout=subprocess.PIPE,
                               stderr=subprocess.STDOUT, timeout=3000)
            info['leanchecker_rc'] = p.returncode
            if p.returncode != 0:
                broken.append({'kind': 'obligation', 'what': 'leanchecker rejected %s' % mods,
                               'lean_error': p.stdout.decode('utf-8', 'replace')[-2000:]})
    finally:
        lock.close()
    return broken


def write_evidence(ctx, check, theorems, discharged, info, broken, wall, rc, kf_lines):
    src_hashes = {}
    for s in check.sources:
        p = os.path.join(ctx.repo, s)
        if os.path.exists(p):
            src_hashes[s] = fw.sha256_file(p)[:16]
    mods = [check.props_module] + list(check.extra_modules)
    cov = {
        'obligations': len(theorems),
        'discharged': len(discharged),
        'checker_cmd': 'cd lean && lake build %s && lake env lean <#audit_module %s>%s' % (
            ' '.join(mods), ' '.join(mods), ' && lake env leanchecker ' + ' '.join(mods) if ctx.tier == 'thorough' else ''),
        'trusted_base': ['Lean 4.33.0 kernel', 'axioms allowed: propext, Classical.choice, Quot.sound (audited per theorem)']
                        + list(check.trusted_base),
        'theorems': theorems,
        'axioms': info.get('axioms', {}),
        'evaluations': ctx.evaluations,
        'distinct_nontrivial': len(ctx.nontrivial),
        'rule': check.rule,
        'samples': ctx.samples[:12] or ['(no generated cases in this run)'],
        'traces_validated_against_impl': ctx.traces,
        'disagreements_checked': len(ctx.disagreements),
        'distribution': dict(ctx.dist.most_common(60)),
        'generated_tables': info.get('gen_files', []),
        'generated_tables_changed_this_run': info.get('gen_changed', []),
        'source_sha256': src_hashes,
        'broken_obligations': broken[:10],
        'known_findings_printed': kf_lines,
        'known_finding_hits': dict(ctx.known_hits),
        'search_mode': ctx.search_mode,
        'notes': ctx.notes,
    }
    if info.get('leanchecker_rc') is not None:
        cov['leanchecker_rc'] = info['leanchecker_rc']
    ev = {
        'property_id': ctx.prop, 'tier': ctx.tier, 'seed': ctx.seed, 'level': 'proof',
        'coverage': cov, 'assumptions': list(check.assumptions), 'wall_s': round(wall, 2),
        'violations': 1 if rc else 0,
    }
    os.makedirs(os.path.join(fw.VERIF, 'evidence'), exist_ok=True)
    with open(os.path.join(fw.VERIF, 'evidence', '%s.json' % ctx.prop), 'w') as f:
        json.dump(ev, f, indent=1, sort_keys=True, default=repr)
        f.write('\n')


if __name__ == '__main__':
    main()
