"""A small process pool with a HARD per-case time limit (a regex running inside sre cannot be interrupted by a
Python-level signal, so a hung worker is killed and replaced).

run_cases(func, cases, nproc=14, timeout=20.0) -> list of (case, ('ok', result) | ('hang', seconds) | ('died', info))
`func` is called in forked workers as func(case) and must return something picklable."""
import multiprocessing as mp
import os
import time


def _worker(func, conn):
    try:
        while True:
            msg = conn.recv()
            if msg is None:
                return
            idx, case = msg
            try:
                res = ('ok', func(case))
            except BaseException as e:      # the harness function itself failed
                res = ('died', 'harness function raised %r' % (e,))
            conn.send((idx, res))
    except (EOFError, KeyboardInterrupt):
        return


class _W:
    def __init__(self, ctx, func):
        self.parent, child = ctx.Pipe()
        self.proc = ctx.Process(target=_worker, args=(func, child), daemon=True)
        self.proc.start()
        child.close()
        self.busy = None      # (idx, t0)

    def kill(self):
        try:
            self.proc.kill()
            self.proc.join(1)
        except Exception:
            pass
        try:
            self.parent.close()
        except Exception:
            pass


def run_cases(func, cases, nproc=None, timeout=20.0):
    cases = list(cases)
    nproc = min(nproc or max(2, (os.cpu_count() or 4) - 2), max(1, len(cases)))
    ctx = mp.get_context('fork')
    workers = [_W(ctx, func) for _ in range(nproc)]
    results = [None] * len(cases)
    nxt = 0
    done = 0
    try:
        while done < len(cases):
            progressed = False
            for i, w in enumerate(workers):
                if w.busy is None and nxt < len(cases):
                    w.parent.send((nxt, cases[nxt]))
                    w.busy = (nxt, time.time())
                    nxt += 1
                    progressed = True
            for i, w in enumerate(workers):
                if w.busy is None:
                    continue
                idx, t0 = w.busy
                try:
                    ready = w.parent.poll(0)
                except (OSError, EOFError):
                    ready = False
                if ready:
                    try:
                        ridx, res = w.parent.recv()
                        results[ridx] = res
                    except (EOFError, OSError):
                        results[idx] = ('died', 'worker connection lost')
                        w.kill()
                        workers[i] = _W(ctx, func)
                    else:
                        w.busy = None
                    done += 1
                    progressed = True
                elif not w.proc.is_alive():
                    results[idx] = ('died', 'worker process exited with %s' % w.proc.exitcode)
                    w.kill()
                    workers[i] = _W(ctx, func)
                    done += 1
                    progressed = True
                elif time.time() - t0 > timeout:
                    results[idx] = ('hang', time.time() - t0)
                    w.kill()
                    workers[i] = _W(ctx, func)
                    done += 1
                    progressed = True
            if not progressed:
                time.sleep(0.002)
    finally:
        for w in workers:
            try:
                w.parent.send(None)
            except Exception:
                pass
            w.kill()
    return list(zip(cases, results))
