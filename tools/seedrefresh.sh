#!/bin/sh
# Re-verify EVERY stored seeded change against the current /repo HEAD and the current checks, N properties at a time,
# and refresh seeded/*/meta.json (`verified.final`).  Each worker uses its own scratch worktree of /verif (so that
# tables regenerated from a changed tree never touch this checkout) and its own scratch worktree of /repo.
# usage: tools/seedrefresh.sh [N=5]      logs: /tmp/seedres-final/<seed>.log (scratch; the result is written to meta.json)
HERE="$(cd "$(dirname "$0")/.." && pwd)"; cd "$HERE"
N="${1:-5}"
OUT=/tmp/seedres-final; rm -rf "$OUT"; mkdir -p "$OUT"
PROPS=$(ls seeded | cut -d- -f1 | sort -u)
i=0
for p in $PROPS; do i=$(( (i % N) + 1 )); eval "G$i=\"\$G$i $p\""; done
for i in $(seq 1 "$N"); do
  git worktree remove --force /tmp/sv-$i 2>/dev/null
  git worktree add -q --detach /tmp/sv-$i HEAD || exit 2
  cp -r "$HERE/lean/.lake" /tmp/sv-$i/lean/.lake
  eval "props=\$G$i"
  ( for p in $props; do for d in "$HERE"/seeded/$p-*; do
        /tmp/sv-$i/tools/seedcheck.sh "$d" $p > "$OUT/$(basename $d).log" 2>&1
    done; done ) &
done
wait
for i in $(seq 1 "$N"); do git worktree remove --force /tmp/sv-$i; done
python3 - "$OUT" <<'EOF'
import glob, json, os, re, subprocess, sys
out = sys.argv[1]
here = os.getcwd()
head = subprocess.run(['git', '-C', '/repo', 'rev-parse', '--short', 'HEAD'], stdout=subprocess.PIPE).stdout.decode().strip()
n = c = 0
for d in sorted(glob.glob(os.path.join(here, 'seeded', 'C*-*'))):
    name = os.path.basename(d)
    log = open(os.path.join(out, name + '.log')).read() if os.path.exists(os.path.join(out, name + '.log')) else ''
    m = json.load(open(os.path.join(d, 'meta.json')))
    v = m.setdefault('verified', {})
    lines = log.splitlines()
    def after(tag):
        for i, l in enumerate(lines):
            if l.startswith(tag) and i + 1 < len(lines):
                return lines[i + 1]
        return ''
    viol = [l for l in lines if l.startswith('VIOLATION')]
    tier = [l for l in lines if ' tier=' in l]
    final = {'repo_head': head, 'applies': 'PATCH DOES NOT APPLY' not in log,
             'demo_unchanged': after('== demo on unchanged')[:60], 'demo_changed': after('== demo with change')[:60],
             'suite_changed': after('== suite with change')[:80],
             'check': (re.sub(r'replay=\S+', 'replay=<file>', viol[0]) if viol else 'no VIOLATION'),
             'check_summary': (tier[-1].split(': ', 1)[-1][:200] if tier else '')}
    caught = bool(viol)
    if v.get('caught_by_check') is False or str(v.get('how_reported', '')).startswith('MISSED'):
        v.setdefault('first_run', v.get('how_reported'))
    v['caught_by_check'] = caught
    if caught:
        v['how_reported'] = ('quick tier: correspondence / proof obligation broke, no failing input found (VIOLATION ... no-failing-input-found)'
                             if 'no-failing-input-found' in viol[0] else 'quick tier: VIOLATION with a concrete replay') + '; ' + final['check_summary']
    elif not final['applies']:
        v['how_reported'] = 'patch no longer applies to /repo HEAD %s' % head
    else:
        v['how_reported'] = 'MISSED by the quick tier (%s)' % final['check_summary']
    v['final'] = final
    json.dump(m, open(os.path.join(d, 'meta.json'), 'w'), indent=1)
    n += 1; c += caught
    print('%s %s %s' % (name, 'caught' if caught else 'MISSED', final['check'][:80]))
print('%d seeded changes, %d caught at /repo %s' % (n, c, head))
EOF
