#!/bin/sh
# usage: tools/seedcheck.sh <seed-dir containing patch.diff demo.py> <prop> [tier]
# verifies a seeded change in a scratch worktree of /repo (never /repo itself): demo passes without / fails with the
# change, the test suite stays green, and then runs ./check <prop> against the changed tree.
SEED="$1"; PROP="$2"; TIER="${3:-quick}"
HERE="$(cd "$(dirname "$0")/.." && pwd)"
WT="/tmp/sc-$PROP-$$"
git -C /repo worktree add -q --detach "$WT" HEAD || exit 2
cd "$WT"
echo "== demo on unchanged tree"; PYTHONPATH="$WT" /venv/bin/python "$SEED/demo.py" >/tmp/sc-$$.out 2>&1; echo "exit=$? $(tail -1 /tmp/sc-$$.out)"
git apply "$SEED/patch.diff" || { echo "PATCH DOES NOT APPLY"; cd /; git -C /repo worktree remove --force "$WT"; exit 3; }
echo "== demo with change"; PYTHONPATH="$WT" /venv/bin/python "$SEED/demo.py" >/tmp/sc-$$.out 2>&1; echo "exit=$? $(tail -1 /tmp/sc-$$.out)"
echo "== suite with change"; PYTHONPATH="$WT" /venv/bin/python -m pytest -q -p no:cacheprovider --timeout=900 2>&1 | tail -1
echo "== check $PROP ($TIER) with change"
(cd "$HERE" && VERIF_REPO="$WT" ./check "$PROP" --tier "$TIER" 2>&1 | grep -E "VIOLATION|tier=|INFRA" | head -5)
# the run above regenerated tables / evidence from the CHANGED tree: put the committed ones back
(cd "$HERE" && git checkout -q -- lean/CssVerif/Gen evidence 2>/dev/null)
cd /; git -C /repo worktree remove --force "$WT"; rm -f /tmp/sc-$$.out
