#!/bin/sh
# merge a per-property build branch into the current branch; evidence / generated tables conflict by construction
# (both sides re-ran the check): take the branch's version for those, stop on any other conflict.
# usage: tools/mergebranch.sh <branch>
B="$1"
git merge --no-edit -q "$B" >/dev/null 2>&1 && { echo "$B merged"; exit 0; }
for f in $(git diff --name-only --diff-filter=U); do
  case "$f" in
    evidence/*|lean/CssVerif/Gen/*) git checkout --theirs -- "$f" && git add "$f" ;;
    *) echo "CONFLICT in $f (left for manual resolution)"; exit 1 ;;
  esac
done
git commit -q --no-edit && echo "$B merged (evidence/Gen conflicts resolved to the branch)"
