"""C20 — independent specification functions (the oracle side). Written from the property statement, the module
docstrings of encutils and the XML 1.0 grammar — NOT from the code and not from the Lean model.

* spec_classify      media type -> class name, as documented in the comments at the type constants
* DEFAULTS           class name -> documented default encoding
* parse_xmldecl      XML 1.0 production [23] XMLDecl at offset 0 of a document
* spec_sniff         BOM's encoding, else the declared encoding, else UTF-8
* spec_info          the documented first-match table for getEncodingInfo
* region_short       region of the one listed known finding
"""
import codecs
import re

APP_LITERALS = ('application/xml', 'application/xml-dtd', 'application/xml-external-parsed-entity')
TEXT_LITERALS = ('text/xml', 'text/xml-external-parsed-entity')

# documented defaults ("TEXT: For most text/* types the encoding will be reported as iso-8859-1. Exceptions are XML
# formats send as text/* mime type and text/css which has a default encoding of UTF-8"; RFC 3023 for the XML types)
DEFAULTS = {'appxml': 'utf-8', 'textxml': 'ascii', 'html': 'iso-8859-1', 'text': 'iso-8859-1', 'css': 'utf-8',
            'other': None}


def spec_classify(media_type):
    """class of a media type: application/xml family, text/xml family, text/html, text/css, other text/*, other"""
    if not media_type:
        return 'other'
    m = media_type.strip().lower()
    if m in APP_LITERALS or (m.startswith('application/') and '+xml' in m[len('application/'):]):
        return 'appxml'
    if m in TEXT_LITERALS or (m.startswith('text/') and '+xml' in m[len('text/'):]):
        return 'textxml'
    if m == 'text/html':
        return 'html'
    if m == 'text/css':
        return 'css'
    if m.startswith('text/'):
        return 'text'
    return 'other'


# ----------------------------------------------------------------------------------------------
BOMS = [  # longest first, as the Unicode FAQ orders them
    ('\x00\x00\xfe\xff', 'utf-32-be'),
    ('\xff\xfe\x00\x00', 'utf-32-le'),
    ('\xef\xbb\xbf', 'utf-8'),
    ('\xfe\xff', 'utf-16-be'),
    ('\xff\xfe', 'utf-16-le'),
]


def spec_bom(doc):
    for b, name in BOMS:
        if doc.startswith(b):
            return name
    return None


def same_codec(a, b):
    if a is None or b is None:
        return a is b
    try:
        return codecs.lookup(a).name == codecs.lookup(b).name
    except LookupError:
        return a == b


_S = ' \t\r\n'


class _P:
    def __init__(self, s):
        self.s, self.i = s, 0

    def lit(self, t):
        if self.s.startswith(t, self.i):
            self.i += len(t)
            return True
        return False

    def ws(self):
        j = self.i
        while self.i < len(self.s) and self.s[self.i] in _S:
            self.i += 1
        return self.i > j

    def eq(self):
        a = self.i
        self.ws()
        if not self.lit('='):
            return None
        b = self.i
        self.ws()
        return (b - 1 > a) or (self.i > b)      # white space around '='

    def quoted(self, pat):
        if self.i >= len(self.s) or self.s[self.i] not in '"\'':
            return None
        q = self.s[self.i]
        j = self.s.find(q, self.i + 1)
        if j < 0:
            return None
        v = self.s[self.i + 1:j]
        if not re.fullmatch(pat, v):
            return None
        self.i = j + 1
        return v


def parse_xmldecl(doc):
    """XML 1.0 [23] XMLDecl ::= '<?xml' VersionInfo EncodingDecl? SDDecl? S? '?>' at offset 0.
    -> ('nodecl',)                      the document does not start with an XML declaration ('<?xml' + white space)
       ('wf', enc|None, end, eqspace)   well formed; end = offset after '?>'; eqspace = white space around the '=' of encoding
       ('malformed',)                   starts like a declaration but is not one"""
    if not doc.startswith('<?xml') or len(doc) < 6:
        return ('nodecl',)
    if doc[5] not in _S:
        # another PI target (<?xml-stylesheet, <?xmlx): no declaration; anything else after '<?xml' is not XML at all
        c = doc[5]
        return ('nodecl',) if (c.isalnum() and not c.isspace()) or c in '-._:' else ('malformed',)
    p = _P(doc)
    p.lit('<?xml')
    p.ws()
    if not p.lit('version') or p.eq() is None or p.quoted(r'1\.[0-9]+') is None:
        return ('malformed',)
    enc, eqspace = None, False
    had_ws = p.ws()
    if had_ws and p.lit('encoding'):
        e = p.eq()
        if e is None:
            return ('malformed',)
        enc = p.quoted(r'[A-Za-z][A-Za-z0-9._\-]*')
        if enc is None:
            return ('malformed',)
        eqspace = e
        had_ws = p.ws()
    if had_ws and p.lit('standalone'):
        if p.eq() is None or p.quoted(r'yes|no') is None:
            return ('malformed',)
        p.ws()
    if not p.lit('?>'):
        return ('malformed',)
    return ('wf', enc, p.i, eqspace)


def spec_sniff(doc, include_default=True):
    """-> (status, encoding). status 'exact': the property fixes the answer (compare codec-wise for BOMs);
    'open': the document starts like an XML declaration but is malformed — the property does not say what is declared"""
    b = spec_bom(doc)
    if b:
        return ('bom', b)
    d = parse_xmldecl(doc)
    if d[0] == 'malformed':
        return ('open', None)
    if d[0] == 'wf' and d[1] is not None:
        return ('exact', d[1].lower())
    return ('exact', 'utf-8' if include_default else None)


# -- regions of the known findings ------------------------------------------------------------------
def region_short(doc):
    """C20-info-short: fewer than four characters (getEncodingInfo level only; the sniffer itself answers since 759e903)"""
    return len(doc) < 4


# ----------------------------------------------------------------------------------------------
def known3(*vals):
    """two of the given encodings are both known (truthy) and differ"""
    k = [v for v in vals if v]
    return any(a != b for i, a in enumerate(k) for b in k[i + 1:])


def absent_class(doc):
    """no transport information. The docstring: "If no media type is given the XML encoding pseudo attribute is used if
    present" (the code calls its own test naive). Fixed by the property only at the two ends:
    a document that starts (after an optional BOM) with a well-formed declaration spelled `<?xml version=` is XML;
    a document without `<?xml` in its first 40 characters is not; in between: None (not fixed)."""
    body = doc
    for b, _ in BOMS:
        if doc.startswith(b):
            body = doc[len(b):]
            break
    if body.startswith('<?xml version=') and parse_xmldecl(body)[0] == 'wf':
        return 'appxml'
    if '<?xml' not in doc[:40]:
        return 'other'
    return None


def spec_info(has_response, media_type, charset, doc, meta_charset, bom_alias=None):
    """the documented table. media_type/charset: what the transport says (None = not given); doc: the document (str);
    meta_charset: charset of the first Content-Type <meta> element (None = none). `bom_alias(canonical)` lets the caller
    substitute the implementation's spelling of a BOM codec name (checked by the caller to be the same codec).
    Returns a dict with the expected encoding, mismatch and the per-source encodings, or None where the property does not
    fix the answer (malformed XML declaration where the XML source counts; undecided document without transport)."""
    transport = charset.lower() if charset else None
    cls = spec_classify(media_type) if has_response else absent_class(doc)
    if cls is None:
        return None
    xml = meta = None
    if cls in ('appxml', 'html'):
        st, xml = spec_sniff(doc, include_default=(cls == 'appxml'))
        if st == 'open':
            return None
        if st == 'bom' and bom_alias:
            xml = bom_alias(xml)
    if cls in ('html', 'text'):
        meta = meta_charset.lower() if meta_charset else None
    if transport:
        enc = transport
    elif cls == 'appxml':
        enc = xml
    elif cls == 'html':
        enc = meta or DEFAULTS['html']
    else:
        enc = DEFAULTS[cls]
    return {'class': cls, 'encoding': enc, 'mismatch': known3(transport, xml, meta), 'http': transport, 'xml': xml,
            'meta': meta}


# ----------------------------------------------------------------------------------------------
# the HTML meta stage, on the start tags the parser reports
def _attr(attrs, key):
    """value of the LAST attribute whose name is `key` case-insensitively: lower-cased, '' for a value-less one"""
    for name, value in reversed(list(attrs)):
        if name.lower() == key:
            return '' if value is None else value.lower()
    return None


def spec_meta(events):
    """content (lower-cased) of the FIRST <meta> start tag with http-equiv = content-type (stripped, any case) that has a
    non-empty content; None if there is none"""
    for tag, attrs in events:
        if tag != 'meta':
            continue
        he = _attr(attrs, 'http-equiv')
        if he is None or he.strip() != 'content-type':
            continue
        c = _attr(attrs, 'content')
        if c:
            return c
    return None


# ----------------------------------------------------------------------------------------------
def spec_try(b):
    """tryEncodings without chardet, from its docstring: the first of ascii, iso-8859-1 (windows-1252 if that works too and
    shows a Euro sign), utf-8 that decodes the bytes"""
    if all(x < 128 for x in b):
        return 'ascii'
    try:
        if '€' in codecs.decode(b, 'cp1252'):
            return 'windows-1252'
    except UnicodeDecodeError:
        pass
    return 'iso-8859-1'
