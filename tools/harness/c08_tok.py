"""C08 part E — escapecss against the tokenizer: token types and boundaries of the escaped text (T8.4c).

correspondence: `Tok.tokenize` of the text and of `escape rep text` (driver request `tokesc`) vs the real tokenizer on the
text and on `text.encode(enc, 'escapecss').decode(enc)`: (type, value, source span) of every token; per production
`Re.first` on both texts and the position map `elen` (request `first`) vs the compiled patterns of the real tokenizer.
oracle (implementation only): on every text in which no character to be escaped stands after an odd run of backslashes,
the escaped text has the same token types and every token's source is the escaped source of the original token; for the
productions of `keptProductions` (Props/C08.lean) the pattern's match on the escaped text ends at the mapped position.
"""
from lib.framework import enc, time_limit

# encodings in which ASCII is represented as ASCII (hypothesis `AsciiRep` of the theorems)
ASCII_TARGETS = ['ascii', 'latin-1', 'koi8-r', 'iso-8859-7', 'cp1251', 'cp437', 'utf-8', 'iso-8859-15', 'cp1252']

KEPT = ['S', 'URI', 'UNICODE-RANGE', 'IDENT', 'DIMENSION', 'PERCENTAGE', 'NUMBER', 'HASH', 'COMMENT', 'STRING', 'INVALID', 'ATKEYWORD', 'INCLUDES',
        'DASHMATCH', 'PREFIXMATCH', 'SUFFIXMATCH', 'SUBSTRINGMATCH', 'CDO', 'CDC']

NA = ['\xe4', '\u20ac', '\u0414', '\u03b4', '\U0001F600', '\x80', '\u0100', '\xa0', '\u0550', '\u0524', '\u524c', '\u755c',
      '\U0010ffff', '\u04c6', '\ud800']
NAMES = ['a', 'b', 'x1', 'url', 'u', 'U', 'Ur', 'and', 'and', 'not', '-a', '--x', '-', '_', 'E4', 'e', 'em', 'px',
         '\\41 ', '\\41', '\\e4 ', '\\E4\r\n', '\\\\', '\\(', '\\"', '\\55 ', '\\75', '\\52 l', '\\4c', '\\g', '\\ ', '\\-']
PIECES = [' ', ' ', '  ', '\n', '\t', '\r\n', '\f', ';', ':', ',', '{', '}', '(', ')', '[', ']', '>', '+', '~', '*', '.', '#', '@',
          '/', '!', '=', '|', '%', '$', '^', '<', '~=', '|=', '^=', '$=', '*=', '<!--', '-->', '"', "'", '\\', '\\\n',
          '1', '12', '.5', '1.5', '-1', '+2', '0', 'U+', 'u+4', 'U+0-7F', 'u+??', '/*', '*/', '/**/', '/*x*/', '/* * / */',
          'url(', 'url( ', 'URL(', 'u\\72 l(', '\\75rl(', '\\55 \\52\\4c(', 'url("', "url('", '!important', '@media', '@import',
          '@charset ', '@charset "x";', '@-x', '#f00', '#-', '10px', '1e3', '2em', '50%', '1\\65 m', 'rgb(', 'var(', 'and(', 'AND(']
# unguarded pieces (a backslash directly before what has to be escaped): the region of C08-escaped-unrepresentable
UNGUARDED = ['\\\xe4', '\\\u20ac', '\\\\\\\xe4', '\\41\\\xe4']
EVEN = ['\\\\\xe4', '\\\\\\\\\u20ac']       # an even run of backslashes: outside the region


BODY = NA + ['a', 'b', ' ', 'E4', '\\41 ', '\\e4', '\\\\', '*', '/', '\\"', "\\'", '(', ')', '\\\n', '\\\r\n', '\\4\n', '-', '.png']


def composite(rng):
    """one construct that is (mostly) one token with characters to be escaped inside"""
    body = ''.join(rng.choice(BODY) for _ in range(rng.randint(0, 5)))
    k = rng.randrange(10)
    if k == 0:
        return '"' + body + rng.choice(['"', '"', '', '\n'])
    if k == 1:
        return "'" + body + rng.choice(["'", "'", ''])
    if k == 2:
        return '/*' + body + rng.choice(['*/', '**/', '*/', ''])
    if k == 3:
        return rng.choice(['url(', 'url( ', 'URL(', 'u\\72 l(']) + body + rng.choice([')', ' )', ''])
    if k == 4:
        q = rng.choice(['"', "'"])
        return 'url(' + q + body + q + rng.choice([')', ' )', ''])
    if k == 5:
        return '#' + rng.choice(NA) + rng.choice(NAMES)
    if k == 6:
        return '@' + rng.choice(NAMES[:6] + NA) + rng.choice(NA)
    if k == 7:
        return rng.choice(['1', '.5', '-2', '1e']) + rng.choice(NA) + rng.choice(['', 'x', '%'])
    if k == 8:
        return rng.choice(NAMES) + rng.choice(NA) + '('
    return rng.choice(['U+', 'u+', 'u', 'U', '\\55 ', '\\75']) + rng.choice(NA + ['4', '??', '+'])


def gen_text(rng):
    n = rng.randint(1, 9)
    out = []
    for _ in range(n):
        x = rng.random()
        if x < 0.22:
            out.append(composite(rng))
        elif x < 0.38:
            out.append(rng.choice(NA))
        elif x < 0.55:
            out.append(rng.choice(NAMES))
        elif x < 0.93:
            out.append(rng.choice(PIECES))
        elif x < 0.965:
            out.append(rng.choice(EVEN))
        else:
            out.append(rng.choice(UNGUARDED))
    return ''.join(out)


def fixed_texts():
    return ['\xe4', '\xe4b ', 'a\xe4', '\xe4(', '\xe4 (', '-\xe4', '--\xe4', '1\xe4', '1.5\xe4 ', '#\xe4', '@\xe4 x;', '"\xe4"',
            "'\xe4'", '"\xe4', '"a\\\n\xe4"', '"\xe4\\""', '"\\41\xe4"', '/*\xe4*/', '/*\xe4', '/* \xe4 **/ a', 'url(\xe4)',
            'url( \xe4 )', 'url("\xe4")', 'url(\xe4', 'url(\xe4 \xe4)', 'u\xe4', 'U+\xe4', '\u0550', 'u\u0524', 'ur\u524c(',
            '\\55\u0550', 'url(\u0550)', '\\\xe4;', '\\\\\xe4;', '"\\\xe4"', '"\\\\\xe4"', '/*\\\xe4*/', 'url(\\\xe4)',
            'a\xe4{b\xe4:c\xe4 "\xe4" url(\xe4.png) 1\xe4 #\xe4 \xe4(1)}/*\xe4*/', '\xe4~=\xe4', '<!--\xe4-->', '@charset "\xe4";',
            '\\41\xe4', '\\41 \xe4', '\\4\xe4', 'and(\xe4', '\xe4and(', '50%\xe4', '\ud800', '"\ud800"']


def unrepresentable(text, e):
    out = []
    for ch in sorted(set(text)):
        try:
            ch.encode(e)
        except UnicodeEncodeError:
            out.append(ord(ch))
    return out


def py_escape(text, e):
    import cssutils.serialize  # noqa: F401  (registers the error handler)
    return text.encode(e, 'escapecss').decode(e)


def in_region(text, unrep):
    """the region of C08-escaped-unrepresentable on a whole text: a character that has to be escaped after an odd run
    of backslashes"""
    run = 0
    for ch in text:
        if ch == '\\':
            run += 1
            continue
        if run % 2 == 1 and ord(ch) in unrep:
            return True
        run = 0
    return False


def adjacency_guard(text, unrep):
    """the guard of the theorems: no character that has to be escaped directly after a backslash"""
    return not any(a == '\\' and ord(b) in unrep for a, b in zip(text, text[1:]))


def offsets(text, toks):
    """start offset of every token from its (line, col)"""
    starts = [0]
    for i, ch in enumerate(text):
        if ch == '\n':
            starts.append(i + 1)
    return [starts[line - 1] + col - 1 for (_, _, line, col) in toks]


_tok = [None]


def impl_tokens(text):
    """[(type, value, source span)] or an exception name"""
    if _tok[0] is None:
        from cssutils.tokenize2 import Tokenizer
        _tok[0] = Tokenizer()
    try:
        with time_limit(10):
            toks = list(_tok[0].tokenize(text))
    except Exception as x:
        return type(x).__name__
    offs = offsets(text, toks) + [len(text)]
    return [(t[0], t[1], text[offs[i]:offs[i + 1]]) for i, t in enumerate(toks)]


def impl_tokens_full(text):
    """[(type, value)] in full-sheet mode, or an exception name"""
    if _tok[0] is None:
        impl_tokens('')
    try:
        with time_limit(10):
            return [(t[0], t[1]) for t in _tok[0].tokenize(text, fullsheet=True)]
    except Exception as x:
        return type(x).__name__


def show_tokens_v(toks):
    if isinstance(toks, str):
        return toks
    return ','.join('%s/%s' % (t, enc(v)) for (t, v) in toks) if toks else '-'


def show_tokens(toks):
    if isinstance(toks, str):
        return toks
    return ','.join('%s/%s/%s' % (t, enc(v), enc(s)) for (t, v, s) in toks) if toks else '-'


def impl_first(text):
    """{production: end of `pattern.match(text)` or None} for the compiled productions of the real tokenizer"""
    if _tok[0] is None:
        impl_tokens('')
    return {name: (lambda m: None if m is None else m.end())(matcher(text)) for name, matcher in _tok[0].tokenmatches[1:]}


def note(ctx, what, name):
    d = ctx.notes.setdefault('E_' + what, {})
    d[name] = d.get(name, 0) + 1


def check_first(ctx, item, text, e, unrep, model_line):
    """every production on the text and on the escaped text, and the position map: model vs the compiled patterns; the
    statement of T8.4c on the implementation's own patterns"""
    guard = adjacency_guard(text, unrep)
    fa, fb = impl_first(text), impl_first(py_escape(text, e))
    sh = lambda v: 'N' if v is None else str(v)     # noqa: E731
    words = ['g=%d' % guard]
    for name, _ in _tok[0].tokenmatches[1:]:
        el = None if fa[name] is None else len(py_escape(text[:fa[name]], e))
        words.append('%s:%s:%s:%s' % (name, sh(fa[name]), sh(fb[name]), sh(el)))
        if unrep and fa[name] is not None and el != fa[name]:
            note(ctx, 'first_moved', name)
        if guard and fb[name] != el:
            if name in KEPT:
                ctx.violate('escaping keeps the match of every token production (kept list) at the mapped position',
                            dict(item, kind='tokfirst', text=text, production=name),
                            {'match_text': fa[name], 'match_escaped': fb[name], 'mapped': el})
            else:
                note(ctx, 'unproved_production_differs', name)
    if model_line is not None and model_line != ' '.join(words):
        ctx.disagree('production matches on the escaped text', dict(item, kind='tokfirst', text=text), ' '.join(words),
                     model_line)


def check(self, ctx, cssutils, pairs):
    lines, meta = [], []
    for text, e in pairs:
        unrep = unrepresentable(text, e)
        a = impl_tokens(text)
        # the text from `pos` on, for the first token starts: this is what the productions are matched against
        sufs = [text]
        if not isinstance(a, str):
            pos = 0
            for (_, _, span) in a[:4]:
                pos += len(span)
                if 0 < pos < len(text) and text[pos:] not in sufs:
                    sufs.append(text[pos:])
        first_at = len(lines) + 2
        lines.append('tokesc %s %s' % (enc(unrep), enc(text)))
        lines.append('tokescf %s %s' % (enc(unrep), enc(text)))
        for s_ in sufs:
            lines.append('first %s %s' % (enc(unrep), enc(s_)))
        meta.append((text, e, unrep, a, sufs, first_at))
    out = ctx.driver(lines) if ctx.model_ok else [None] * len(lines)
    for (text, e, unrep, a, sufs, first_at) in meta:
        esc = py_escape(text, e)
        item = {'kind': 'tokesc', 'text': text, 'encoding': e}
        guard = adjacency_guard(text, unrep)
        region = in_region(text, unrep)
        b = impl_tokens(esc)
        ctx.case(key=('E', text, tuple(unrep)), nontrivial=bool(unrep),
                 kind='E:%s:%s' % ('escaped' if unrep else 'plain', 'guarded' if guard else ('region' if region else 'even')),
                 sample={'tokesc': text, 'encoding': e, 'escaped': esc})
        # -- correspondence: the model's tokens of both texts
        m = out[first_at - 2]
        if m is not None:
            got = 'g=%d A=%s B=%s' % (guard, show_tokens(a), show_tokens(b))
            if m != got:
                ctx.disagree('tokens of the escaped text', item, got, m)
        # -- the same in full-sheet mode (completions of unterminated constructs): types and values
        af, bf = impl_tokens_full(text), impl_tokens_full(esc)
        mf_ = out[first_at - 1]
        if mf_ is not None:
            gotf = 'A=%s B=%s' % (show_tokens_v(af), show_tokens_v(bf))
            if mf_ != gotf:
                ctx.disagree('tokens of the escaped text (full sheet)', dict(item, kind='tokescf'), gotf, mf_)
        if not isinstance(af, str) and not isinstance(bf, str) and [t for t, _ in af] != [t for t, _ in bf]:
            ctx.violate('escaping what the encoding cannot represent keeps every token type (full-sheet mode)',
                        dict(item, kind='tokescf'), {'escaped': esc, 'types': [t for t, _ in bf][:12],
                                                      'expected': [t for t, _ in af][:12]},
                        known='C08-escaped-unrepresentable' if region else None)
        # -- correspondence + oracle: every production at the first token starts
        for k, s_ in enumerate(sufs):
            check_first(ctx, item, s_, e, unrep, out[first_at + k])
        # -- oracle: same token types, every source span escaped (all token types)
        if isinstance(a, str) or isinstance(b, str):
            ctx.violate('the tokenizer does not raise', item, {'text': a if isinstance(a, str) else 'ok',
                                                                'escaped': b if isinstance(b, str) else 'ok'})
            continue
        if unrep:
            for (t, _, s_) in a:
                if any(ord(ch) in unrep for ch in s_):
                    note(ctx, 'tokens_with_escape', t)
        want = [(t, py_escape(s_, e)) for (t, _, s_) in a]
        have = [(t, s_) for (t, _, s_) in b]
        if want != have:
            ctx.violate('escaping what the encoding cannot represent keeps every token: same types, same boundaries',
                        item, {'escaped': esc, 'tokens': [list(x) for x in have][:12], 'expected': [list(x) for x in want][:12]},
                        known='C08-escaped-unrepresentable' if region else None)


def part(self, ctx, cssutils):
    rng = ctx.sub_rng('E')
    pairs = [(t, e) for t in fixed_texts() for e in ('ascii', 'latin-1', 'koi8-r', 'utf-8')]
    for _ in range(ctx.n(5000, 60000)):
        pairs.append((gen_text(rng), rng.choice(ASCII_TARGETS)))
    check(self, ctx, cssutils, pairs)
