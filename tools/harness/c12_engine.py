"""C12, engine part: random grammars x token streams x nesting x dirty/clean global state, run through the
real cssutils.prodparser.ProdParser and through the Lean model (lean/CssVerif/Model/GlobalsProd.lean).

Observables compared: outcome class (ok / no content / raised), wellformed flag, the projection of the returned
Seq (comments, kept S, tokens, bracketed child results), and the two module-level queues after the call:
`prodparser.savedTokens` and the content of `prodparser.tokenizer._pushed`.
"""
import itertools

from lib.framework import time_limit, TimeLimit

# ---------------------------------------------------------------------------------------------
# alphabet: symbol index -> (type, value, text rendering for string sources)
ALPHABET = [
    ('IDENT', 'a'), ('IDENT', 'b'), ('IDENT', 'c'),          # 0 1 2
    ('CHAR', ','), ('CHAR', ';'), ('CHAR', '/'),             # 3 4 5
    ('CHAR', '('), ('CHAR', ')'),                            # 6 7
    ('NUMBER', '1'),                                         # 8
    ('S', ' '),                                              # 9
    ('COMMENT', '/*x*/'),                                    # 10
    ('INVALID', '"q'),                                       # 11
    ('EOF', ''),                                             # 12
    ('S', '\n'),                                             # 13
]
OTHER = [0, 1, 2, 3, 4, 5, 6, 7, 8]
SYM = {tv: i for i, tv in enumerate(ALPHABET)}
TYPE_LETTER = {'COMMENT': 'c', 'S': 's', 'INVALID': 'i', 'EOF': 'e'}


def sym_of(tok, table):
    key = (tok[0], tok[1])
    if key not in table:
        table[key] = len(table)
    return table[key]


def enc_tok(tok, table):
    return '%s%d%s' % (TYPE_LETTER.get(tok[0], 'o'), sym_of(tok, table), '!' if tok[1] in ',/' else '')


def enc_toks(toks, table):
    return ','.join(enc_tok(t, table) for t in toks) if toks else '-'


def mk(sym, line=1, col=1):
    t, v = ALPHABET[sym]
    return (t, v, line, col)


# ---------------------------------------------------------------------------------------------
# grammar descriptions: spec = dict(flags=str, nodes=[node...]); node = ('P', acc, flags, act) | ('S', ch, mn, mx) |
# ('C', ch, opt)
def gen_env(rng, n_specs=None, partof_discipline=True):
    """random environment of 1..3 grammars; children only refer to later grammars (no left recursion).
    with partof_discipline the stopIfNoMoreMatch flag is used the way the code base uses it: only in grammars that
    are reached through a child production which neither stops nor keeps (medialist.py:92-98)"""
    n = n_specs or rng.choice([1, 1, 2, 2, 3])
    partof = [False] * n
    if partof_discipline:
        for k in range(1, n):
            partof[k] = rng.random() < 0.5
    else:
        for k in range(n):
            partof[k] = rng.random() < 0.4
    env = []
    for k in range(n):
        env.append(gen_spec(rng, k, n, partof))
    return env, partof


def gen_spec(rng, k, n, partof):
    nodes = []

    def prod():
        acc = sorted(set(rng.choice(OTHER) for _ in range(rng.randint(1, 3))))
        if rng.random() < 0.1:
            acc.append(9)
        fl = ''
        if rng.random() < 0.25:
            fl += 'o'
        if rng.random() < 0.08:
            fl += 's'
        if rng.random() < 0.10:
            fl += 'k'
        if partof[k] and rng.random() < 0.5:
            fl += 'i'
        if rng.random() < 0.25:
            fl += 'n'
        if rng.random() < 0.2:
            fl += 'm'
        r = rng.random()
        act = 'k'
        if r < 0.15:
            act = 'd'
        elif r < 0.45 and k + 1 < n:
            kk = rng.randint(k + 1, n - 1)
            act = 'c%d' % kk
            if partof[kk]:
                # a production that starts a hand-back child goes on with the loop (it neither stops nor keeps)
                fl = fl.replace('s', '').replace('k', '')
        return ('P', acc, fl, act)

    def build(depth):
        """appends the node (pre-order) and returns its index"""
        idx = len(nodes)
        r = rng.random()
        if depth >= 3 or (depth > 0 and r < 0.35):
            nodes.append(prod())
            return idx
        nodes.append(None)
        if r < 0.75:
            cnt = rng.randint(1, 3)
            ch = [build(depth + 1) for _ in range(cnt)]
            # termination of Sequence.nextProd: one member is a mandatory Prod
            if not any(nodes[c][0] == 'P' and 'o' not in nodes[c][2] for c in ch):
                i = len(nodes)
                p = prod()
                nodes.append(('P', p[1], p[2].replace('o', ''), p[3]))
                ch.insert(rng.randint(0, len(ch)), i)
                # keep pre-order property i < child: indices only need to be larger than the parent
            mn, mx = rng.choice([(1, 1), (0, 1), (0, None), (1, None), (0, 2), (1, 2), (2, 3)])
            nodes[idx] = ('S', ch, mn, mx)
        else:
            cnt = rng.randint(1, 3)
            ch = []
            for _ in range(cnt):
                c = build(depth + 1)
                ch.append(c)
            opt = rng.choice(['-', '-', 't', 'f'])
            if opt == '-' and any(nodes[c][0] == 'C' and nodes[c][2] == '-' for c in ch):
                opt = rng.choice(['t', 'f'])
            nodes[idx] = ('C', ch, opt)
        return idx

    # the root is a Sequence or a Choice (ProdParser.parse calls productions.nextProd)
    build(0)
    flags = ''
    if rng.random() < 0.3:
        flags += 'K'
    if rng.random() < 0.15:
        flags += 'C'
    if rng.random() < 0.3:
        flags += 'E'
    if rng.random() < 0.5:
        flags += 'P'
    return {'flags': flags, 'nodes': nodes}


def gen_template_env(rng, discipline=True):
    """environments shaped like the code base's users of the two queues, with random perturbations:
    (a) MediaList / MediaQuery: a comma separated list whose members start a child that hands back what it cannot use
    (b) CSSVariablesDeclaration / PropertyValue: `name : value ;` where the value child stops at `;` and KEEPS it
        (tokenizer.push), to be re-emitted when the source is the module-level tokenizer
    (c) PropertyValue / CSSFunction: nextSor productions with nested function children"""
    kind = rng.choice('abc')
    A, B, C_, COMMA, SEMI, SLASH, LP, RP, NUM = 0, 1, 2, 3, 4, 5, 6, 7, 8

    def fl(*names):
        return ''.join(names)
    if kind == 'a':
        start = [A, LP] if rng.random() < 0.7 else [A, B, LP]
        parent = {'flags': rng.choice(['', 'K', 'E']), 'nodes': [
            ('S', [1, 2], 1, 1),
            ('P', start, '', 'c1'),
            ('S', [3, 4], 0, None),
            ('P', [COMMA], '', rng.choice(['d', 'k'])),
            ('P', start, '' if discipline else rng.choice(['', 's', 'k']), 'c1'),
        ]}
        stop_if = 'i' if rng.random() < 0.9 else ''
        child = {'flags': rng.choice(['', 'P']), 'nodes': [
            ('C', [1, 6], '-'),
            ('S', [2, 3, 4], 1, 1),
            ('P', [B], 'o', 'k'),                                  # ONLY|NOT
            ('P', [A], stop_if, 'k'),                              # media_type, stopIfNoMoreMatch=self._partof
            ('S', [5, 7], 0, None),
            ('P', [C_], '', 'k'),                                  # AND
            ('S', [7], 1, 1),                                      # expression first
            ('S', [8, 9, 10], 1, 1),
            ('P', [LP], '', 'k'),
            ('P', [A, B], '', rng.choice(['k', 'c2'])),            # media_feature (sometimes a value child)
            ('P', [RP], stop_if, 'k'),
        ]}
        leaf = {'flags': rng.choice(['', 'P']), 'nodes': [('C', [1, 2], '-'), ('P', [A, B], 's', 'k'), ('P', [NUM], 's', 'k')]}
        env = [parent, child, leaf]
        partof = [False, bool(stop_if), False]
        if not discipline and rng.random() < 0.5:
            env = [child, parent, leaf]          # the hand-back grammar called stand-alone (the pinned defect)
            # renumber children
            env[0] = {'flags': child['flags'], 'nodes': [n if n[0] != 'P' or not n[3].startswith('c') else (n[0], n[1], n[2], 'c2')
                                                       for n in child['nodes']]}
            env[1] = {'flags': parent['flags'], 'nodes': [n if n[0] != 'P' or not n[3].startswith('c') else (n[0], n[1], n[2], 'd')
                                                        for n in parent['nodes']]}
            partof = [bool(stop_if), False, False]
        return env, partof
    if kind == 'b':
        parent = {'flags': 'E', 'nodes': [
            ('S', [1, 5, 11, 12], 1, 1),
            ('S', [2, 3, 4], 1, 1),
            ('P', [A, B], '', 'k'),                                # ident
            ('P', [C_], 'o', 'd'),                                 # ':'
            ('P', OTHER, '', 'c1'),                                # term -> PropertyValue child
            ('S', [6, 7, 8, 9], 0, None),
            ('P', [9, 13], 'o', 'k'),                              # S (never reaches the engine unless checkS)
            ('P', [SEMI], 'o', 'd'),
            ('P', [9, 13], 'o', 'k'),
            ('S', [10, 13, 14], 1, 1),
            ('P', [A, B], '', 'k'),
            ('P', [9, 13], 'o', 'k'),
            ('P', [SEMI], 'o', 'd'),
            ('P', [C_], 'o', 'd'),
            ('P', OTHER, '', 'c1'),
        ]}
        # fix the pre-order requirement (children larger than parents): node 9's children 10, 13, 14 are fine
        child = {'flags': rng.choice(['', 'P']), 'nodes': [
            ('S', [1, 2], 1, 1),
            ('P', [A, B, NUM], 'n', rng.choice(['k', 'c2'])),
            ('S', [3, 6, 7], 0, None),
            ('C', [4, 5], 't'),
            ('P', [COMMA], 'om', 'k'),
            ('P', [SLASH], 'om', 'k'),
            ('P', [SEMI], 'ok', 'k'),                              # END ';' stopAndKeep
            ('P', [A, B, NUM], 'n', rng.choice(['k', 'c2'])),
        ]}
        leaf = {'flags': '', 'nodes': [('C', [1, 2], '-'), ('P', [A, B], 's', 'k'), ('P', [NUM], 's', 'k')]}
        return [parent, child, leaf], [False, False, False]
    # kind c
    top = {'flags': rng.choice(['', 'P']), 'nodes': [
        ('S', [1, 4], 1, 1),
        ('C', [2, 3], '-'),
        ('P', [A, NUM], 'n', 'k'),
        ('P', [B], 'n', 'c1'),                                     # function start
        ('S', [5, 9, 10], 0, None),
        ('C', [6, 7, 8], 't'),
        ('P', [9, 13], '', 'd'),
        ('P', [COMMA], 'om', 'k'),
        ('P', [SLASH], 'om', 'k'),
        ('P', [SEMI], 'ok', 'k'),
        ('C', [11, 12], '-'),
        ('P', [A, NUM], 'n', 'k'),
        ('P', [B], 'n', 'c1'),
    ]}
    func = {'flags': rng.choice(['', 'P', 'K']), 'nodes': [
        ('S', [1, 2, 3, 7], 1, 1),
        ('P', [B], '', 'k'),
        ('P', [LP], '', 'k'),
        ('S', [4, 5, 6], 0, None),
        ('P', [A, NUM], 'n', 'k'),
        ('P', [COMMA], 'o', 'k'),
        ('P', [B], 'on', 'c2'),
        ('P', [RP], 's', 'k'),
    ]}
    inner = {'flags': '', 'nodes': [('S', [1, 2, 3, 4], 1, 1), ('P', [B], '', 'k'), ('P', [LP], '', 'k'),
                                    ('P', [A, NUM], 'o', 'k'), ('P', [RP], 's', 'k')]}
    return [top, func, inner], [False, False, False]


def gen_template_tokens(rng, env, src_kind):
    """mostly well-formed input for the template environments, then damaged a little"""
    A, B, C_, COMMA, SEMI, SLASH, LP, RP, NUM, S = 0, 1, 2, 3, 4, 5, 6, 7, 8, 9
    shape = len(env[0]['nodes'])
    out = []
    if shape in (5, 11):                      # (a) media list / media query
        for i in range(rng.randint(1, 3)):
            if i:
                out += [COMMA] + ([S] if rng.random() < 0.5 else [])
            if rng.random() < 0.2:
                out += [B, S]
            out += [A]
            for _ in range(rng.choice([0, 0, 1, 2])):
                out += [S, C_, S, LP, rng.choice([A, B]), RP]
            if rng.random() < 0.35:
                out += [S, rng.choice([A, B, NUM, C_])]         # what the child cannot use
    elif shape == 15:                         # (b) variables declaration
        for i in range(rng.randint(1, 3)):
            out += [rng.choice([A, B]), C_]
            for j in range(rng.randint(1, 3)):
                if j:
                    out += rng.choice([[S], [COMMA], [SLASH], [S, COMMA, S]])
                out += [rng.choice([A, B, NUM])]
            if rng.random() < 0.8:
                out += [SEMI]
            if rng.random() < 0.4:
                out += [S]
    else:                                     # (c) value with functions
        for j in range(rng.randint(1, 4)):
            if j:
                out += rng.choice([[S], [COMMA], [SLASH], [S, COMMA], [S, S]])
            if rng.random() < 0.4:
                out += [B, LP, rng.choice([A, NUM])]
                if rng.random() < 0.5:
                    out += [COMMA, rng.choice([A, NUM])]
                if rng.random() < 0.85:
                    out += [RP]
            else:
                out += [rng.choice([A, NUM])]
        if rng.random() < 0.3:
            out += [SEMI, A]
    # S runs: white space - dropped comment - white space
    if src_kind == 'L':
        i = 0
        while i < len(out):
            if out[i] == S and rng.random() < 0.3:
                out.insert(i, rng.choice([S, 13]))
                i += 1
            i += 1
    # damage
    for _ in range(rng.choice([0, 0, 0, 1, 1, 2])):
        if not out:
            break
        i = rng.randrange(len(out))
        r = rng.random()
        if r < 0.4:
            del out[i]
        elif r < 0.8:
            out.insert(i, rng.choice(OTHER + [9, 10] + ([12] if src_kind == 'L' else [])))
        else:
            out[i] = rng.choice(OTHER)
    return out


def enc_env(env):
    out = []
    for sp in env:
        ns = []
        for n in sp['nodes']:
            if n[0] == 'P':
                ns.append('P:%s:%s:%s' % ('+'.join(map(str, n[1])) or '-', n[2] or '-', n[3]))
            elif n[0] == 'S':
                ns.append('S:%s:%d:%s' % ('+'.join(map(str, n[1])), n[2], '*' if n[3] is None else n[3]))
            else:
                ns.append('C:%s:%s' % ('+'.join(map(str, n[1])) or '-', n[2]))
        out.append('%s/%s' % (sp['flags'] or '-', ';'.join(ns)))
    return '|'.join(out)


# ---------------------------------------------------------------------------------------------
class ChildRes:
    def __init__(self, k, ok, seq, nocontent):
        self.k, self.ok, self.seq, self.nocontent = k, ok, seq, nocontent


def build_real(env, k, table):
    """fresh grammar objects for env[k] (the code builds its grammars inside every _setCssText)"""
    import cssutils
    from cssutils.prodparser import Prod, Sequence, Choice
    sp = env[k]
    nodes = sp['nodes']

    def make(i):
        n = nodes[i]
        if n[0] == 'P':
            acc = set(ALPHABET[s] for s in n[1])
            fl = n[2]
            act = n[3]
            if act == 'd':
                to_seq = False
            elif act == 'k':
                to_seq = None
            else:
                kk = int(act[1:])
                to_seq = (lambda kk: lambda t, tokens: ('child', run_child(env, kk, cssutils.helper.pushtoken(t, tokens),
                                                                           table)))(kk)
            return Prod(name='p%d' % i, match=lambda t, v, acc=acc: (t, v) in acc, optional='o' in fl, toSeq=to_seq,
                        stop='s' in fl, stopAndKeep='k' in fl, stopIfNoMoreMatch='i' in fl,
                        nextSor=',/' if 'n' in fl else False, mayEnd='m' in fl)
        if n[0] == 'S':
            mn, mx = n[2], n[3]
            return Sequence(*[make(c) for c in n[1]], minmax=lambda mn=mn, mx=mx: (mn, mx))
        kw = {}
        if n[2] != '-':
            kw['optional'] = n[2] == 't'
        return Choice(*[make(c) for c in n[1]], **kw)

    return make(0)


def run_child(env, k, tokens, table):
    import cssutils
    from cssutils.prodparser import ProdParser
    sp = env[k]
    fl = sp['flags']
    ok, seq, store, unused = ProdParser().parse(tokens, 'g%d' % k, build_real(env, k, table), keepS='K' in fl,
                                                checkS='C' in fl, emptyOk='E' in fl)
    nocontent = store is None and unused is None
    if not ok and 'P' in fl:
        cssutils.log.error('g%d: not wellformed' % k)
    return ChildRes(k, ok, seq, nocontent)


def project(res, table, out):
    if res.nocontent:
        out.append(')n')
        return
    for item in res.seq:
        v = item.value
        if isinstance(v, ChildRes):
            out.append('(%d' % v.k)
            project(v, table, out)
        elif hasattr(v, 'cssText') and not isinstance(v, str):
            out.append('c%d' % sym_of(('COMMENT', v.cssText), table))
        else:
            s = sym_of((item.type, v), table)
            out.append(('S%d' if item.type == 'S' else 't%d') % s)
    out.append(')1' if res.ok else ')0')


def read_pushed(tokenizer):
    """content of the push-back queue without changing what it denotes"""
    p = tokenizer._pushed
    if isinstance(p, list):
        return list(p)
    items = list(p)
    tokenizer._pushed = itertools.chain(items)
    return items


class CountingList(list):
    """measurement only (evidence statistics on a sample of the cases): counts hand-overs through savedTokens"""
    appended = 0
    popped = 0

    def append(self, x):
        CountingList.appended += 1
        list.append(self, x)

    def pop(self, *a):
        r = list.pop(self, *a)
        CountingList.popped += 1
        return r


def run_impl(env, k, src_kind, toks, text, raising, saved, pushed, table, stats=None):
    """returns the reply string in the model driver's format"""
    import xml.dom
    import cssutils
    from cssutils import prodparser
    cssutils.log.raiseExceptions = raising
    prodparser.savedTokens[:] = list(reversed(saved))   # protocol lists the top of the stack first
    prodparser.tokenizer.clear()
    for t in reversed(pushed):
        prodparser.tokenizer.push(t)
    src = text if src_kind == 'T' else list(toks)
    orig_list = prodparser.savedTokens
    if stats is not None:
        CountingList.appended = CountingList.popped = 0
        prodparser.savedTokens = CountingList(orig_list)
        pushes = [0]
        tk = prodparser.tokenizer

        def counting_push(*tokens, _orig=type(tk).push):
            pushes[0] += 1
            return _orig(tk, *tokens)
        tk.push = counting_push
    try:
        with time_limit(3):
            res = run_child(env, k, src, table)
        items = []
        project(res, table, items)
        last = items.pop()
        if last == ')n':
            out = 'nocontent'
        else:
            out = 'ok %s %s' % (last[1], ','.join(items) or '-')
    except xml.dom.SyntaxErr:
        out = 'raised'
    except TimeLimit:
        out = 'timeout'
    except RecursionError:
        out = 'recursion'
    sv = list(reversed(prodparser.savedTokens))
    if stats is not None:
        stats['handed_back'] = CountingList.appended
        stats['popped'] = CountingList.popped
        stats['pushed'] = pushes[0]
        del prodparser.tokenizer.push
        prodparser.savedTokens = orig_list
    pu = read_pushed(prodparser.tokenizer)
    reply = '%s / %s / %s' % (out, enc_toks(sv, table), enc_toks(pu, table))
    # leave the process clean for the next case
    prodparser.savedTokens[:] = []
    prodparser.tokenizer.clear()
    return reply


# ---------------------------------------------------------------------------------------------
def env_symbols(env):
    out = []
    for sp in env:
        for n in sp['nodes']:
            if n[0] == 'P':
                out += [x for x in n[1] if x in OTHER]
    return out or list(OTHER)


def gen_tokens(rng, src_kind, pool=None):
    """token symbols for one case; string sources are rendered and re-tokenized by the caller.
    `pool`: symbols the grammars accept (drawn from with preference, so that parses get somewhere)"""
    n = rng.choice([0, 1, 2, 3, 4, 5, 6, 8, 10, 14])
    syms = []
    pool = pool or OTHER
    for _ in range(n):
        r = rng.random()
        if r < 0.50:
            syms.append(rng.choice(pool))
        elif r < 0.62:
            syms.append(rng.choice(OTHER))
        elif r < 0.80:
            syms.append(9)
            # S tokens in a row (what a tokenizer that drops comments leaves behind: `a /*c*/ , b`)
            while src_kind == 'L' and rng.random() < 0.35:
                syms.append(rng.choice([9, 13]))
        elif r < 0.90:
            syms.append(10)
        elif r < 0.94 and src_kind == 'L':
            syms.append(12)
        elif r < 0.97:
            syms.append(11)
        else:
            syms.append(rng.choice(OTHER))
    return syms


def render(syms):
    """text whose tokenization is (hopefully) the symbol sequence; the caller tokenizes and uses what comes out"""
    parts = []
    for i, s in enumerate(syms):
        t, v = ALPHABET[s]
        if t == 'INVALID':
            parts.append(v + '\n')
        elif t in ('IDENT', 'NUMBER') and i + 1 < len(syms) and ALPHABET[syms[i + 1]][0] in ('IDENT', 'NUMBER'):
            parts.append(v + '/**/' if False else v + ' ')
        elif t == 'IDENT' and i + 1 < len(syms) and ALPHABET[syms[i + 1]][1] == '(':
            parts.append(v + ' ')
        else:
            parts.append(v)
    return ''.join(parts)


def make_case(rng, discipline=True, dirty=None):
    import cssutils.tokenize2
    src_kind = rng.choice(['T', 'L'])
    if rng.random() < 0.4:
        env, partof = gen_template_env(rng, discipline)
        syms = gen_template_tokens(rng, env, src_kind)
    else:
        env, partof = gen_env(rng, partof_discipline=discipline)
        syms = gen_tokens(rng, src_kind, env_symbols(env))
    table = dict(SYM)
    text = None
    if src_kind == 'T':
        text = render(syms)
        toks = list(cssutils.tokenize2.Tokenizer().tokenize(text.strip()))
    else:
        toks = [mk(s, 1, i + 1) for i, s in enumerate(syms)]
    raising = rng.random() < 0.4
    if dirty is None:
        dirty = rng.random() < 0.25
    saved = [mk(rng.choice(OTHER + [9]), 9, 9) for _ in range(rng.choice([1, 1, 2]))] if dirty and rng.random() < 0.7 else []
    pushed = [mk(rng.choice(OTHER), 8, 8) for _ in range(rng.choice([1, 1, 2]))] if dirty and rng.random() < 0.6 else []
    return {'env': env, 'partof': partof, 'k': 0, 'src': src_kind, 'toks': toks, 'text': text, 'raising': raising,
            'saved': saved, 'pushed': pushed, 'table': table, 'disciplined': discipline}


def model_line(case, fuel=200000):
    t = case['table']
    return 'pp %s %s %s %s %s %d %d %s' % ('R' if case['raising'] else 'L', enc_toks(case['saved'], t),
                                         enc_toks(case['pushed'], t), case['src'], enc_toks(case['toks'], t),
                                         case['k'], fuel, enc_env(case['env']))


def impl_reply(case, stats=None):
    return run_impl(case['env'], case['k'], case['src'], case['toks'], case['text'], case['raising'], case['saved'],
                    case['pushed'], case['table'], stats)


# ---------------------------------------------------------------------------------------------
def _dec_toks(w):
    out = []
    if w == '-':
        return out
    for x in w.split(','):
        out.append(mk(int(x[1:].rstrip('!')), 1, 1))
    return out


def _dec_env(w):
    env = []
    for sp in w.split('|'):
        fl, nodes = sp.split('/')
        ns = []
        for n in nodes.split(';'):
            f = n.split(':')
            if f[0] == 'P':
                ns.append(('P', [int(x) for x in f[1].split('+')] if f[1] != '-' else [], '' if f[2] == '-' else f[2], f[3]))
            elif f[0] == 'S':
                ns.append(('S', [int(x) for x in f[1].split('+')], int(f[2]), None if f[3] == '*' else int(f[3])))
            else:
                ns.append(('C', [int(x) for x in f[1].split('+')] if f[1] != '-' else [], f[2]))
        env.append({'flags': '' if fl == '-' else fl, 'nodes': ns})
    return env


def case_from_line(line):
    """inverse of model_line for symbols of the fixed alphabet (corpus and replay)"""
    w = line.split()
    case = {'env': _dec_env(w[8]), 'k': int(w[6]), 'src': w[4], 'toks': _dec_toks(w[5]), 'text': None,
            'raising': w[1] == 'R', 'saved': _dec_toks(w[2]), 'pushed': _dec_toks(w[3]), 'table': dict(SYM),
            'disciplined': False}
    if case['src'] == 'T':
        import cssutils.tokenize2
        case['text'] = render([int(x[1:].rstrip('!')) for x in w[5].split(',')]) if w[5] != '-' else ''
        case['toks'] = list(cssutils.tokenize2.Tokenizer().tokenize(case['text'].strip()))
    return case
