"""C12, engine part: random grammars x token streams x nesting x dirty/clean global state, run through the
real cssutils.prodparser.ProdParser and through the Lean model (lean/CssVerif/Model/GlobalsProd.lean).

Observables compared: outcome class (ok / no content / raised), wellformed flag, the projection of the returned
Seq (comments, kept S, tokens, bracketed child results), and the two module-level queues after the call:
`prodparser.savedTokens` and the content of `prodparser.tokenizer._pushed`.
"""
import itertools

from lib.framework import time_limit, TimeLimit

# ---------------------------------------------------------------------------------------------
# alphabet: symbol index -> (type, value, text rendering for string sources)
ALPHABET = [
    ('IDENT', 'a'), ('IDENT', 'b'), ('IDENT', 'c'),          # 0 1 2
    ('CHAR', ','), ('CHAR', ';'), ('CHAR', '/'),             # 3 4 5
    ('CHAR', '('), ('CHAR', ')'),                            # 6 7
    ('NUMBER', '1'),                                         # 8
    ('S', ' '),                                              # 9
    ('COMMENT', '/*x*/'),                                    # 10
    ('INVALID', '"q'),                                       # 11
    ('EOF', ''),                                             # 12
    ('S', '\n'),                                             # 13
]
OTHER = [0, 1, 2, 3, 4, 5, 6, 7, 8]
SYM = {tv: i for i, tv in enumerate(ALPHABET)}
TYPE_LETTER = {'COMMENT': 'c', 'S': 's', 'INVALID': 'i', 'EOF': 'e'}


def sym_of(tok, table):
    key = (tok[0], tok[1])
    if key not in table:
        table[key] = len(table)
    return table[key]


def enc_tok(tok, table):
    return '%s%d%s' % (TYPE_LETTER.get(tok[0], 'o'), sym_of(tok, table), '!' if tok[1] in ',/' else '')


def enc_toks(toks, table):
    return ','.join(enc_tok(t, table) for t in toks) if toks else '-'


def mk(sym, line=1, col=1):
    t, v = ALPHABET[sym]
    return (t, v, line, col)


# ---------------------------------------------------------------------------------------------
# grammar descriptions: spec = dict(flags=str, nodes=[node...]); node = ('P', acc, flags, act) | ('S', ch, mn, mx) |
# ('C', ch, opt)
def gen_env(rng, n_specs=None, partof_discipline=True):
    """random environment of 1..3 grammars; children only refer to later grammars (no left recursion).
    with partof_discipline the stopIfNoMoreMatch flag is used the way the code base uses it: only in grammars that
    are reached through a child production which neither stops nor keeps (medialist.py:92-98)"""
    n = n_specs or rng.choice([1, 1, 2, 2, 3])
    partof = [False] * n
    if partof_discipline:
        for k in range(1, n):
            partof[k] = rng.random() < 0.5
    else:
        for k in range(n):
            partof[k] = rng.random() < 0.4
    env = []
    for k in range(n):
        env.append(gen_spec(rng, k, n, partof))
    return env, partof


def gen_spec(rng, k, n, partof):
    nodes = []

    def prod():
        acc = sorted(set(rng.choice(OTHER) for _ in range(rng.randint(1, 3))))
        if rng.random() < 0.1:
            acc.append(9)
        fl = ''
        if rng.random() < 0.25:
            fl += 'o'
        if rng.random() < 0.08:
            fl += 's'
        if rng.random() < 0.10:
            fl += 'k'
        if partof[k] and rng.random() < 0.5:
            fl += 'i'
        if rng.random() < 0.25:
            fl += 'n'
        if rng.random() < 0.2:
            fl += 'm'
        r = rng.random()
        act = 'k'
        if r < 0.15:
            act = 'd'
        elif r < 0.45 and k + 1 < n:
            kk = rng.randint(k + 1, n - 1)
            act = 'c%d' % kk
            if partof[kk]:
                # a production that starts a hand-back child goes on with the loop (it neither stops nor keeps)
                fl = fl.replace('s', '').replace('k', '')
        return ('P', acc, fl, act)

    def build(depth):
        """appends the node (pre-order) and returns its index"""
        idx = len(nodes)
        r = rng.random()
        if depth >= 3 or (depth > 0 and r < 0.35):
            nodes.append(prod())
            return idx
        nodes.append(None)
        if r < 0.75:
            cnt = rng.randint(1, 3)
            ch = [build(depth + 1) for _ in range(cnt)]
            # termination of Sequence.nextProd: one member is a mandatory Prod
            if not any(nodes[c][0] == 'P' and 'o' not in nodes[c][2] for c in ch):
                i = len(nodes)
                p = prod()
                nodes.append(('P', p[1], p[2].replace('o', ''), p[3]))
                ch.insert(rng.randint(0, len(ch)), i)
                # keep pre-order property i < child: indices only need to be larger than the parent
            mn, mx = rng.choice([(1, 1), (0, 1), (0, None), (1, None), (0, 2), (1, 2), (2, 3)])
            nodes[idx] = ('S', ch, mn, mx)
        else:
            cnt = rng.randint(1, 3)
            ch = []
            for _ in range(cnt):
                c = build(depth + 1)
                ch.append(c)
            opt = rng.choice(['-', '-', 't', 'f'])
            if opt == '-' and any(nodes[c][0] == 'C' and nodes[c][2] == '-' for c in ch):
                opt = rng.choice(['t', 'f'])
            nodes[idx] = ('C', ch, opt)
        return idx

    # the root is a Sequence or a Choice (ProdParser.parse calls productions.nextProd)
    build(0)
    flags = ''
    if rng.random() < 0.3:
        flags += 'K'
    if rng.random() < 0.15:
        flags += 'C'
    if rng.random() < 0.3:
        flags += 'E'
    if rng.random() < 0.5:
        flags += 'P'
    return {'flags': flags, 'nodes': nodes}


def enc_env(env):
    out = []
    for sp in env:
        ns = []
        for n in sp['nodes']:
            if n[0] == 'P':
                ns.append('P:%s:%s:%s' % ('+'.join(map(str, n[1])) or '-', n[2] or '-', n[3]))
            elif n[0] == 'S':
                ns.append('S:%s:%d:%s' % ('+'.join(map(str, n[1])), n[2], '*' if n[3] is None else n[3]))
            else:
                ns.append('C:%s:%s' % ('+'.join(map(str, n[1])) or '-', n[2]))
        out.append('%s/%s' % (sp['flags'] or '-', ';'.join(ns)))
    return '|'.join(out)


# ---------------------------------------------------------------------------------------------
class ChildRes:
    def __init__(self, k, ok, seq, nocontent):
        self.k, self.ok, self.seq, self.nocontent = k, ok, seq, nocontent


def build_real(env, k, table):
    """fresh grammar objects for env[k] (the code builds its grammars inside every _setCssText)"""
    import cssutils
    from cssutils.prodparser import Prod, Sequence, Choice
    sp = env[k]
    nodes = sp['nodes']

    def make(i):
        n = nodes[i]
        if n[0] == 'P':
            acc = set(ALPHABET[s] for s in n[1])
            fl = n[2]
            act = n[3]
            if act == 'd':
                to_seq = False
            elif act == 'k':
                to_seq = None
            else:
                kk = int(act[1:])
                to_seq = (lambda kk: lambda t, tokens: ('child', run_child(env, kk, cssutils.helper.pushtoken(t, tokens),
                                                                           table)))(kk)
            return Prod(name='p%d' % i, match=lambda t, v, acc=acc: (t, v) in acc, optional='o' in fl, toSeq=to_seq,
                        stop='s' in fl, stopAndKeep='k' in fl, stopIfNoMoreMatch='i' in fl,
                        nextSor=',/' if 'n' in fl else False, mayEnd='m' in fl)
        if n[0] == 'S':
            mn, mx = n[2], n[3]
            return Sequence(*[make(c) for c in n[1]], minmax=lambda mn=mn, mx=mx: (mn, mx))
        kw = {}
        if n[2] != '-':
            kw['optional'] = n[2] == 't'
        return Choice(*[make(c) for c in n[1]], **kw)

    return make(0)


def run_child(env, k, tokens, table):
    import cssutils
    from cssutils.prodparser import ProdParser
    sp = env[k]
    fl = sp['flags']
    ok, seq, store, unused = ProdParser().parse(tokens, 'g%d' % k, build_real(env, k, table), keepS='K' in fl,
                                                checkS='C' in fl, emptyOk='E' in fl)
    nocontent = store is None and unused is None
    if not ok and 'P' in fl:
        cssutils.log.error('g%d: not wellformed' % k)
    return ChildRes(k, ok, seq, nocontent)


def project(res, table, out):
    if res.nocontent:
        out.append(')n')
        return
    for item in res.seq:
        v = item.value
        if isinstance(v, ChildRes):
            out.append('(%d' % v.k)
            project(v, table, out)
        elif hasattr(v, 'cssText') and not isinstance(v, str):
            out.append('c%d' % sym_of(('COMMENT', v.cssText), table))
        else:
            s = sym_of((item.type, v), table)
            out.append(('S%d' if item.type == 'S' else 't%d') % s)
    out.append(')1' if res.ok else ')0')


def read_pushed(tokenizer):
    """content of the push-back queue without changing what it denotes"""
    p = tokenizer._pushed
    if isinstance(p, list):
        return list(p)
    items = list(p)
    tokenizer._pushed = itertools.chain(items)
    return items


def run_impl(env, k, src_kind, toks, text, raising, saved, pushed, table):
    """returns the reply string in the model driver's format"""
    import xml.dom
    import cssutils
    from cssutils import prodparser
    cssutils.log.raiseExceptions = raising
    prodparser.savedTokens[:] = list(reversed(saved))   # protocol lists the top of the stack first
    prodparser.tokenizer.clear()
    for t in reversed(pushed):
        prodparser.tokenizer.push(t)
    src = text if src_kind == 'T' else list(toks)
    try:
        with time_limit(3):
            res = run_child(env, k, src, table)
        items = []
        project(res, table, items)
        last = items.pop()
        if last == ')n':
            out = 'nocontent'
        else:
            out = 'ok %s %s' % (last[1], ','.join(items) or '-')
    except xml.dom.SyntaxErr:
        out = 'raised'
    except TimeLimit:
        out = 'timeout'
    except RecursionError:
        out = 'recursion'
    sv = list(reversed(prodparser.savedTokens))
    pu = read_pushed(prodparser.tokenizer)
    reply = '%s / %s / %s' % (out, enc_toks(sv, table), enc_toks(pu, table))
    # leave the process clean for the next case
    prodparser.savedTokens[:] = []
    prodparser.tokenizer.clear()
    return reply


# ---------------------------------------------------------------------------------------------
def gen_tokens(rng, src_kind):
    """token symbols for one case; string sources are rendered and re-tokenized by the caller"""
    n = rng.choice([0, 1, 2, 3, 4, 5, 6, 8, 10])
    syms = []
    for _ in range(n):
        r = rng.random()
        if r < 0.62:
            syms.append(rng.choice(OTHER))
        elif r < 0.80:
            syms.append(9)
        elif r < 0.90:
            syms.append(10)
        elif r < 0.94 and src_kind == 'L':
            syms.append(12)
        elif r < 0.97:
            syms.append(11)
        else:
            syms.append(rng.choice(OTHER))
    return syms


def render(syms):
    """text whose tokenization is (hopefully) the symbol sequence; the caller tokenizes and uses what comes out"""
    parts = []
    for i, s in enumerate(syms):
        t, v = ALPHABET[s]
        if t == 'INVALID':
            parts.append(v + '\n')
        elif t in ('IDENT', 'NUMBER') and i + 1 < len(syms) and ALPHABET[syms[i + 1]][0] in ('IDENT', 'NUMBER'):
            parts.append(v + '/**/' if False else v + ' ')
        elif t == 'IDENT' and i + 1 < len(syms) and ALPHABET[syms[i + 1]][1] == '(':
            parts.append(v + ' ')
        else:
            parts.append(v)
    return ''.join(parts)


def make_case(rng, discipline=True, dirty=None):
    import cssutils.tokenize2
    env, partof = gen_env(rng, partof_discipline=discipline)
    src_kind = rng.choice(['T', 'L'])
    syms = gen_tokens(rng, src_kind)
    table = dict(SYM)
    text = None
    if src_kind == 'T':
        text = render(syms)
        toks = list(cssutils.tokenize2.Tokenizer().tokenize(text.strip()))
    else:
        toks = [mk(s, 1, i + 1) for i, s in enumerate(syms)]
    raising = rng.random() < 0.4
    if dirty is None:
        dirty = rng.random() < 0.25
    saved = [mk(rng.choice(OTHER + [9]), 9, 9) for _ in range(rng.choice([1, 1, 2]))] if dirty and rng.random() < 0.7 else []
    pushed = [mk(rng.choice(OTHER), 8, 8) for _ in range(rng.choice([1, 1, 2]))] if dirty and rng.random() < 0.6 else []
    return {'env': env, 'partof': partof, 'k': 0, 'src': src_kind, 'toks': toks, 'text': text, 'raising': raising,
            'saved': saved, 'pushed': pushed, 'table': table, 'disciplined': discipline}


def model_line(case, fuel=200000):
    t = case['table']
    return 'pp %s %s %s %s %s %d %d %s' % ('R' if case['raising'] else 'L', enc_toks(case['saved'], t),
                                         enc_toks(case['pushed'], t), case['src'], enc_toks(case['toks'], t),
                                         case['k'], fuel, enc_env(case['env']))


def impl_reply(case):
    return run_impl(case['env'], case['k'], case['src'], case['toks'], case['text'], case['raising'], case['saved'],
                    case['pushed'], case['table'])


# ---------------------------------------------------------------------------------------------
def _dec_toks(w):
    out = []
    if w == '-':
        return out
    for x in w.split(','):
        out.append(mk(int(x[1:].rstrip('!')), 1, 1))
    return out


def _dec_env(w):
    env = []
    for sp in w.split('|'):
        fl, nodes = sp.split('/')
        ns = []
        for n in nodes.split(';'):
            f = n.split(':')
            if f[0] == 'P':
                ns.append(('P', [int(x) for x in f[1].split('+')] if f[1] != '-' else [], '' if f[2] == '-' else f[2], f[3]))
            elif f[0] == 'S':
                ns.append(('S', [int(x) for x in f[1].split('+')], int(f[2]), None if f[3] == '*' else int(f[3])))
            else:
                ns.append(('C', [int(x) for x in f[1].split('+')] if f[1] != '-' else [], f[2]))
        env.append({'flags': '' if fl == '-' else fl, 'nodes': ns})
    return env


def case_from_line(line):
    """inverse of model_line for symbols of the fixed alphabet (corpus and replay)"""
    w = line.split()
    case = {'env': _dec_env(w[8]), 'k': int(w[6]), 'src': w[4], 'toks': _dec_toks(w[5]), 'text': None,
            'raising': w[1] == 'R', 'saved': _dec_toks(w[2]), 'pushed': _dec_toks(w[3]), 'table': dict(SYM),
            'disciplined': False}
    if case['src'] == 'T':
        import cssutils.tokenize2
        case['text'] = render([int(x[1:].rstrip('!')) for x in w[5].split(',')]) if w[5] != '-' else ''
        case['toks'] = list(cssutils.tokenize2.Tokenizer().tokenize(case['text'].strip()))
    return case
