"""C09 harness machinery: rule descriptions, operations, the lock-step runner, the implementation-side oracle,
generators and the region predicates of the known findings."""
import codecs
import logging
import re
import xml.dom

from lib.framework import enc, time_limit

KINDS10 = ['charset', 'import', 'namespace', 'variables', 'style', 'media', 'page', 'fontface', 'comment', 'unknown']
ALLKINDS = KINDS10 + ['margin']
MARGINS = ['@top-left', '@top-right', '@bottom-left']


def cssmods():
    import cssutils
    from cssutils import css
    return cssutils, css


def type_code(kind):
    _, css = cssmods()
    R = css.CSSRule
    return {'unknown': R.UNKNOWN_RULE, 'style': R.STYLE_RULE, 'charset': R.CHARSET_RULE, 'import': R.IMPORT_RULE,
            'media': R.MEDIA_RULE, 'fontface': R.FONT_FACE_RULE, 'page': R.PAGE_RULE, 'namespace': R.NAMESPACE_RULE,
            'comment': R.COMMENT, 'variables': R.VARIABLES_RULE, 'margin': R.MARGIN_RULE}[kind]


class Spec:
    """description of a fresh well-formed rule (object or text)"""
    __slots__ = ('kind', 'pre', 'uri', 'enc', 'used', 'kids')

    def __init__(self, kind, pre='', uri='', enc='', used=(), kids=()):
        self.kind, self.pre, self.uri, self.enc = kind, pre, uri, enc
        self.used, self.kids = list(used), list(kids)

    def to_json(self):
        return {'kind': self.kind, 'pre': self.pre, 'uri': self.uri, 'enc': self.enc, 'used': self.used,
                'kids': [k.to_json() for k in self.kids]}

    @staticmethod
    def from_json(d):
        return Spec(d['kind'], d.get('pre', ''), d.get('uri', ''), d.get('enc', ''), d.get('used', ()),
                    [Spec.from_json(k) for k in d.get('kids', ())])

    def nodes(self):
        out = ['%d/%s/%s/%s/%s/%d' % (type_code(self.kind), enc(self.pre), enc(self.uri), enc(self.enc),
                                      '+'.join(enc(u) for u in self.used) if self.used else '-', len(self.kids))]
        for k in self.kids:
            out += k.nodes()
        return out

    def proto(self):
        return ','.join(self.nodes())

    def key(self):
        return (self.kind, self.pre, self.uri, self.enc, tuple(self.used), tuple(k.key() for k in self.kids))

    def has_used(self):
        return bool(self.used) or any(k.has_used() for k in self.kids)

    # -- text
    def text(self, prefix_of):
        """CSS text; prefix_of(uri) -> declared prefix or None"""
        k = self.kind
        if k == 'unknown':
            return '@x y;'
        if k == 'style':
            if self.used:
                # declared prefix -> `p|e0`; the default namespace (prefix '') -> a bare type selector; undeclared -> `zz|e0`
                parts = []
                for i, u in enumerate(self.used):
                    p = prefix_of(u)
                    parts.append('zz|e%d' % i if p is None else 'e%d' % i if p == '' else '%s|e%d' % (p, i))
                sel = ','.join(parts)
            else:
                sel = '.a'          # a class selector uses no namespace, whatever the default namespace is
            return sel + '{left:0}'
        if k == 'charset':
            return '@charset "%s";' % self.enc
        if k == 'import':
            return '@import "x.css";'
        if k == 'media':
            return '@media print{%s}' % ' '.join(c.text(prefix_of) for c in self.kids)
        if k == 'fontface':
            return '@font-face{font-family:x}'
        if k == 'page':
            return '@page{margin:0;%s}' % ' '.join(c.text(prefix_of) for c in self.kids)
        if k == 'namespace':
            return '@namespace %s"%s";' % (self.pre + ' ' if self.pre else '', self.uri)
        if k == 'comment':
            return '/*c*/'
        if k == 'variables':
            return '@variables{a:1}'
        if k == 'margin':
            return '%s{left:0}' % self.pre
        raise ValueError(k)

    # -- object
    def build(self, tracked):
        """a fresh rule object (children inserted through the container's own insertRule)"""
        _, css = cssmods()
        k = self.kind
        if k == 'unknown':
            r = css.CSSUnknownRule('@x y;')
        elif k == 'style':
            if self.used:
                nsmap = {'n%d' % i: u for i, u in enumerate(self.used)}
                sel = ','.join('n%d|e%d' % (i, i) for i in range(len(self.used)))
                r = css.CSSStyleRule(selectorText=(sel, nsmap), style='left:0')
            else:
                r = css.CSSStyleRule(selectorText='.a', style='left:0')
        elif k == 'charset':
            r = css.CSSCharsetRule(encoding=self.enc)
        elif k == 'import':
            r = css.CSSImportRule(href='x.css')
        elif k == 'media':
            r = css.CSSMediaRule('print')
        elif k == 'fontface':
            r = css.CSSFontFaceRule()
            r.style.setProperty('font-family', 'x')
        elif k == 'page':
            r = css.CSSPageRule(style='margin:0')
        elif k == 'namespace':
            r = css.CSSNamespaceRule(namespaceURI=self.uri, prefix=self.pre)
        elif k == 'comment':
            r = css.CSSComment('/*c*/')
        elif k == 'variables':
            r = css.CSSVariablesRule()
            r.cssText = '@variables{a:1}'
        elif k == 'margin':
            r = css.MarginRule(self.pre, 'left:0')
        else:
            raise ValueError(k)
        tracked[id(r)] = r
        for c in self.kids:
            r.insertRule(c.build(tracked))
        return r


# --------------------------------------------------------------------------------------------------
# operations: tuples; ('ins', spec, idx|None, viaStr) ('add', spec, viaStr) ('del', i) ('enc', name|None)
# ('text', [spec]) ('nsset', p, u) ('nsdel', p) ('nins', path, spec, idx|None, viaStr) ('ndel', path, i)
# ('nbroken', path, [spec], variant)   container.cssText = almost a rule (BROKEN_TAILS)
# ('ntext', path, [spec]) ('mode', raising) ('insl', [spec], idx|None) ('ninsl', path, [spec], idx|None)

# operations on declaration blocks / properties of the styled rule at `path` (modelled: Model/SheetBlocks.lean)
# ('dnew', path, [[name, wf], ...], form)  form 0: rule.style = CSSStyleDeclaration(cssText=…), 1: rule.style = text,
#                                          2: rule.cssText = <same prelude>{text}
# ('dshare', path, src) rule.style = other.style      ('dtext', path, items) rule.style.cssText = text
# ('dset', path, name, wf, empty, replace) setProperty / item assignment   ('dsetobj', path, name) setProperty(Property)
# ('ddel', path, name) removeProperty / del style[name]
# ('dshareprop', path, src, i) rule.style.setProperty(<i-th Property object of the block of the rule at src>)
# edits around the DOM methods (Model/SheetRaw.lean): ('rawdel', path, i) del sheet.cssRules[i] (path ()) / del
# rule.cssRules[i]; ('rawins', spec, i) sheet.cssRules.insert(i, rule); ('reins', path, idx|None)
# sheet.insertRule(<the rule object at path>, idx) — the last operation of a history
DNAMES = ['top', 'color', 'right', 'margin-top']      # the names the operations use; the names of the declarations the
                                                      # generated rules are made with (left, margin, font-family) are not among them
DOPS = ('dnew', 'dshare', 'dtext', 'dset', 'dsetobj', 'ddel', 'dshareprop')
STYLED = ('STYLE_RULE', 'PAGE_RULE', 'FONT_FACE_RULE', 'MARGIN_RULE')


def cname(name):
    return enc(name) if name in DNAMES else '-'


def collapse(l):
    """entries of properties whose name is outside the pool (shown as `-`) are shown once per run (see Drv/C09.lean)"""
    out = []
    for x in l:
        if out and out[-1] == x and x.startswith('-'):
            continue
        out.append(x)
    return out


def items_text(items):
    # a declaration without a value is not well-formed
    return '; '.join('%s: 1px' % n if wf else '%s: ' % n for n, wf in items)


def items_proto(items):
    return ','.join('%s:%d' % (enc(n), int(bool(wf))) for n, wf in items) or '-'


# how a nested text is broken: content after the closing brace, or the block is not closed
BROKEN_TAILS = ['} ', '}/*c*/', '};', '} .z{left:0}', '}}', '} @x y;', '}\n', 'UNCLOSED', 'NOBLOCK']


def broken_text(is_media, kids_text, variant):
    head = '@media tv' if is_media else '@page :first'
    body = '{' + ('' if is_media else 'margin:0;') + kids_text
    tail = BROKEN_TAILS[variant % len(BROKEN_TAILS)]
    if tail == 'NOBLOCK':
        return head
    if tail == 'UNCLOSED':
        return head + body
    return head + body + tail


def op_to_json(op):
    return [x.to_json() if isinstance(x, Spec) else [s.to_json() for s in x] if (isinstance(x, list) and x and
            isinstance(x[0], Spec)) else x for x in op]


def ops_from_json(data):
    out = []
    for op in data:
        t = op[0]
        if t in ('ins', 'add', 'insord'):
            out.append((t, Spec.from_json(op[1])) + tuple(op[2:]))
        elif t == 'text':
            out.append((t, [Spec.from_json(s) for s in op[1]]))
        elif t == 'insl':
            out.append((t, [Spec.from_json(s) for s in op[1]], op[2]))
        elif t == 'ninsl':
            out.append((t, tuple(op[1]), [Spec.from_json(s) for s in op[2]], op[3]))
        elif t == 'nins':
            out.append((t, tuple(op[1]), Spec.from_json(op[2])) + tuple(op[3:]))
        elif t == 'ntext':
            out.append((t, tuple(op[1]), [Spec.from_json(s) for s in op[2]]))
        elif t in ('ndel', 'decl'):
            out.append((t, tuple(op[1]), op[2]))
        elif t in ('dnew', 'dtext'):
            out.append((t, tuple(op[1]), [tuple(i) for i in op[2]]) + tuple(op[3:]))
        elif t == 'dshare':
            out.append((t, tuple(op[1]), tuple(op[2])))
        elif t == 'dshareprop':
            out.append((t, tuple(op[1]), tuple(op[2]), op[3]))
        elif t in ('rawdel', 'reins'):
            out.append((t, tuple(op[1]), op[2]))
        elif t == 'rawins':
            out.append((t, Spec.from_json(op[1]), op[2]))
        elif t in ('dset', 'dsetobj', 'ddel'):
            out.append((t, tuple(op[1])) + tuple(op[2:]))
        elif t == 'nbroken':
            out.append((t, tuple(op[1]), [Spec.from_json(s) for s in op[2]], op[3]))
        else:
            out.append(tuple(op))
    return out


def valid_encoding(name):
    """independent rendering of CSSCharsetRule._setEncoding's test: one IDENT token naming a codec Python knows"""
    if not re.fullmatch(r'-?[A-Za-z_][A-Za-z0-9_-]*', name):
        return False
    try:
        if codecs.lookup(name).name == 'css':
            return False
        ' '.encode(name.lower())        # a text encoding (rot13, hex ... are codecs but cannot encode str to bytes)
        return True
    except (LookupError, ValueError):
        return False


def op_line(op):
    t = op[0]
    idx = lambda i: 'N' if i is None else str(i)
    path = lambda p: '.'.join(str(x) for x in p)
    specs = lambda l: '%d %s' % (len(l), ','.join(s.proto() for s in l) if l else '-')
    if t == 'ins':
        return 'ins %s %s %d' % (op[1].proto(), idx(op[2]), op[3])
    if t == 'insord':
        return 'insord %s %d %d' % (op[1].proto(), op[2], op[3])
    if t == 'add':
        return 'add %s %d' % (op[1].proto(), op[2])
    if t == 'del':
        return 'del %d' % op[1]
    if t == 'enc':
        e = op[1] or ''
        return 'enc %s %d' % (enc(e.lower()), valid_encoding(e) if e else 0)
    if t == 'text':
        return 'text ' + specs(op[1])
    if t == 'nsset':
        return 'nsset %s %s' % (enc(op[1]), enc(op[2]))
    if t == 'nsdel':
        return 'nsdel %s' % enc(op[1])
    if t == 'nins':
        return 'nins %s %s %s %d' % (path(op[1]), op[2].proto(), idx(op[3]), op[4])
    if t == 'ndel':
        return 'ndel %s %d' % (path(op[1]), op[2])
    if t == 'ntext':
        return 'ntext %s %s' % (path(op[1]), specs(op[2]))
    if t == 'nbroken':
        return 'nbroken %s' % path(op[1])
    if t == 'insl':
        return 'insl %s %s' % (specs(op[1]), idx(op[2]))
    if t == 'ninsl':
        return 'ninsl %s %s %s' % (path(op[1]), specs(op[2]), idx(op[3]))
    if t == 'mode':
        return 'mode %d' % op[1]
    if t == 'dnew':
        return 'dnew %s %s %d' % (path(op[1]), items_proto(op[2]), op[3])
    if t == 'dshare':
        return 'dshare %s %s' % (path(op[1]), path(op[2]))
    if t == 'dtext':
        return 'dtext %s %s' % (path(op[1]), items_proto(op[2]))
    if t == 'dset':
        return 'dset %s %s %d %d %d' % (path(op[1]), enc(op[2]), op[3], op[4], op[5])
    if t == 'dsetobj':
        return 'dsetobj %s %s' % (path(op[1]), enc(op[2]))
    if t == 'ddel':
        return 'ddel %s %s' % (path(op[1]), enc(op[2]))
    if t == 'dshareprop':
        return 'dshareprop %s %s %d' % (path(op[1]), path(op[2]), op[3])
    if t == 'rawdel':
        return 'rawdel %s %d' % (path(op[1]) if op[1] else '-', op[2])
    if t == 'rawins':
        return 'rawins %s %d' % (op[1].proto(), op[2])
    if t == 'reins':
        return 'reins %s %s' % (path(op[1]), idx(op[2]))
    if t == 'decl':
        return None         # not an operation of the model (kept for the witnesses of the fixed findings)
    raise ValueError(op)


def op_key(op):
    return tuple(x.key() if isinstance(x, Spec) else tuple(s.key() if isinstance(s, Spec) else tuple(s) for s in x)
                 if isinstance(x, list) else x for x in op)


# --------------------------------------------------------------------------------------------------
# generators

def basic_ops(n):
    """add / insertRule at every index / deleteRule at every index for a list of length n, ten kinds"""
    out = []
    for k in KINDS10:
        s = basic_spec(k)
        out.append(('add', s, 0))
        for i in range(n + 1):
            out.append(('ins', s, i, 0))
    for i in range(n):
        out.append(('del', i))
    return out


def basic_spec(k):
    if k == 'charset':
        return Spec(k, enc='utf-8')
    if k == 'namespace':
        return Spec(k, pre='n', uri='u')
    return Spec(k)


def predict_len(n, op):
    return None     # lengths come from the implementation (see Env.history)


def boundary_histories():
    S = Spec
    st, im, ns, va, ch, co, un, me, pa, ff = (S('style'), S('import'), S('namespace', pre='p', uri='u'),
                                              S('variables'), S('charset', enc='ascii'), S('comment'), S('unknown'),
                                              S('media'), S('page'), S('fontface'))
    hs = []
    # index range, Python negative delete indexes
    for k in (st, im, ns, va, ch, co):
        for i in (-2, -1, 0, 1, 2, 3, 7):
            hs.append([('ins', st, None, 0), ('ins', k, i, 0), ('ins', k, i, 1)])
    for i in range(-4, 4):
        hs.append([('add', st, 0), ('add', im, 0), ('add', co, 0), ('del', i), ('del', i)])
    # the histories named in DESIGN section 6 and in the fix commits
    hs.append([('text', [co, im]), ('add', ns, 0)])
    hs.append([('text', [co, im]), ('add', va, 0)])
    hs.append([('text', [co, ns]), ('add', va, 1)])
    hs.append([('text', [va, st]), ('ins', st, 0, 0), ('ins', me, 0, 1), ('ins', pa, 0, 0), ('ins', ff, 0, 0)])
    hs.append([('text', [ch, co, ns, S('style', used=['u'])]), ('nsdel', 'p'), ('nsdel', 'q'), ('nsset', 'p', 'v'),
               ('nsset', 'p', 'u'), ('nsset', 'q', 'u'), ('nsdel', 'q'), ('nsdel', 'p')])
    hs.append([('add', ns, 0), ('add', S('style', used=['u']), 0), ('ins', S('namespace', pre='p', uri='b'), 0, 0)])
    hs.append([('add', ns, 0), ('add', S('style', used=['u']), 0), ('ins', S('namespace', pre='p', uri='b'), 1, 0),
               ('ins', S('namespace', pre='p', uri='u'), 1, 0), ('ins', S('namespace', pre='p', uri='u'), 1, 1)])
    hs.append([('add', S('namespace', pre='p', uri='a'), 0), ('add', S('namespace', pre='q', uri='b'), 0),
               ('add', st, 0), ('ins', S('namespace', pre='z', uri='a'), 2, 0)])
    hs.append([('add', ch, 0), ('add', S('charset', enc='utf-8'), 0), ('add', S('charset', enc='latin-1'), 1),
               ('ins', S('charset', enc='utf-8'), 0, 0), ('ins', co, 0, 0), ('ins', un, 0, 1), ('ins', im, 0, 0)])
    for e in ('ascii', None, 'UTF-8', 'nonexistent', 'utf-8 x', '', 'latin-1'):
        hs.append([('enc', e), ('add', st, 0), ('enc', 'ascii'), ('enc', e), ('enc', None), ('enc', e)])
    # text replace: order errors, same prefix twice, same URI twice, undeclared prefix
    hs.append([('add', st, 0), ('text', [st, im]), ('text', [im, ch]), ('text', [va, ns]), ('text', [ns, va, ns])])
    hs.append([('text', [S('namespace', pre='p', uri='a'), S('namespace', pre='p', uri='b'), S('style', used=['b'])]),
               ('text', [S('namespace', pre='p', uri='a'), S('namespace', pre='q', uri='a'), S('style', used=['a'])]),
               ('text', [S('style', used=['a'])]), ('text', [])])
    # nested lists
    kids_all = [S(k) if k not in ('charset', 'namespace') else basic_spec(k) for k in KINDS10] + [S('margin', pre='@top-left')]
    for cont in (me, pa):
        for k in kids_all:
            hs.append([('add', cont, 0), ('nins', (0,), k, None, 0), ('nins', (0,), k, 0, 1), ('nins', (0,), k, 5, 0),
                       ('ndel', (0,), 0), ('ndel', (0,), -1), ('ndel', (0,), 3)])
        hs.append([('add', cont, 0), ('ntext', (0,), kids_all), ('ntext', (0,), [co, un, S('margin', pre='@top-left'),
                                                                                S('margin', pre='@top-left')])])
    hs.append([('text', [S('media', kids=[S('media', kids=[st]), S('page', kids=[S('margin', pre='@top-left')]), st])]),
               ('nins', (0, 0), st, None, 0), ('nins', (0, 1), S('margin', pre='@top-right'), 0, 1), ('ndel', (0, 0), 0),
               ('ntext', (0, 0), [st, co]), ('ntext', (0,), [st]), ('del', 0)])
    hs.append([('add', S('media', kids=[st, co]), 0), ('add', S('page', kids=[S('margin', pre='@top-left')]), 1),
               ('del', 0), ('text', [st])])
    hs.append([('add', S('margin', pre='@top-left'), 0), ('add', im, 0), ('add', ns, 0), ('ins', S('margin', pre='@top-left'), 0, 1)])
    # insertRule(rule, index, inOrder=True): the doc string says the index is ignored
    for k in (im, ns, va, ch, st, co):
        for i in (0, 1, 2):
            hs.append([('add', im, 0), ('add', st, 0), ('insord', k, i, 0), ('insord', k, i, 1)])
            hs.append([('add', im, 0), ('insord', k, min(i, 1), 0)])
    # CSSRuleList arguments: all or nothing; every rule goes through the kind / position checks
    mar = S('margin', pre='@top-left')
    for lst in ([st, co], [st, im], [im, ns, va, st], [ch, im], [co, ch], [ns, ns], [], [ff, me, pa], [va, ns]):
        for i in (None, 0, 1, 3):
            hs.append([('add', im, 0), ('add', st, 0), ('insl', lst, i), ('insl', lst, i)])
    for cont, good in ((me, [st, co, un, pa, me]), (pa, [mar, S('margin', pre='@top-right')])):
        for bad in kids_all:
            for lst in (good[:2], [good[0], bad], [bad, good[0]], [bad], []):
                hs.append([('add', cont, 0), ('ninsl', (0,), lst, None), ('ninsl', (0,), lst, 0), ('ninsl', (0,), lst, 9)])
    hs.append([('text', [S('media', kids=[S('media', kids=[st]), S('page', kids=[mar])])]),
               ('ninsl', (0, 0), [st, ff, co], 1), ('ninsl', (0, 1), [mar, st], None), ('ninsl', (0, 1), [S('margin', pre='@top-right')], 0)])
    # a namespace used only by a style rule inside (nested) @media rules is in use: deleteRule / del namespaces refuse
    for depth_kids in ([S('style', used=['u'])], [S('media', kids=[S('style', used=['u'])])],
                       [S('media', kids=[S('media', kids=[S('style', used=['u'])]), S('comment')])]):
        hs.append([('text', [ns, S('media', kids=depth_kids)]), ('nsdel', 'p'), ('del', 0), ('nsset', 'q', 'u'), ('nsdel', 'p'),
                   ('ins', S('namespace', pre='p', uri='b'), 0, 0), ('del', 1), ('nsdel', 'q'), ('del', 0)])
    # nested texts that are almost a rule: trailing content, unclosed block — in raise mode a SyntaxErr, in log-only
    # mode the call returns; either way the old children stay and keep naming the container
    for cont, kidsets in ((me, ([], [st], [st, co], [S('media', kids=[st]), un])), (pa, ([], [mar], [mar, co]))):
        for ks in kidsets:
            for v in range(len(BROKEN_TAILS)):
                hs.append([('text', [S(cont.kind, kids=[S('margin', pre='@top-right')] if cont.kind == 'page' else [st, S('media', kids=[st])])]),
                           ('nbroken', (0,), ks, v), ('ndel', (0,), 0), ('nbroken', (0,), ks, v)])
    hs.append([('text', [S('media', kids=[S('media', kids=[st, co]), st])]), ('nbroken', (0, 0), [st], 0), ('nbroken', (0, 0), [], 7),
               ('ntext', (0, 0), [co]), ('nbroken', (0,), [st], 3)])
    # the default namespace, used by a bare type selector
    hs.append([('nsset', '', 'u'), ('ins', S('style', used=['u']), None, 1), ('nsdel', ''), ('nsset', '', 'u'), ('nsset', '', 'v'),
               ('nsset', 'p', 'u'), ('nsdel', ''), ('del', 0), ('del', 0), ('nsdel', 'p')])
    return hs


class Walker:
    """state-aware random operation generator; small pools so that prefixes / URIs / encodings collide"""
    PRE = ['', 'p', 'q']
    URI = ['u', 'v', 'w']
    ENC = ['utf-8', 'ascii', 'latin-1', 'UTF-8', 'nonexistent', 'utf-8 x', None, '']

    def __init__(self, rng):
        self.rng = rng

    def spec(self, kind, declared, depth=0, nons=False):
        r = self.rng
        if nons and kind == 'style':
            return Spec(kind)
        if kind == 'charset':
            return Spec(kind, enc=r.choice(['utf-8', 'ascii', 'latin-1']))
        if kind == 'namespace':
            return Spec(kind, pre=r.choice(self.PRE), uri=r.choice(self.URI))
        if kind == 'style':
            used = []
            if declared and r.random() < 0.4:
                used = r.sample(declared, r.randint(1, min(2, len(declared))))
            elif r.random() < 0.03:
                used = ['nowhere']
            return Spec(kind, used=used)
        if kind == 'margin':
            return Spec(kind, pre=r.choice(MARGINS))
        if kind == 'media' and depth < 2 and r.random() < 0.5:
            ks = [self.spec(r.choice(['style', 'style', 'comment', 'unknown', 'page', 'media']), declared, depth + 1, nons)
                  for _ in range(r.randint(0, 3))]
            return Spec(kind, kids=ks)
        if kind == 'page' and r.random() < 0.5:
            return Spec(kind, kids=[Spec('margin', pre=m) for m in r.sample(MARGINS, r.randint(0, 2))])
        return Spec(kind)

    def kind(self):
        return self.rng.choice(KINDS10 + ['style', 'style', 'namespace', 'import', 'media', 'page'])

    def index(self, n):
        r = self.rng
        x = r.random()
        if x < 0.12:
            return None
        if x < 0.2:
            return r.choice([-1, -2, n + 1, n + 5])
        return r.randint(0, n)

    def text_specs(self, declared_unused):
        r = self.rng
        n = r.randint(0, 6)
        x = r.random()
        kinds = [self.kind() for _ in range(n)]
        if x < 0.6:
            order = {'charset': 0, 'import': 1, 'namespace': 2, 'variables': 3}
            kinds.sort(key=lambda k: order.get(k, 4))
            kinds = [k for i, k in enumerate(kinds) if k != 'charset' or i == 0]
            if r.random() < 0.5:
                kinds.insert(r.randint(0, len(kinds)), 'comment')
        # the namespace rules first, so that selectors only use URIs whose prefix is unambiguous in this text (one
        # non-empty prefix, declared once, URI declared once): whether such a rule is accepted or refused by the
        # parser, the text written for the selector is the same
        nss = {i: self.spec('namespace', []) for i, k in enumerate(kinds) if k == 'namespace'}
        pres = [s.pre for s in nss.values()]
        uris = [s.uri for s in nss.values()]
        specs, decl = [], []
        for i, k in enumerate(kinds):
            if k == 'namespace':
                s = nss[i]
                if s.pre and pres.count(s.pre) == 1 and uris.count(s.uri) == 1:
                    decl.append(s.uri)
            else:
                s = self.spec(k, list(decl))
            specs.append(s)
        return specs

    def ditems(self):
        r = self.rng
        return [(r.choice(DNAMES), int(r.random() < 0.85)) for _ in range(r.randint(0, 3))]

    def decl_op(self, st, styled):
        r = self.rng
        path = r.choice(styled)
        x = r.random()
        if x < 0.2:
            form = r.randrange(3)
            rule = st.at(path)
            if form == 2 and (rule.type == rule.PAGE_RULE or (rule.type == rule.STYLE_RULE and
                                                              rule.selectorList._getUsedUris())):
                form = 1    # the text of an @page rule is an operation on its rule list; a selector with a prefix is not rewritten
            return ('dnew', path, self.ditems(), form)
        if x < 0.35:
            return ('dtext', path, self.ditems())
        if x < 0.65:
            return ('dset', path, r.choice(DNAMES), int(r.random() < 0.9), int(r.random() < 0.1), int(r.random() < 0.8))
        if x < 0.78:
            return ('dsetobj', path, r.choice(DNAMES))
        if x < 0.81:
            # a contained object is handed in (known findings C09-shared-declaration-block / C09-shared-property)
            src = r.choice(styled)
            if r.random() < 0.5:
                return ('dshare', path, src)
            ps = [x.value for x in st.at(src).style.seq if hasattr(x.value, 'literalname')]
            good = [i for i, q in enumerate(ps) if cname(q.name) != '-']
            if good:
                return ('dshareprop', path, src, r.choice(good))
        return ('ddel', path, r.choice(DNAMES))

    def next_op(self, st):
        """st: HistState (implementation side) — used to pick indexes, paths and declared URIs"""
        r = self.rng
        n = len(st.sheet.cssRules)
        # URIs a generated selector may use: those declared with a non-empty prefix (a bare type selector `e0` is how
        # the default namespace is used, but it also parses when nothing is declared — see boundary_histories)
        declared = sorted(set(u for p, u in st.sheet.namespaces.namespaces.items() if p))
        conts = st.containers()
        x = r.random()
        if x < 0.22:
            return ('ins', self.spec(self.kind(), declared), self.index(n), int(r.random() < 0.3))
        if x < 0.38:
            return ('add', self.spec(self.kind(), declared), int(r.random() < 0.3))
        if x < 0.395:
            return ('insord', self.spec(self.kind(), declared), r.randint(0, n), int(r.random() < 0.3))
        if x < 0.42:
            # a CSSRuleList: mostly rules that may follow each other at that index, sometimes anything
            ks = [self.kind() if r.random() < 0.5 else r.choice(['style', 'comment', 'media', 'page', 'fontface', 'unknown'])
                  for _ in range(r.randint(0, 4))]
            return ('insl', [self.spec(k, declared) for k in ks], self.index(n))
        if x < 0.50:
            return ('del', r.randint(-n - 1, n))
        if x < 0.55:
            return ('enc', r.choice(self.ENC))
        if x < 0.61:
            return ('text', self.text_specs(declared))
        if x < 0.68:
            return ('nsset', r.choice(self.PRE), r.choice(self.URI + ['']) if r.random() < 0.9 else 'u')
        if x < 0.73:
            return ('nsdel', r.choice(self.PRE))
        if x < 0.755:
            return ('mode', int(r.random() < 0.6))
        if x < 0.766 and n:
            # edits around the DOM methods (known finding C09-raw-list-edit)
            y = r.random()
            if y < 0.5:
                return ('rawdel', (), r.randint(-n, n - 1))
            if y < 0.7 and conts:
                cs = [(p, c) for p, c in conts if len(c.cssRules)]
                if cs:
                    p, c = r.choice(cs)
                    return ('rawdel', p, r.randint(-len(c.cssRules), len(c.cssRules) - 1))
            return ('rawins', self.spec(r.choice(['style', 'import', 'comment', 'variables', 'fontface', 'charset', 'unknown']),
                                        declared), r.randint(-n - 1, n + 1))
        if x < 0.83:
            styled = [p for p, rule, _ in st.walk() if rule.typeString in STYLED]
            if styled:
                return self.decl_op(st, styled)
        if not conts:
            return ('add', self.spec(r.choice(['media', 'page']), declared), 0)
        path, c = r.choice(conts)
        m = len(c.cssRules)
        is_media = c.type == c.MEDIA_RULE
        if x < 0.83 + 0.02:
            good = ['style', 'comment', 'unknown', 'page', 'media', 'style'] if is_media else ['margin']
            ks = [r.choice(good) if r.random() < 0.8 else r.choice(ALLKINDS) for _ in range(r.randint(0, 4))]
            return ('ninsl', path, [self.spec(k, declared, 1) for k in ks], self.index(m))
        if x < 0.90:
            if r.random() < 0.8:
                k = r.choice(['style', 'comment', 'unknown', 'page', 'media', 'style'] if is_media else ['margin'] * 5 + ['comment'])
            else:
                k = r.choice(ALLKINDS)
            s = self.spec(k, declared if r.random() < 0.9 else [], 1)
            via = int(r.random() < 0.3)
            return ('nins', path, s, self.index(m), via)
        if x < 0.945:
            return ('ndel', path, r.randint(-m - 1, m))
        if x < 0.965:
            good = ['style', 'comment', 'unknown', 'page', 'media'] if is_media else ['margin', 'comment']
            return ('nbroken', path, [self.spec(r.choice(good), [], 1, True) for _ in range(r.randint(0, 3))],
                    r.randrange(len(BROKEN_TAILS)))
        # (prefixes in the text of a container that is itself nested are resolved through parentStyleSheet, which is the
        # sheet at every depth since the fix of C09-parentstylesheet-depth2)
        nons = False
        if is_media:
            ks = [self.spec(r.choice(['style', 'comment', 'unknown', 'page', 'media', 'style', 'style'] if r.random() < 0.85
                                     else ALLKINDS), declared, 1, nons) for _ in range(r.randint(0, 4))]
        else:
            # (no @media/@page inside an @page text: the margin scan of __parseMarginAndStyle looks at all tokens)
            ks = [self.spec(r.choice(['margin', 'margin', 'comment', 'unknown'] if r.random() < 0.9 else
                                     [k for k in ALLKINDS if k not in ('media', 'page')]), declared, 1, nons)
                  for _ in range(r.randint(0, 4))]
        return ('ntext', path, ks)


# --------------------------------------------------------------------------------------------------
# implementation side

RANK = {'CHARSET_RULE': 0, 'IMPORT_RULE': 1, 'NAMESPACE_RULE': 2, 'VARIABLES_RULE': 3, 'STYLE_RULE': 4,
        'MEDIA_RULE': 4, 'PAGE_RULE': 4, 'FONT_FACE_RULE': 4}          # COMMENT, UNKNOWN_RULE, MARGIN_RULE: transparent
ALLOWED_IN = {'MEDIA_RULE': {'STYLE_RULE', 'PAGE_RULE', 'MEDIA_RULE', 'COMMENT', 'UNKNOWN_RULE'},
              'PAGE_RULE': {'MARGIN_RULE'}}


class HistState:
    """one sheet, the objects seen so far, taints of known findings"""

    def __init__(self, sheet):
        self.sheet = sheet
        self.tracked = {}
        self.decls = {}           # id -> (declaration block, type of the rule it was seen in)   (oracle's registry)
        self.props = {}           # id -> property object made by an operation of the history
        self.oprops = {}          # id -> (property, type of the rule) (oracle's registry)
        self.blocks = {}          # id -> every declaration block seen as the style of a rule (dump's registry)
        self.bprops = {}          # id -> every property seen in such a block
        self.raw_objs = set()         # ids of rule objects removed / inserted by a raw list edit
        self.reinserted = set()       # ids of rule objects handed to insertRule while contained
        self.shared_blocks = set()    # ids of block objects handed to a second rule (dshare)
        self.shared_props = set()     # ids of Property objects handed to a second block (dshareprop)
        self.taint_obj = {}       # id(obj) -> finding id (clause-specific: parent links / nested kind)
        self.taint_order = None   # finding id while the top-level order is broken by a known finding

    def is_container(self, r):
        return r.type in (r.MEDIA_RULE, r.PAGE_RULE)

    def walk(self, rules=None, path=(), container=None):
        """(path, rule, container) for every rule in the sheet's tree, preorder"""
        rules = self.sheet.cssRules if rules is None else rules
        for i, r in enumerate(rules):
            yield path + (i,), r, container
            if self.is_container(r):
                yield from self.walk(r.cssRules, path + (i,), r)

    def containers(self, maxdepth=3):
        return [(p, r) for p, r, _ in self.walk() if self.is_container(r) and len(p) <= maxdepth]

    def at(self, path):
        rules = self.sheet.cssRules
        r = None
        for i in path:
            r = rules[i]
            rules = r.cssRules if self.is_container(r) else []
        return r

    def prefix_of_sheet(self, uri):
        ps = [p for p, u in self.sheet.namespaces.namespaces.items() if u == uri]
        return max(ps, key=len) if ps else None

    # -- apply one op, return outcome string
    def apply(self, op):
        cssutils, css = cssmods()
        t = op[0]
        try:
            if t in ('ins', 'add', 'insord'):
                spec, via = op[1], op[-1]
                arg = spec.text(self.prefix_of_sheet) if via else spec.build(self.tracked)
                self.last_arg = arg
                r = (self.sheet.add(arg) if t == 'add' else self.sheet.insertRule(arg, op[2]) if t == 'ins'
                     else self.sheet.insertRule(arg, op[2], inOrder=True))
            elif t == 'del':
                r = self.sheet.deleteRule(op[1])
            elif t == 'enc':
                self.sheet.encoding = op[1]
                r = None
            elif t == 'text':
                run = {}

                def pf(uri):
                    ps = [p for p, u in run.items() if u == uri]
                    return max(ps, key=len) if ps else None
                parts = []
                for s in op[1]:
                    parts.append(s.text(pf))
                    if s.kind == 'namespace':
                        run[s.pre] = s.uri
                self.sheet.cssText = '\n'.join(parts)
                r = None
            elif t == 'nsset':
                self.sheet.namespaces[op[1]] = op[2]
                r = None
            elif t == 'nsdel':
                del self.sheet.namespaces[op[1]]
                r = None
            elif t == 'nins':
                c = self.at(op[1])
                spec, via = op[2], op[4]
                # a string is parsed in a temp sheet that is given the namespaces of the container's sheet (cfe1126)
                arg = spec.text(self.prefix_of_sheet) if via else spec.build(self.tracked)
                self.last_arg = arg
                r = c.insertRule(arg, op[3])
            elif t in ('insl', 'ninsl'):
                # a CSSRuleList of fresh rule objects (the class only lets the owner append, so use list.append)
                specs = op[1] if t == 'insl' else op[2]
                rl = css.CSSRuleList()
                for sp in specs:
                    list.append(rl, sp.build(self.tracked))
                self.last_arg = rl
                if t == 'insl':
                    r = self.sheet.insertRule(rl, op[2])
                else:
                    r = self.at(op[1]).insertRule(rl, op[3])
            elif t == 'ndel':
                r = self.at(op[1]).deleteRule(op[2])
            elif t == 'ntext':
                c = self.at(op[1])
                inner = ' '.join(s.text(self.prefix_of_sheet) for s in op[2])
                c.cssText = ('@media tv{%s}' if c.type == c.MEDIA_RULE else '@page :first{margin:0;%s}') % inner
                r = None
            elif t == 'nbroken':
                c = self.at(op[1])
                is_media = c.type == c.MEDIA_RULE
                kids = op[2]
                if BROKEN_TAILS[op[3] % len(BROKEN_TAILS)] == 'UNCLOSED' and kids and kids[-1].kind in ('style', 'media', 'page', 'margin', 'fontface', 'variables'):
                    kids = kids + [Spec('comment')]     # the last child must not be a block (its brace would close the rule)
                inner = ' '.join(s.text(self.prefix_of_sheet) for s in kids)
                c.cssText = broken_text(is_media, inner, op[3])
                r = None
            elif t == 'mode':
                cssutils.log.raiseExceptions = bool(op[1])
                r = None
            elif t == 'rawdel':
                rules = self.sheet.cssRules if not op[1] else self.at(op[1]).cssRules
                o = rules[op[2]]
                self.raw_objs.add(id(o))                  # region of C09-raw-list-edit
                del rules[op[2]]
                r = None
            elif t == 'rawins':
                o = op[1].build(self.tracked)
                self.raw_objs.add(id(o))
                self.sheet.cssRules.insert(op[2], o)
                r = None
            elif t == 'reins':
                o = self.at(op[1])
                self.last_arg = o
                self.reinserted.add(id(o))                # region of C09-rule-reinserted
                r = self.sheet.insertRule(o, op[2])
            elif t in DOPS:
                rule = self.at(op[1])
                if rule.typeString not in STYLED:
                    return 'ERR NoSuchPath'
                if t == 'dnew':
                    text, form = items_text(op[2]), op[3]
                    if form == 0:
                        rule.style = css.CSSStyleDeclaration(cssText=text)
                    elif form == 1:
                        rule.style = text
                    elif rule.type == rule.STYLE_RULE:
                        rule.cssText = '.a{%s}' % text
                    elif rule.type == rule.FONT_FACE_RULE:
                        rule.cssText = '@font-face{%s}' % text
                    elif rule.type == rule.MARGIN_RULE:
                        rule.cssText = '%s{%s}' % (rule.margin, text)
                    else:
                        raise ValueError(op)
                elif t == 'dshare':
                    other = self.at(op[2])
                    if other.typeString not in STYLED:
                        return 'ERR NoSuchPath'
                    if other.style is not rule.style:
                        self.shared_blocks.add(id(other.style))      # region of C09-shared-declaration-block
                    rule.style = other.style
                elif t == 'dshareprop':
                    other = self.at(op[2])
                    if other.typeString not in STYLED:
                        return 'ERR NoSuchPath'
                    ps = [x.value for x in other.style.seq if isinstance(x.value, css.Property)]
                    if op[3] >= len(ps) or cname(ps[op[3]].name) == '-':
                        return 'ERR NoSuchPath'
                    p = ps[op[3]]
                    if other.style is not rule.style:
                        self.shared_props.add(id(p))                 # region of C09-shared-property
                    self.props[id(p)] = p
                    rule.style.setProperty(p)
                elif t == 'dtext':
                    rule.style.cssText = items_text(op[2])
                elif t == 'dset':
                    name, wf, empty, replace = op[2:6]
                    value = '' if empty else '1px' if wf else '}'
                    if replace and not empty and wf and len(name) % 2:
                        rule.style[name] = value                      # item assignment = setProperty(name, value, None)
                    else:
                        rule.style.setProperty(name, value, replace=bool(replace))
                elif t == 'dsetobj':
                    p = css.Property(op[2], '2px')
                    self.props[id(p)] = p
                    rule.style.setProperty(p)
                elif t == 'ddel':
                    if len(op[2]) % 2:
                        del rule.style[op[2]]
                    else:
                        rule.style.removeProperty(op[2])
                r = None
            elif t == 'decl':
                # edits of the declaration block of the rule at `path` (implementation only: the structure of the
                # sheet does not change, the model is not told; the oracle checks style.parentRule / property.parent)
                rule = self.at(op[1])
                v = op[2]
                if v == 0:
                    rule.style = css.CSSStyleDeclaration(cssText='top: 0; left: 1')
                elif v == 1:
                    rule.style.cssText = 'top: 1; color: red'
                elif v == 2:
                    rule.style.setProperty('color', 'green', 'important')
                elif v == 3:
                    rule.style['margin-top'] = '2px'
                elif v == 4:
                    rule.style.removeProperty('top')
                elif v == 5:
                    rule.style = 'bottom: 3px'
                elif v == 6:
                    rule.style.setProperty(css.Property('right', '4px'))
                elif v == 8:
                    # the text of the whole rule: a new declaration block replaces the old one
                    if rule.type == rule.STYLE_RULE and not rule.selectorList._getUsedUris():
                        # (same selector as every generated rule without namespaces: the model's view is unchanged)
                        rule.cssText = '.a{top: 8px; color: blue}'
                    elif rule.type == rule.FONT_FACE_RULE:
                        rule.cssText = '@font-face{font-family: y}'
                    elif rule.type == rule.MARGIN_RULE:
                        rule.cssText = '%s{top: 8px}' % rule.margin
                    else:
                        rule.style = css.CSSStyleDeclaration(cssText='margin: 8px')
                elif v == 9:
                    del rule.style['color']
                else:
                    rule.style.cssText = 'top: ; x'      # refused (or partly ignored)
                r = None
            else:
                raise ValueError(op)
        except xml.dom.DOMException as e:
            return 'ERR ' + type(e).__name__
        except AttributeError as e:
            return 'ERR AttributeError'
        except IndexError:
            if t in ('nins', 'ninsl', 'ndel', 'ntext', 'decl', 'rawdel', 'reins') + DOPS:
                return 'ERR NoSuchPath'     # the history addresses a nested list that is not there (any more)
            raise
        if r is None:
            return 'NONE'
        if isinstance(r, int) and not isinstance(r, bool):
            return 'OK %d' % r
        return 'RET %r' % (r,)

    # -- canonical dump (same format as Drv/C09.lean)
    def dump(self):
        from cssutils.css import Property
        sheet = self.sheet
        live = set()
        for _, r, _ in self.walk():
            live.add(id(r))
            self.tracked[id(r)] = r

        def props_of(d):
            return [x.value for x in d.seq if isinstance(x.value, Property)]

        def block(d, r):
            pr = d._parentRule
            link = '-' if pr is None else 'R' if pr is r else 'X'
            ps = []
            for p in props_of(d):
                self.bprops[id(p)] = p
                ps.append(cname(p.name) + ('-' if p._parent is None else 'P' if p._parent is d else 'X'))
            return '{' + link + '+'.join(collapse(ps)) + '}'
        held = set()

        def show(r, container):
            pss = 'S' if r._parentStyleSheet is sheet else '-' if r._parentStyleSheet is None else 'T'
            pr = r._parentRule
            if pr is None:
                link = '-'
            elif container is not None:
                link = 'C' if pr is container else 'X'
            else:
                link = 'L' if id(pr) in live else 'G'
            extra = ''
            if r.type == r.NAMESPACE_RULE:
                extra = '~%s~%s' % (enc(r.prefix), enc(r.namespaceURI or ''))
            elif r.type == r.CHARSET_RULE:
                extra = '~' + enc(r.encoding or '')
            elif r.type == r.MARGIN_RULE:
                extra = '~' + enc(r.margin or '')
            s = '%d%s%s%s' % (r.type, pss, link, extra)
            if r.typeString in STYLED:
                d = r._style
                self.blocks[id(d)] = d
                held.add(id(d))
                s += block(d, r)
            if self.is_container(r):
                s += '(' + ','.join(show(k, r) for k in r.cssRules) + ')'
            return s

        rules = [show(r, None) for r in sheet.cssRules]
        nonlive = [o for i, o in self.tracked.items() if i not in live]
        contained = set()
        for o in nonlive:
            if self.is_container(o):
                for k in o.cssRules:
                    contained.add(id(k))
        self.gone_roots = [o for o in nonlive if id(o) not in contained]
        gone = sorted(show(o, None) for o in self.gone_roots)
        ns = sorted('%s=%s' % (enc(p), enc(u)) for p, u in sheet.namespaces.namespaces.items())
        # replaced blocks: every block seen as a rule's style that no rule object holds any more; loose properties:
        # every property seen in a block or made by an operation that no block seen holds
        gb = sorted(block(d, None) for i, d in self.blocks.items() if i not in held)
        inblock = set()
        for d in self.blocks.values():
            for p in props_of(d):
                inblock.add(id(p))
        loose = [p for i, p in list(self.bprops.items()) + list(self.props.items()) if i not in inblock]
        loose = {id(p): p for p in loose}.values()
        gp = collapse(sorted(cname(p.name) + ('-' if p._parent is None else 'X') for p in loose))
        return 'enc=%s ns=%s rules=%s gone=%s gb=%s gp=%s' % (
            enc(sheet.encoding), ','.join(ns) or '-', ','.join(rules) or '-', ';'.join(gone) or '-',
            ';'.join(gb) or '-', ','.join(gp) or '-')

    def kinds_tree(self, sheet=None):
        sheet = sheet or self.sheet

        def show(r):
            s = '%d' % r.type
            if self.is_container(r):
                s += '(' + ','.join(show(k) for k in r.cssRules) + ')'
            return s
        return ','.join(show(r) for r in sheet.cssRules) or '-'


class Env:
    """runs histories on the implementation, batches the model lines, compares at flush()"""

    def __init__(self, ctx, quiet=False):
        self.ctx = ctx
        cssutils, css = cssmods()
        self.cssutils = cssutils
        self.saved_raise = cssutils.log.raiseExceptions
        self.saved_level = cssutils.log.getEffectiveLevel()
        cssutils.log.setLevel(logging.FATAL)
        self.pending = []          # (history json, raising, [lines], [expected replies])
        self.nlines = 0
        self.quiet = quiet
        from harness import c09_oracle
        self.oracle = c09_oracle.Oracle(ctx)
        # which of the listed known findings reproduce on the tree under test (their regions are attributed only then)
        from lib.framework import load_known
        import subprocess
        try:
            subjects = set(subprocess.run(['git', '-C', ctx.repo, 'log', '--format=%s', '-400'], capture_output=True,
                                          text=True, timeout=30).stdout.split('\n'))
        except Exception:
            subjects = set()
        for f in load_known('C09'):
            # a finding whose fix commit is in the history of the tree under test is fixed there: nothing is
            # attributed to it, so a regression is reported as a violation
            if f.get('status') == 'known' and f.get('commit_subject') not in subjects:
                try:
                    if c09_oracle.replay_known(self, f):
                        self.oracle.active_known.add(f['id'])
                except Exception:
                    pass
        if not quiet:
            ctx.notes['known_findings_active'] = sorted(self.oracle.active_known)

    def restore(self):
        self.cssutils.log.raiseExceptions = self.saved_raise
        self.cssutils.log.setLevel(self.saved_level)
        self.cssutils.ser.prefs.useDefaults()

    def new_state(self, raising):
        _, css = cssmods()
        self.cssutils.log.raiseExceptions = raising
        sheet = css.CSSStyleSheet()
        sheet._setFetcher(lambda url: None)
        return HistState(sheet)

    def history(self, ops, raising=True, kind='history', fresh_ns=False, reparse=True):
        """run on the implementation; queue the model lines; returns the final length of the sheet's list"""
        if fresh_ns:
            ops = [self.freshen(op, i) for i, op in enumerate(ops)]
        with time_limit(60):
            st = self.new_state(raising)
            lines = ['reset %d' % raising]
            expect = ['NONE | ' + st.dump()]
            mode = raising
            for i, op in enumerate(ops):
                pre = self.oracle.before(st, op, mode)
                out = st.apply(op)
                if op[0] == 'mode':
                    mode = bool(op[1])
                d = st.dump()
                if op_line(op) is not None:
                    lines.append(op_line(op))
                    expect.append(out + ' | ' + d)
                self.oracle.after(st, op, out, pre, ops[:i + 1], raising)
            b = self.oracle.end(st, ops, raising) if reparse else None
            lines.append('reparse')
            expect.append(None if b is None else 'R ' + b)
        self.cssutils.log.raiseExceptions = self.saved_raise
        self.ctx.case(key=(raising, tuple(op_key(o) for o in ops)), nontrivial=len(ops) > 1 or len(st.sheet.cssRules) > 1,
                      kind=kind, sample={'ops': [op_line(o) or 'decl' for o in ops], 'raising': raising, 'final': expect[-2]})
        for op in ops:
            self.ctx.count('op:' + op[0])
        self.pending.append(([op_to_json(o) for o in ops], raising, lines, expect))
        self.nlines += len(lines)
        if self.nlines > 200000:
            self.flush()
        return len(st.sheet.cssRules)

    def freshen(self, op, i):
        if op[0] in ('ins', 'add', 'insord') and op[1].kind == 'namespace':
            s = op[1]
            return (op[0], Spec('namespace', pre='n%d' % i, uri='u%d' % i)) + tuple(op[2:])
        return op

    def walk(self, rng, length):
        """a random walk: the generator looks at the implementation state, so it is produced while running"""
        raising = rng.random() < 0.75
        w = Walker(rng)
        ops = []
        with time_limit(120):
            st = self.new_state(raising)
            lines = ['reset %d' % raising]
            expect = ['NONE | ' + st.dump()]
            mode = raising
            for i in range(length):
                op = w.next_op(st)
                ops.append(op)
                pre = self.oracle.before(st, op, mode)
                out = st.apply(op)
                if op[0] == 'mode':
                    mode = bool(op[1])
                d = st.dump()
                if op_line(op) is not None:
                    lines.append(op_line(op))
                    expect.append(out + ' | ' + d)
                self.oracle.after(st, op, out, pre, ops, raising)
                if op[0] in ('rawins', 'reins'):
                    # the model follows the code from here on only while the rules of the sheet's list name the sheet
                    # (the two put-back paths of insertRule adopt every rule of the old list): the walk ends
                    break
                if i % 10 == 9:
                    self.oracle.end(st, ops, raising)
            b = self.oracle.end(st, ops, raising)
            lines.append('reparse')
            expect.append(None if b is None else 'R ' + b)
        self.cssutils.log.raiseExceptions = self.saved_raise
        for i, op in enumerate(ops):
            self.ctx.case(key=('walk', raising, tuple(op_key(o) for o in ops[:i + 1])) if i % 7 == 0 else None,
                          nontrivial=True, kind='walk-op')
            self.ctx.count('op:' + op[0])
        self.ctx.count('walk')
        self.pending.append(([op_to_json(o) for o in ops], raising, lines, expect))
        self.nlines += len(lines)
        if self.nlines > 200000:
            self.flush()

    def flush(self):
        if not self.pending:
            return
        ctx = self.ctx
        if ctx.model_ok:
            all_lines = [l for _, _, lines, _ in self.pending for l in lines]
            out = ctx.driver(all_lines)
            pos = 0
            for hist, raising, lines, expect in self.pending:
                for j, (l, e) in enumerate(zip(lines, expect)):
                    m = out[pos + j]
                    if e is None:
                        continue
                    if m != e:
                        ctx.disagree('edit-machine', {'ops': hist[:j], 'raising': raising, 'line': l}, e, m)
                        break
                pos += len(lines)
        self.pending = []
        self.nlines = 0

    def replay_known(self, finding):
        from harness import c09_oracle
        return c09_oracle.replay_known(self, finding)
