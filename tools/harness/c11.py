"""C11 — a rejected DOM mutation changes nothing.

model      lean/CssVerif/Model/Mutators.lean (effect scripts, interpreter, static discipline)
scripts    lean/CssVerif/Gen/C11Scripts.lean — EXTRACTED from the Python AST of every public mutator on every run
           (tools/gen/c11_scripts.py); `all_disciplined_partial` is re-decided against them
theorems   lean/CssVerif/Props/C11.lean
tie        for every generated call (prior state x mutator x input): the implementation runs in raising mode under a
           line tracer; the Lean driver `run`s the extracted script with the decision sequence that reproduces the
           observed statement trace; compared: does the script admit the trace at all, the way of ending, and
           that every script field whose content changed is a field the model run changed (which observable changed
           vs the script's prediction)
oracle     implementation only: a call that raised xml.dom.DOMException must leave the snapshot of the target, its
           owner rule, its sheet and the argument objects unchanged; objects created read-only must reject every
           mutator with NoModificationAllowedErr and stay unchanged
"""
import json
import os
import xml.dom

from gen import c11_scripts as gen
from harness import c11_dom as dom
from harness import c11_gen as cg
from harness import c11_run as cr
from harness import c11_script as cs
from lib.framework import Check, time_limit

# mutators of objects for which "created read-only" is meaningful are found by the constructor signature
# region of known finding C11-readonly-unguarded-2: public mutators without the read-only guard
RO_UNGUARDED_2 = {'SelectorList.__delitem__', 'CSSStyleSheet.cssRules', 'CSSMediaRule.cssRules', 'CSSPageRule.cssRules',
                  'CSSRule.atkeyword'}
NO_READONLY_CLASSES = {'Property', '_Namespaces'}


class C11(Check):
    id = 'C11'
    props_module = 'CssVerif.Props.C11'
    driver_exe = 'drv_c11'
    sources = tuple(gen.FILES)
    trusted_base = (
        'translator tools/gen/c11_scripts.py: which Python statements count as which effect primitive (assignment to '
        'self.f, in-place mutators, _checkReadonly, log calls that raise, try/except/finally, inlining of calls on '
        'self); its output is tied to the running code by the statement-trace correspondence of this run',
        'the per-site no-raise assumptions listed in gen.ASSUME_NORAISE (each is contradicted by the trace '
        'correspondence if the site ever raises)',
        'call sites are resolved to child mutators by member name (the tree theorems T11.4 quantify over every '
        'mutator of the child; the ownership correspondence confirms the function entered on each run); the one '
        'child-helper site that keeps the assumed contract is justified in gen.ASSUMED_HELPERS',
    )
    assumptions = (
        'cssutils.log.raiseExceptions is True during DOM edits (the library default outside parse*())',
        'objects handed out by the public API are not media-query Property objects (Property(_mediaQuery=True) is '
        'built only inside MediaQuery parsing)',
        'two different fields of one object do not alias the same mutable object',
    )
    rule = ('prior states: generated sheets with every rule kind (+ standalone objects of every DOM class); targets: '
            'every object reachable in the state that has public mutators; per target every mutator x inputs from the '
            'repository vocabularies: accepted ones and ones rejected at stage k (k accepted parts, then a bad part, '
            'then possibly more good parts; in nested objects; wrong kind; wrong position; undeclared namespace; '
            'read-only). non-trivial = a call that raised a DOM exception after at least one statement of the '
            'mutator ran (trace length > 1), or an accepted call that changed the target')

    def __init__(self):
        self._gen = None
        from lib.framework import load_known
        self.finding_status = {f['id']: f.get('status') for f in load_known('C11')}

    # -- translator --------------------------------------------------------------------------------
    def scripts(self, repo):
        if self._gen is None or self._gen[0] != repo:
            txt, recs, failed = gen.generate(repo)
            self._gen = (repo, txt, recs, failed)
        return self._gen[1:]

    def translate(self, ctx):
        txt, recs, failed = self.scripts(ctx.repo)
        return {'CssVerif/Gen/C11Scripts.lean': txt}

    # -- one case ----------------------------------------------------------------------------------
    def files_index(self, ctx):
        return {os.path.join(ctx.repo, rel): i for i, rel in enumerate(gen.FILES)}

    def entries(self, recs_by_name):
        """(file index, function name, line of the def) of every extracted mutator -> its member name"""
        key = id(recs_by_name)
        if getattr(self, '_entries_key', None) != key:
            fidx = {rel: i for i, rel in enumerate(gen.FILES)}
            self._entries = {(fidx[r['where'][0]], r['where'][1], r['where'][2]): r['member']
                             for r in recs_by_name.values()}
            self._entries_key = key
        return self._entries

    def script_for(self, recs_by_name, obj, member):
        for k in type(obj).__mro__:
            n = '%s.%s' % (k.__name__, member)
            if n in recs_by_name:
                return recs_by_name[n]
        return None

    def run_case(self, ctx, case, recs_by_name, trace=True):
        """-> dict of observations (None if the case cannot be built)"""
        cu = dom.cssutils_mod()
        with time_limit(20):
            root, sheet, fetch = cr.build_state(case['state'])
            try:
                target = cr.locate(root, case['path'])
            except (IndexError, AttributeError, TypeError):
                return None
            member = case['mutator'].split('.')[1]
            rec = self.script_for(recs_by_name, target, member)
            args = [cr.make_obj(a, target, fetch) for a in case['args']]
            if args and len(args) > 1 and args[1] == 'len':
                args[1] = len(getattr(target, 'cssRules', []))
            argobjs = [a for a in args if not isinstance(a, (str, int, float, bool, type(None), tuple))]
            argnames = {}
            if rec is not None:
                lk = getattr(type(target), member, None)
                fn = lk.fset if isinstance(lk, property) else lk
                try:
                    names = list(fn.__code__.co_varnames[1:fn.__code__.co_argcount])
                except AttributeError:
                    names = []
                argnames = dict(zip(names, args))
            roots = [root] + ([target] if sheet is None and target is not root else []) + argobjs
            owner_sheet = sheet
            fetch.served.clear()
            before = dom.snapshot(roots)
            fields = sorted(rec['fields']) if rec else []
            ids = dom.Ids()
            fp_before = {f: dom.field_fp(target, f, argnames, ids) for f in fields}
            tracer = None
            if trace and rec is not None:
                selves = [target]
                if type(target).__name__ == 'Property':
                    selves.append(target.seqs[1])
                tracer = cr.Tracer(selves, self.files_index(ctx), rec['marks'], rec['extents'],
                                   callmarks=rec.get('callmarks', ()), entries=self.entries(recs_by_name),
                                   child_rec=lambda o, mem: self.script_for(recs_by_name, o, mem))
            outcome, exc = cr.call_mutator(target, member, args, tracer)
            after = dom.snapshot(roots)
            fp_after = {f: dom.field_fp(target, f, argnames, ids) for f in fields}
            del cu, owner_sheet
            return {
                'outcome': outcome, 'exc': exc, 'changed': before != after,
                'diff': dom.diff(before, after) if before != after else [],
                'trace': tracer.trace if tracer else None, 'rec': rec,
                'children': tracer.children if tracer else [],
                'fields_changed': sorted(f for f in fields if fp_before[f] != fp_after[f]),
                'served': list(fetch.served), 'target_cls': type(target).__name__, 'args': args,
                'readonly': bool(getattr(target, '_readonly', False)), 'target': target,
            }

    # -- known findings: region predicates ------------------------------------------------------------
    def region(self, case, obs):
        """id of the listed known finding (status "known") whose region contains this failing case, else None"""
        m = case['mutator']
        exc = obs['exc']
        if self.finding_status.get('C11-nsinsert-partial-clean') == 'known' and \
                m in ('CSSStyleSheet.insertRule', 'CSSStyleSheet.add', '_Namespaces.__setitem__') and \
                isinstance(exc, xml.dom.NoModificationAllowedErr) and \
                'NamespaceURI defined in this rule is used' in str(exc):
            return 'C11-nsinsert-partial-clean'
        if m == 'CSSStyleSheet._setCssTextWithEncodingOverride' and \
                self.finding_status.get('C11-encoding-override-internal') == 'known':
            return 'C11-encoding-override-internal'
        return None

    RO_MISSING = set()

    # -- the run ---------------------------------------------------------------------------------------
    def run(self, ctx):
        txt, recs, failed = self.scripts(ctx.repo)
        for r in recs:
            r['marks'] = set(marks_of(r['body']))
        by_name = {r['name']: r for r in recs}
        index = {r['name']: i for i, r in enumerate(recs)}
        ctx.notes['scripts_extracted'] = len(recs)
        ctx.notes['not_extracted'] = ['%s.%s: %s' % f for f in failed]
        ctx.notes['script_nodes_total'] = sum(r['size'] for r in recs)
        ctx.notes['assumed_no_raise_sites'] = sorted({a for r in recs for a in r['assumed']})
        if failed:
            ctx.disagree('translator', {'not extracted': ['%s.%s' % f[:2] for f in failed]}, [f[2] for f in failed],
                         'every listed mutator has a script')
        infos = {}
        if ctx.model_ok:
            out = ctx.driver(['count'] + ['info %d' % i for i in range(len(recs))])
            if out[0] != str(len(recs)):
                ctx.disagree('driver/script table', {}, len(recs), out[0])
            for r, line in zip(recs, out[1:]):
                parts = dict(p.split('=') for p in line.split()[1:])
                infos[r['name']] = parts
            ctx.notes['undisciplined_scripts'] = sorted(n for n, p in infos.items() if p['disc'] == '0')
            ctx.notes['not_guard_first'] = sorted(n for n, p in infos.items() if p['guarded'] == '0')
        cases = self.corpus_cases(ctx) + self.gen_cases(ctx, by_name)
        pending = []
        self.all_cases(ctx, cases, by_name, index, pending)
        self.flush(ctx, pending, index)
        # statement coverage of the scripts by the observed (and model-reproduced) traces
        allm = {m for r in recs for m in r['marks']}
        hit = {m for _c, o, _r, _b, _e, _d, _deep in pending for m in o['trace']}
        ctx.notes['script_statements'] = len(allm)
        ctx.notes['script_statements_reached_by_a_trace'] = len(allm & hit)
        ctx.notes['script_statements_never_reached'] = ['%s:%d' % (gen.FILES[m // 100000], m % 100000)
                                                        for m in sorted(allm - hit)][:400]
        self.readonly_oracle(ctx, by_name)

    def all_cases(self, ctx, cases, by_name, index, pending):
        """the implementation stream (build the state, call the mutator under the tracer, snapshots, decision search)
        runs in forked workers; what a worker would have reported is replayed here in case order, so counts, evidence
        and verdicts are those of the sequential loop. A case whose worker hung or died is redone in this process."""
        nproc = int(os.environ.get('VERIF_C11_PROCS', '6'))
        if nproc <= 1 or len(cases) < 50:
            for case in cases:
                self.one(ctx, case, by_name, index, pending)
            return
        from lib import pool

        def work(case):
            rc = _RecCtx(ctx)
            pend = []
            self.one(rc, case, by_name, index, pend)
            slim = [(c, {k: o[k] for k in ('readonly', 'outcome', 'trace', 'fields_changed')}, r['name'], bits, ex, dirty,
                     deep) for c, o, r, bits, ex, dirty, deep in pend]
            return json.loads(json.dumps([rc.log, slim], default=str))
        for case, res in pool.run_cases(work, cases, nproc=nproc, timeout=60.0):
            if res is None or res[0] != 'ok':
                ctx.count('pool:redone-in-process')
                self.one(ctx, case, by_name, index, pending)
                continue
            log, slim = res[1]
            for name, a, kw in log:
                if name == 'case':
                    kw['key'] = _tup(kw['key'])
                getattr(ctx, name)(*a, **kw)
            for c, o, rname, bits, ex, dirty, deep in slim:
                pending.append((c, o, by_name[rname], bits, ex, dirty, deep))

    def corpus_cases(self, ctx):
        import json
        d = os.path.join(ctx.verif, 'tools', 'corpus', 'C11')
        out = []
        if os.path.isdir(d):
            for fn in sorted(os.listdir(d)):
                if fn.endswith('.json'):
                    for c in json.load(open(os.path.join(d, fn))):
                        c = dict(c)
                        c['kind'] = 'corpus:' + c.get('kind', '')
                        out.append(c)
        return out

    def gen_cases(self, ctx, by_name):
        rng = ctx.sub_rng('cases')
        cases = []
        n_sheets = ctx.n(11, 120)
        per_mut = ctx.n(3, 4)
        states = [{'sheet': cg.sheet_text(rng)} for _ in range(n_sheets)]
        # a dense fixed state that contains every rule kind
        states.insert(0, {'sheet': '\n'.join([
            '@charset "utf-8";', '/* top */', '@import "i1.css";', '@import url(i2.css) print, tv "nm";',
            '@namespace p "http://p";', '@namespace "http://d";', '@variables { c: red; w: 1px }',
            '@font-face { font-family: x; src: url(a.ttf) }',
            '@media print, tv { a { top: 0 } /*c*/ p|b, c { left: 1px !important; color: red } @page { margin: 0 } }',
            '@page :first { margin: 1cm; @top-left { content: "x" } @bottom-center { color: red } }',
            'a, b > c { color: red; top: 0 !important; color: rgb(1, 2, 3); background: url(x.png) no-repeat }',
            'p|x { left: 0 }', '@foo bar { x: y }', '.k { width: calc(1px + 2px); font: 12px/1.5 "A", serif }',
            # literal spelling differs from the normalised names (simple escape, hex escape, upper case)
            'D\\iv > sp\\61 n, \\61 b { c\\olor: red; T\\op: 1px; \\6c eft: 2px !IMPORTANT; COLOR: blue }',
            '@media PR\\int, T\\56 { \\61 { t\\op: 0 } }'])})
        for st in states + cr.STANDALONE:
            try:
                root, sheet, fetch = cr.build_state(st)
            except Exception:      # noqa: BLE001
                continue
            tg = cr.targets(root)
            # every class at least once per state, at most a few objects per class
            seen = {}
            rng.shuffle(tg)
            for path, obj in tg:
                cname = type(obj).__name__
                cap = 2 if 'sheet' in st else 4
                if seen.get(cname, 0) >= cap:
                    continue
                seen[cname] = seen.get(cname, 0) + 1
                members = sorted({n.split('.')[1] for n in by_name
                                  if n.split('.')[0] in [k.__name__ for k in type(obj).__mro__]})
                for mem in members:
                    rec = self.script_for(by_name, obj, mem)
                    if rec is None:
                        continue
                    for args, tag in cg.inputs(rec['name'], rng, per_mut):
                        cases.append({'state': st, 'path': path, 'mutator': rec['name'], 'args': args,
                                      'kind': tag, 'cls': cname})
        return cases

    def one(self, ctx, case, by_name, index, pending):
        try:
            obs = self.run_case(ctx, case, by_name)
        except RecursionError:
            return
        if obs is None:
            return
        m = case['mutator']
        rec = obs['rec']
        outcome = obs['outcome']
        tlen = len(obs['trace'] or [])
        nontrivial = (outcome == 'dom' and tlen > 1) or (outcome == 'ok' and obs['changed'])
        ctx.case(key=(case['state'].get('sheet', case['state'].get('new')), tuple(case['path']), m,
                      repr(case['args'])), nontrivial=nontrivial,
                 sample={'mutator': m, 'args': case['args'], 'outcome': outcome if outcome != 'dom'
                         else type(obs['exc']).__name__, 'trace_len': tlen, 'changed': obs['changed']},
                 kind='%s:%s' % (m.split('.')[0], outcome))
        ctx.count('input:' + case.get('kind', '?').split('@')[0].split(':')[0])
        if outcome == 'dom':
            ctx.count('exc:' + type(obs['exc']).__name__)
            ctx.count('rejected-at-trace-len:%d' % min(tlen, 20))
        wit = {'state': case['state'], 'path': case['path'], 'mutator': m, 'args': case['args']}
        # ---- oracle (implementation only)
        if outcome == 'dom' and obs['changed']:
            ctx.violate('an operation rejected with a DOM exception leaves the target, its owner rule, its sheet and '
                        'the argument objects observably unchanged', wit,
                        {'exception': type(obs['exc']).__name__, 'message': str(obs['exc'])[:200],
                         'first_differences': [(p, repr(a)[:160], repr(b)[:160]) for p, a, b in obs['diff'][:4]]},
                        known=self.region(case, obs))
        # ---- correspondence (model vs implementation)
        if outcome == 'dom' and obs['changed'] and self.region(case, obs):
            return      # inside the region of a listed finding the child call is known not to be atomic
        if rec is None or outcome == 'other' or not ctx.model_ok or obs['trace'] is None:
            if outcome == 'other':
                ctx.count('non-dom-exception:' + type(obs['exc']).__name__)
            return
        want = 'ok' if outcome == 'ok' else ('roexc' if obs['readonly'] and
                                             isinstance(obs['exc'], xml.dom.NoModificationAllowedErr) else 'exc')
        # at the `call f` sites the decisions are fixed by what the child calls really did
        calls = None
        if rec.get('callmarks') and all(k['raised'] is not None or k['rec'] is None for k in obs['children']):
            calls = [bool(k['raised']) for k in obs['children']]
        found = cs.find_bits(rec['body'], obs['trace'], want, ro=obs['readonly'], calls=calls)
        if found is None and want == 'roexc':
            found = cs.find_bits(rec['body'], obs['trace'], 'exc', ro=obs['readonly'], calls=calls)
        if found is None and calls is not None:
            found = cs.find_bits(rec['body'], obs['trace'], want, ro=obs['readonly'])
            if found is None and want == 'roexc':
                found = cs.find_bits(rec['body'], obs['trace'], 'exc', ro=obs['readonly'])
        if found is None:
            if outcome == 'dom' and self.region(case, obs) == 'C11-import-fetch' and False:
                return
            ctx.disagree('script does not admit the observed statement trace', wit,
                         {'exit': want, 'trace': ['%d:%d' % divmod(t, 100000) for t in obs['trace']]},
                         'no decision sequence of script %s produces this trace' % rec['name'])
            return
        bits, ex, st = found
        inv = {v: k for k, v in rec['fields'].items()}
        deep = self.deep_bits(ctx, wit, obs, rec, bits, index) if rec.get('callmarks') and calls is not None else None
        pending.append((case, obs, rec, bits, ex, [inv[f] for f in st.dirty()], deep))

    def deep_bits(self, ctx, wit, obs, rec, bits, index):
        """ownership correspondence, two levels: every decision of the target's script taken at a `call f` site is
        replaced by the number of the child mutator that was really entered there + the decision sequence under
        which the CHILD's script reproduces the child's own statement trace and way of ending. -> (deep bits,
        [(script index of the child, its bits, its observed trace, raised)]) or None"""
        pos = cs.call_positions(rec['body'], bits, ro=obs['readonly'])
        kids = obs['children']
        if len(pos) != len(kids):
            ctx.disagree('child calls observed at the call sites vs `call` statements executed by the script run', wit,
                         [(k['cls'], k['fn'], '%d:%d' % divmod(k['mark'], 100000)) for k in kids],
                         '%d call statements on the path of script %s' % (len(pos), rec['name']))
            return None
        out, parts, last = [], [], 0
        for p, k in zip(pos, kids):
            if k['rec'] is None:
                ctx.disagree('a call site enters a function of the child that is not an extracted mutator', wit,
                             {'child': k['cls'], 'function': k['fn'], 'site': '%d:%d' % divmod(k['mark'], 100000)},
                             'every `call f` runs a script of the table (T11.4)')
                return None
            if bool(bits[p]) != bool(k['raised']):
                ctx.disagree('child raised vs the decision of the parent script at the call site', wit,
                             {'child': k['rec']['name'], 'raised': k['raised']}, {'decision': bits[p]})
                return None
            if k['readonly']:
                ctx.count('deep:skipped-readonly-child')
                return None
            cb = cs.find_bits(k['rec']['body'], k['trace'], 'exc' if k['raised'] else 'ok')
            if cb is None:
                ctx.disagree('child script does not admit the statement trace of the child call', wit,
                             {'child': k['rec']['name'], 'raised': k['raised'],
                              'trace': ['%d:%d' % divmod(t, 100000) for t in k['trace']]},
                             'no decision sequence of script %s produces this trace' % k['rec']['name'])
                return None
            ci = index[k['rec']['name']]
            out += list(bits[last:p]) + [True] * ci + [False] + list(cb[0])
            parts.append((ci, cb[0], k['trace'], k['raised'], k['rec']['name']))
            last = p + 1
        out += list(bits[last:])
        return out, parts

    def flush(self, ctx, pending, index):
        if not pending or not ctx.model_ok:
            return
        lines = []

        def enc(bits):
            return ''.join('1' if b else '0' for b in bits) or '-'
        for case, obs, rec, bits, ex, dirty, deep in pending:
            lines.append('run %d %d %d %s' % (index[rec['name']], 1 if obs['readonly'] else 0, 100000, enc(bits)))
        dl = []
        for case, obs, rec, bits, ex, dirty, deep in pending:
            if deep and deep[1]:
                dl.append('deep %d %d %d %s' % (index[rec['name']], 1 if obs['readonly'] else 0, 100000, enc(deep[0])))
                for ci, cb, ctrace, raised, cname in deep[1]:
                    dl.append('run %d 0 %d %s' % (ci, 100000, enc(cb)))
        out = ctx.driver(lines + dl)
        dout = out[len(lines):]
        out = out[:len(lines)]
        di = 0
        for (case, obs, rec, bits, ex, dirty, deep), line in zip(pending, out):
            if not (deep and deep[1]):
                continue
            wit = {'state': case['state'], 'path': case['path'], 'mutator': case['mutator'], 'args': case['args']}
            dline = dout[di]
            di += 1
            # the two-level run (children really executed in the model) must end, trace and dirty the parent exactly as
            # the modular run did, with every outcome consumed
            if dline.split()[:3] != line.split()[:3] or not dline.endswith('left=0'):
                ctx.disagree('ownership-tree run of the script vs modular run / observed execution', wit,
                             {'modular': line, 'children': [p[4] for p in deep[1]]}, dline)
            for ci, cb, ctrace, raised, cname in deep[1]:
                cl = dout[di]
                di += 1
                parts = cl.split()
                kv = dict(p.split('=') for p in parts[1:])
                mtrace = [] if kv['trace'] == '-' else [int(x) for x in kv['trace'].split('.')]
                if (parts[0] in ('exc', 'roexc')) != bool(raised) or mtrace != ctrace:
                    ctx.disagree('Lean run of the child script vs observed child call', wit,
                                 {'child': cname, 'raised': raised, 'trace': ctrace}, cl)
            ctx.count('corr-deep:%d-child-calls' % len(deep[1]))
        for (case, obs, rec, bits, ex, dirty_py, _deep), line in zip(pending, out):
            wit = {'state': case['state'], 'path': case['path'], 'mutator': case['mutator'], 'args': case['args']}
            parts = line.split()
            mexit = parts[0]
            kv = dict(p.split('=') for p in parts[1:])
            mtrace = [] if kv['trace'] == '-' else [int(x) for x in kv['trace'].split('.')]
            inv = {v: k for k, v in rec['fields'].items()}
            mdirty = [] if kv['dirty'] == '-' else [inv[int(x)] for x in kv['dirty'].split(',')]
            want = {'ok': ('norm', 'ret'), 'dom': ('exc', 'roexc')}[obs['outcome']]
            if mexit not in want or mtrace != obs['trace']:
                ctx.disagree('Lean run of the script vs observed execution', wit,
                             {'outcome': obs['outcome'], 'trace': obs['trace']}, line)
                continue
            # which observable changed vs the script's prediction: every script field whose content changed must be
            # a field the model run changed (unobservable ones are not compared: they are not in Script.fields)
            unexpected = [f for f in obs['fields_changed'] if f not in mdirty and f not in rec['unobservable']]
            if unexpected:
                ctx.disagree('a field changed that the script run leaves untouched', wit,
                             {'changed fields': obs['fields_changed']}, {'model dirty': mdirty, 'exit': mexit})
            ctx.count('corr:' + mexit)

    # -- read-only oracle ----------------------------------------------------------------------------------
    def readonly_oracle(self, ctx, by_name):
        import inspect
        cu = dom.cssutils_mod()
        rng = ctx.sub_rng('readonly')
        for spec in cr.STANDALONE:
            cls = cr.cls_by_name(spec['new'])
            if 'readonly' not in inspect.signature(cls.__init__).parameters:
                continue
            members = sorted({n.split('.')[1] for n in by_name if n.split('.')[0] in
                              [k.__name__ for k in cls.__mro__]})
            for mem in members:
                name = None
                for k in cls.__mro__:
                    if '%s.%s' % (k.__name__, mem) in by_name:
                        name = '%s.%s' % (k.__name__, mem)
                        break
                if mem.startswith('_set'):
                    continue        # internal helper
                for args, tag in cg.inputs(name, rng, ctx.n(3, 10)):
                    kw = dict(spec['kw'])
                    kw['readonly'] = True
                    cu.log.raiseExceptions = False
                    try:
                        obj = cls(**kw)
                    except Exception:      # noqa: BLE001
                        break
                    finally:
                        cu.log.raiseExceptions = True
                    if not getattr(obj, '_readonly', False):
                        ctx.count('readonly-flag-not-kept:' + spec['new'])
                    fetch = dom.Fetch()
                    a = [cr.make_obj(x, obj, fetch) for x in args]
                    if len(a) > 1 and a[1] == 'len':
                        a[1] = 0
                    before = dom.snapshot([obj])
                    with time_limit(20):
                        outcome, exc = cr.call_mutator(obj, mem, a)
                    after = dom.snapshot([obj])
                    ok_reject = outcome == 'dom' and isinstance(exc, xml.dom.NoModificationAllowedErr)
                    ctx.case(key=('ro', spec['new'], repr(spec['kw']), mem, repr(args)),
                             nontrivial=True, kind='readonly:%s' % ('rejected' if ok_reject else outcome))
                    if before != after:
                        wit = {'readonly_object': spec, 'mutator': name, 'args': args}
                        # region of known finding C11-value-readonly: a Value (sub)class instance built with
                        # readonly=True whose constructor did not keep the flag
                        known = 'C11-value-readonly' if (isinstance(obj, cu.css.Value) and
                                                         not getattr(obj, '_readonly', False) and
                                                         self.finding_status.get('C11-value-readonly') == 'known') \
                            else None
                        if name in RO_UNGUARDED_2 and outcome == 'ok' and \
                                self.finding_status.get('C11-readonly-unguarded-2') == 'known':
                            known = 'C11-readonly-unguarded-2'
                        ctx.violate('an object created read-only rejects every mutator and stays unchanged', wit,
                                    {'outcome': outcome, 'exception': type(exc).__name__ if exc else None,
                                     'first_differences': [(p, repr(x)[:120], repr(y)[:120]) for p, x, y in
                                                           dom.diff(before, after)[:3]]}, known=known)

    def search(self, ctx):
        if os.environ.get('VERIF_C11_NOSEARCH'):      # development aid: report the broken tie at once
            return
        super().search(ctx)

    # -- known findings / replay ------------------------------------------------------------------------------
    def known(self, ctx, finding):
        w = finding['witness']['data']
        txt, recs, failed = self.scripts(ctx.repo)
        for r in recs:
            r.setdefault('marks', set(marks_of(r['body'])))
        by_name = {r['name']: r for r in recs}
        if 'readonly_object' in w:
            return self.replay_readonly(w)
        obs = self.run_case(ctx, w, by_name, trace=False)
        return bool(obs and obs['outcome'] == 'dom' and obs['changed'])

    def replay_readonly(self, w):
        cu = dom.cssutils_mod()
        cls = cr.cls_by_name(w['readonly_object']['new'])
        kw = dict(w['readonly_object']['kw'])
        kw['readonly'] = True
        cu.log.raiseExceptions = False
        obj = cls(**kw)
        before = dom.snapshot([obj])
        cr.call_mutator(obj, w['mutator'].split('.')[1], [cr.make_obj(x, obj, dom.Fetch()) for x in w['args']])
        return before != dom.snapshot([obj])

    def replay(self, ctx, data):
        txt, recs, failed = self.scripts(ctx.repo)
        for r in recs:
            r['marks'] = set(marks_of(r['body']))
        by_name = {r['name']: r for r in recs}
        index = {r['name']: i for i, r in enumerate(recs)}
        w = data.get('witness')
        if not w:
            for b in data.get('broken', []):
                if isinstance(b.get('input'), dict) and 'mutator' in b['input']:
                    w = b['input']
                    break
        if not w:
            return self.run(ctx)
        if 'readonly_object' in w:
            if self.replay_readonly(w):
                ctx.violate(data.get('clause', 'read-only'), w, None)
            return
        pending = []
        self.one(ctx, dict(w, kind='replay'), by_name, index, pending)
        self.flush(ctx, pending, index)


def _tup(x):
    return tuple(_tup(y) for y in x) if isinstance(x, list) else x


class _RecCtx:
    """stands in for the framework context inside a pool worker: records the reports"""

    def __init__(self, ctx):
        self.repo, self.verif, self.model_ok = ctx.repo, ctx.verif, ctx.model_ok
        self.log = []

    def case(self, **kw):
        self.log.append(('case', [], kw))

    def count(self, *a, **kw):
        self.log.append(('count', list(a), kw))

    def violate(self, *a, **kw):
        self.log.append(('violate', list(a), kw))

    def disagree(self, *a, **kw):
        self.log.append(('disagree', list(a), kw))


def marks_of(s):
    k = s[0]
    if k == 'mark':
        yield s[1]
    elif k == 'seq':
        for x in s[1]:
            yield from marks_of(x)
    elif k in ('choice', 'tryCatch', 'tryFinally', 'loop'):
        yield from marks_of(s[1])
        yield from marks_of(s[2])
    elif k == 'scope':
        yield from marks_of(s[1])
    elif k == 'ifFlag':
        yield from marks_of(s[2])
        yield from marks_of(s[3])


CHECK = C11()
