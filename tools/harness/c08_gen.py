"""generators, implementation runners and independent spec functions for tools/harness/c08.py"""
import codecs
import re

from lib.framework import dec as dec_str  # noqa: F401  (re-exported)
from lib.framework import enc

# ---------------------------------------------------------------------------------------------------
# encodings: single-byte, ASCII compatible, and mutually distinguishable on the probe bytes C3 A4 / E4
SB = ['latin-1', 'koi8-r', 'iso-8859-7', 'cp1251', 'iso-8859-5', 'cp437']
POOL = SB + ['utf-8']
SPELL = {
    'latin-1': ['latin-1', 'Latin-1', 'ISO-8859-1', 'latin_1'],
    'koi8-r': ['koi8-r', 'KOI8-R', 'koi8_r'],
    'iso-8859-7': ['iso-8859-7', 'ISO-8859-7', 'greek'],
    'cp1251': ['cp1251', 'CP1251', 'windows-1251'],
    'iso-8859-5': ['iso-8859-5', 'ISO-8859-5', 'cyrillic'],
    'cp437': ['cp437', 'CP437', 'IBM437'],
    'utf-8': ['utf-8', 'UTF-8', 'utf_8', 'utf8'],
}
UNKNOWN = ['bogus', 'x-unknown-9']
DETECT_NAMES = ['utf-8', 'utf-8-sig', 'utf-16', 'utf-16-le', 'utf-16-be', 'utf-32', 'utf-32-le', 'utf-32-be']
PROBE = b'\xc3\xa4'          # valid UTF-8 and a different text in every encoding of POOL
PROBE_BAD = b'\xe4'          # not UTF-8; a different character in every single-byte encoding of SB
PREFIX = '@charset "'
# BOM x first character: the detector looks at the first four bytes, i.e. also at the character after a 2/3-byte BOM;
# the first characters put 00 / FF / FE / '@' / other into every byte position of both byte orders
BOMS = [('utf-8', codecs.BOM_UTF8), ('utf-16-le', codecs.BOM_UTF16_LE), ('utf-16-be', codecs.BOM_UTF16_BE),
        ('utf-32-le', codecs.BOM_UTF32_LE), ('utf-32-be', codecs.BOM_UTF32_BE)]
BOM_OF = dict(BOMS)
FIRSTS = ['a', '\xe4', '\xff', '\xfe', '\u0100', '\u4e00', '\uff00', '\ufe00', '\u4000', '\u6300', '\U00010000', '\U00010400',
          '\uffff']

assert len({PROBE.decode(e) for e in POOL}) == len(POOL)
assert len({PROBE_BAD.decode(e) for e in SB}) == len(SB)


def same_codec(a, b):
    try:
        return codecs.lookup(a).name == codecs.lookup(b).name
    except (LookupError, TypeError, ValueError):
        return False


def known(n):
    try:
        codecs.lookup(n)
        return True
    except (LookupError, TypeError, ValueError):
        return False


def expected_text(text, name):
    """text with the name of a leading, complete @charset rule replaced by `name` (what the css codec does)"""
    if name.replace('_', '-').lower() == 'utf-8-sig':
        name = 'utf-8'
    if text.startswith(PREFIX) and len(text) > len(PREFIX):
        pos = text.find('"', len(PREFIX))
        if pos >= 0:
            return PREFIX + name + text[pos:]
    return text


def spec_explicit(content):
    """CSS 2.1 section 4.4: the encoding a COMPLETE content declares explicitly (BOM, then @charset), else None"""
    if isinstance(content, str):
        if content.startswith(PREFIX):
            pos = content.find('"', len(PREFIX))
            if pos >= 0:
                return content[len(PREFIX):pos]
        return None
    b = content
    if b[:3] == b'\xef\xbb\xbf':
        return 'utf-8-sig'
    if b[:4] in (b'\xff\xfe\x00\x00', b'\x00\x00\xfe\xff'):
        return 'utf-32'
    if b[:2] in (b'\xff\xfe', b'\xfe\xff'):
        return 'utf-16'
    if b[:10] == b'@charset "':
        pos = b.find(b'"', 10)
        if pos >= 0:
            return ''.join(chr(x) for x in b[10:pos])
    return None


# ---------------------------------------------------------------------------------------------------
# A: the ladder table
class ReadCase:
    def __init__(self, override, http, parent, result, tag, extra_names=()):
        self.override, self.http, self.parent, self.result, self.tag = override, http, parent, result, tag
        self.extra_names = list(extra_names)

    @property
    def content(self):
        r = self.result
        if r and len(r) == 2:
            return r[1]
        return None

    def key(self):
        return (self.override, self.http, self.parent, repr(self.result), self.tag)

    def to_json(self):
        r = self.result

        def c(x):
            return {'bytes': x.hex()} if isinstance(x, bytes) else x
        return {'kind': 'readurl', 'override': self.override, 'http': self.http, 'parent': self.parent, 'tag': self.tag,
                'result': None if r is None else [c(x) for x in r], 'result_type': type(r).__name__,
                'extra_names': self.extra_names}

    @staticmethod
    def from_json(d):
        r = d['result']
        if r is not None:
            r = [bytes.fromhex(x['bytes']) if isinstance(x, dict) else x for x in r]
            r = tuple(r) if d.get('result_type') != 'list' else r
        return ReadCase(d['override'], d['http'], d['parent'], r, d.get('tag', ''), d.get('extra_names', ()))

    def spec(self):
        """None = no sheet; 'skip' = outside the oracle; else (encoding, enctype, text | None | 'lookup' | 'skip')"""
        r = self.result
        if not r or len(r) != 2 or r[1] is None:
            return None
        http, content = r
        if self.override:
            ch = (self.override, 0)
        elif http:
            ch = (http, 1)
        else:
            ex = spec_explicit(content)
            if ex is not None:
                ch = (ex, 2)
            elif self.parent:
                ch = (self.parent, 4)
            else:
                ch = ('utf-8', 5)
        if isinstance(content, str):
            return ch + (content,)
        if not known(ch[0]):
            return ch + ('lookup',)
        try:
            t = codecs.getdecoder(ch[0])(content)[0]
        except UnicodeDecodeError:
            return ch + (None,)
        except Exception:
            return ch + ('skip',)
        if not isinstance(t, str):
            return ch + ('skip',)
        return ch + (expected_text(t, ch[0]),)


def pick_names(rng, k, with_unknown):
    base = rng.sample(POOL, k)
    names = [rng.choice(SPELL[b]) for b in base]
    if with_unknown:
        names[rng.randrange(k)] = rng.choice(UNKNOWN)
    return names


def readurl_table(rng, rounds):
    """the full table; per round a fresh injective assignment of encodings to the four sources"""
    for rnd in range(rounds + 1):
        n_ov, n_http, n_cs, n_par = pick_names(rng, 4, with_unknown=(rnd == rounds))
        body = b'a{content:"' + PROBE + b'"}'
        body_bad = b'a{content:"' + PROBE_BAD + b'"}'
        cs = ('@charset "%s";' % n_cs).encode('ascii')
        tbody = 'a{content:"\xe4"}'
        byte_contents = [
            ('none', body), ('none-bad', body_bad), ('charset', cs + body), ('charset-bad', cs + body_bad),
            ('bom8', b'\xef\xbb\xbf' + body), ('bom8+charset', b'\xef\xbb\xbf' + cs + body),
            ('bom16', codecs.BOM_UTF16_LE + 'a{content:"\xe4"}'.encode('utf-16-le')),
            ('bom16be', codecs.BOM_UTF16_BE + 'a{content:"\xe4"}'.encode('utf-16-be')),
            ('bom32', codecs.BOM_UTF32_LE + 'a{}'.encode('utf-32-le')),
            ('utf16le-nobom', ('@charset "utf-16-le";a{}').encode('utf-16-le')),
            ('incomplete', b'@charset "lat'), ('single-quote', ("@charset '%s';" % n_cs).encode('ascii') + body),
            ('ws-first', b' ' + cs + body), ('short-bom', b'\xff\xfe'), ('short-bom3', b'\xff\xfe\x61'),
            ('empty', b''), ('charset-empty', b'@charset "";' + body),
        ]
        text_contents = [
            ('none', tbody), ('charset', '@charset "%s";' % n_cs + tbody), ('incomplete', '@charset "lat'),
            ('single-quote', "@charset '%s';" % n_cs + tbody), ('bom-char', '\ufeff@charset "%s";' % n_cs + tbody),
            ('ws-first', ' @charset "%s";' % n_cs + tbody), ('empty', ''), ('charset-empty', '@charset "";' + tbody),
        ]
        for ov in (None, '', n_ov):
            for http in (None, '', n_http):
                for par in (None, '', n_par):
                    # shapes without content
                    for tag, r in (('None', None), ('()', ()), ('(h,None)', (http, None)),
                                   ('len3', (http, body, 'x')), ('len1', (http,))):
                        yield ReadCase(ov, http, par, r, tag)
                    for tag, c in byte_contents:
                        yield ReadCase(ov, http, par, (http, c), 'bytes:' + tag, [n_cs])
                    for tag, c in text_contents:
                        yield ReadCase(ov, http, par, (http, c), 'text:' + tag, [n_cs])
                    # a list instead of a tuple unpacks just as well
                    yield ReadCase(ov, http, par, [http, cs + body], 'list:charset', [n_cs])
        # every BOM followed by every kind of first character (and '@', which the detector also looks for)
        for ov, http, par in ((None, None, None), (None, None, n_par), (None, '', ''), (None, n_http, n_par), (n_ov, None, None)):
            for codec, bom in BOMS:
                for first in FIRSTS + ['@', '\x00']:
                    c = bom + (first + '{content:"\xe4"}').encode(codec, 'surrogatepass')
                    yield ReadCase(ov, http, par, (http, c), 'bytes:bom:%s:U+%04X' % (codec, ord(first)))
                yield ReadCase(ov, http, par, (http, bom), 'bytes:bom-only:%s' % codec)


# ---------------------------------------------------------------------------------------------------
# B: import trees
class Node:
    """description of what one URL serves"""
    def __init__(self, url, shape='data', http=None, as_text=False, charset=None, lead='', imports=(),
                 import_style=(), late=None, probe='good', bom=None):
        self.url, self.shape, self.http, self.as_text, self.charset = url, shape, http, as_text, charset
        self.lead, self.imports, self.import_style, self.late, self.probe = lead, list(imports), list(import_style), late, probe
        self.bom = list(bom) if bom else None     # [codec, first character]: a leaf `BOM first{content:"ä"}` in that codec

    def render(self):
        if self.bom:
            codec, first = self.bom
            return BOM_OF[codec] + (first + '{content:"\xe4"}').encode(codec)
        parts = []
        if self.lead == 'ws':
            parts.append(' ')
        elif self.lead == 'comment':
            parts.append('/*c*/')
        if self.charset is not None:
            parts.append('@charset "%s";' % self.charset)
        for i, u in enumerate(self.imports):
            st = self.import_style[i] if i < len(self.import_style) else 0
            parts.append(['@import "%s";', '@import url(%s);', '@import "%s" print;', '\n@import "%s";',
                          '/*i*/@import  "%s";'][st] % u)
        if self.probe != 'none':
            parts.append('a{content:"\x00"}')
        if self.late:
            parts.append('@import "%s";' % self.late)
        s = ''.join(parts)
        if self.as_text:
            return s.replace('\x00', '\xe4')
        return s.encode('ascii').replace(b'\x00', PROBE if self.probe == 'good' else PROBE_BAD)

    def result(self):
        if self.shape == 'none':
            return None
        if self.shape == 'nocontent':
            return (self.http, None)
        return (self.http, self.render())

    def to_json(self):
        return dict(self.__dict__)


class TreeCase:
    def __init__(self, mode, override, href, root, nodes):
        self.mode, self.override, self.href = mode, override, href
        self.rootnode = root                       # Node (its url is the root href; for 'ps' only its content is used)
        self.nodes = {n.url: n for n in nodes}     # what the fetcher serves
        if mode == 'pu':
            self.nodes[root.url] = root
        self.files = {u: n.result() for u, n in self.nodes.items()}
        self.root = root.render() if mode == 'ps' else None

    def key(self):
        return (self.mode, self.override, self.href, repr(self.root), repr(sorted(self.files.items())))

    def all_names(self):
        names = [self.override, self.rootnode.charset, self.rootnode.http]
        for n in self.nodes.values():
            names += [n.http, n.charset]
        return names

    def all_blobs(self):
        out = []
        for c in [self.root] + [r[1] for r in self.files.values() if r and len(r) == 2]:
            if isinstance(c, bytes) and c not in out:
                out.append(c)
        return out

    def has_unknown_names(self):
        return any(n is not None and n != '' and not impl_valid_name(n) for n in self.all_names())

    def to_json(self):
        return {'kind': 'tree', 'mode': self.mode, 'override': self.override, 'href': self.href,
                'root': self.rootnode.to_json(), 'nodes': [n.to_json() for n in self.nodes.values()
                                                         if n is not self.rootnode]}

    @staticmethod
    def from_json(d):
        def mk(x):
            return Node(x['url'], x['shape'], x['http'], x['as_text'], x['charset'], x['lead'], x['imports'],
                        x['import_style'], x['late'], x['probe'], x.get('bom'))
        return TreeCase(d['mode'], d['override'], d['href'], mk(d['root']), [mk(x) for x in d['nodes']])


ROOT = 'http://h/root.css'


def url(i):
    return 'http://h/n%d.css' % i


def fixed_trees():
    L, K, G7 = 'latin-1', 'KOI8-R', 'iso-8859-7'
    out = []
    # depth-3 chain, every source of an encoding once
    for ov in (None, 'cp1251'):
        for mode in ('ps', 'pu'):
            out.append(TreeCase(mode, ov, ROOT, Node(ROOT, charset=L, imports=[url(1)]),
                                [Node(url(1), http=K, imports=[url(2)]), Node(url(2), imports=[url(3)]),
                                 Node(url(3), charset=G7)]))
            out.append(TreeCase(mode, ov, ROOT, Node(ROOT, imports=[url(1)], as_text=True),
                                [Node(url(1), charset=K, imports=[url(2)], as_text=True),
                                 Node(url(2), imports=[url(3)], probe='bad'), Node(url(3), http=G7, probe='bad')]))
    # recursion, missing, duplicates, late import, comment first
    out.append(TreeCase('ps', None, ROOT, Node(ROOT, imports=[ROOT, url(1), url(1), url(9)]),
                        [Node(url(1), imports=[ROOT, url(1)], late=url(2)), Node(url(2), charset=L)]))
    out.append(TreeCase('ps', None, ROOT, Node(ROOT, lead='comment', charset=L, imports=[url(1)], probe='bad', as_text=True),
                        [Node(url(1), lead='comment', imports=[url(2)], http=K), Node(url(2), probe='bad')]))
    out.append(TreeCase('ps', None, None, Node(ROOT, charset=L, imports=[url(1)]),
                        [Node(url(1), shape='nocontent', http=K)]))
    return out


def bom_trees():
    """every BOM x every kind of first character, as the top-level sheet and as an import at depth 1 and 2, below a
    referring sheet without / with an encoding of its own"""
    out = []
    for codec, _ in BOMS:
        for first in FIRSTS[:-1]:
            leaf = dict(bom=(codec, first))
            out.append(TreeCase('ps', None, ROOT, Node(ROOT, **leaf), []))
            for parent in (None, 'iso-8859-1', 'KOI8-R'):
                out.append(TreeCase('ps', None, ROOT, Node(ROOT, as_text=True, charset=parent, imports=[url(1)], probe='none'),
                                    [Node(url(1), **leaf)]))
            out.append(TreeCase('pu', None, ROOT, Node(ROOT, http='cp1251', imports=[url(1)]),
                                [Node(url(1), imports=[url(2)], probe='bad'), Node(url(2), **leaf)]))
    return out


def gen_tree(rng):
    mode = 'pu' if rng.random() < 0.3 else 'ps'
    r = rng.random()
    override = None if r < 0.6 else ('' if r < 0.65 else rng.choice(SPELL[rng.choice(POOL)]))
    if rng.random() < 0.04:
        override = rng.choice(UNKNOWN)
    n_nodes = rng.randint(1, 5)
    urls = [url(i) for i in range(1, n_nodes + 1)]
    depth = {ROOT: 0}
    parent_of = {}
    nodes = {}

    def enc_name(p_unknown=0.02):
        if rng.random() < p_unknown:
            return rng.choice(UNKNOWN)
        return rng.choice(SPELL[rng.choice(POOL)])

    def mk(u):
        shape = 'data'
        x = rng.random()
        if x < 0.05:
            shape = 'none'
        elif x < 0.08:
            shape = 'nocontent'
        as_text = rng.random() < 0.3
        lead = rng.choice(['', '', '', '', 'ws', 'comment'])
        charset = enc_name() if rng.random() < 0.45 else None
        http = enc_name() if rng.random() < 0.35 else (None if rng.random() < 0.9 else '')
        probe = rng.choice(['good', 'good', 'bad', 'none'])
        return Node(u, shape, http, as_text, charset, lead, [], [], None, probe)

    root = mk(ROOT)
    root.shape = 'data'
    nodes[ROOT] = root
    for u in urls:
        # attach below a node of depth < 3
        cands = [v for v, d in depth.items() if d < 3]
        p = rng.choice(cands)
        depth[u] = depth[p] + 1
        parent_of[u] = p
        nodes[u] = mk(u)
        nodes[p].imports.append(u)
    # extra edges: missing, recursive (an ancestor), duplicate, late
    for u, n in list(nodes.items()):
        x = rng.random()
        if x < 0.12:
            n.imports.append('http://h/missing%d.css' % rng.randint(0, 2))
        elif x < 0.24:
            a, chain = u, [u]
            while a in parent_of:
                a = parent_of[a]
                chain.append(a)
            n.imports.insert(rng.randint(0, len(n.imports)), rng.choice(chain))
        elif x < 0.32 and n.imports:
            n.imports.append(rng.choice(n.imports))
        elif x < 0.40:
            n.late = rng.choice(urls + ['http://h/missing0.css'])
        n.import_style = [rng.randrange(5) for _ in n.imports]
    # some leaves are sheets with a BOM (only where the BOM is what decides: no override, no HTTP charset)
    if not override:
        for u, n in nodes.items():
            if not n.imports and not n.late and not n.http and n.shape == 'data' and rng.random() < 0.3 \
                    and not (u == ROOT and mode == 'pu'):
                n.bom = [rng.choice(BOMS)[0], rng.choice(FIRSTS[:-1])]
                n.as_text, n.charset, n.lead, n.probe = False, None, '', 'good'
    href = ROOT if (mode == 'pu' or rng.random() < 0.85) else None
    if href is None:
        # without a root href nothing equals the root for the recursion guard; do not import ROOT then
        for n in nodes.values():
            n.imports = [i for i in n.imports if i != ROOT]
            n.import_style = n.import_style[:len(n.imports)]
    return TreeCase(mode, override, href, root, [n for u, n in nodes.items() if u != ROOT])


# -- wrappers that let the harness see what `_readUrl` was asked and what it answered ---------------------
_last = [None]
_installed = [False]


def install_wrappers():
    if _installed[0]:
        return
    import cssutils.css.cssstylesheet as M
    orig_read = M._readUrl

    def read(url, fetcher=None, overrideEncoding=None, parentEncoding=None):
        r = orig_read(url, fetcher=fetcher, overrideEncoding=overrideEncoding, parentEncoding=parentEncoding)
        _last[0] = (overrideEncoding, parentEncoding, r)
        return r
    M._readUrl = read
    orig_set = M.CSSStyleSheet._setCssTextWithEncodingOverride

    def setter(self, cssText, encodingOverride=None, encoding=None):
        self._verif_read = _last[0]
        _last[0] = None
        return orig_set(self, cssText, encodingOverride=encodingOverride, encoding=encoding)
    M.CSSStyleSheet._setCssTextWithEncodingOverride = setter
    _installed[0] = True


def run_tree(cssutils, c):
    log = []

    def fetch(u):
        log.append(u)
        return c.files.get(u)
    parser = cssutils.CSSParser(fetcher=fetch)
    _last[0] = None
    try:
        if c.mode == 'ps':
            sheet = parser.parseString(c.root, encoding=c.override, href=c.href)
        else:
            sheet = parser.parseUrl(c.href, encoding=c.override)
    except (LookupError, AttributeError, UnicodeDecodeError, RecursionError) as e:
        return {'status': type(e).__name__, 'log': log[:50]}
    finally:
        cssutils.log.raiseExceptions = True
    if sheet is None:
        return {'status': 'none', 'log': log}
    recs = []

    def walk(s, d):
        for r in s.cssRules:
            if r.type == r.IMPORT_RULE:
                ch = r.styleSheet
                info = getattr(ch, '_verif_read', None) if r.hrefFound else None
                rec = {'depth': d, 'url': r.href, 'found': bool(r.hrefFound), 'reported': ch.encoding, 'sheet': ch}
                if info is not None:
                    rec.update(parentArg=info[1], enctype=info[2][1], used=info[2][0], text=info[2][2], override=info[0])
                else:
                    rec.update(parentArg=None, enctype=9, used='', text='')
                recs.append(rec)
                if r.hrefFound:
                    walk(ch, d + 1)
    walk(sheet, 1)
    return {'status': 'ok', 'log': log, 'recs': recs, 'enc': sheet.encoding, 'sheet': sheet,
            'text': getattr(sheet, '_verif_text', None)}


def show_kinds(sheet):
    out = []
    for r in sheet.cssRules:
        if r.type == r.CHARSET_RULE:
            out.append('cs:' + enc(r.encoding))
        elif r.type == r.COMMENT:
            out.append('cm')
        elif r.type == r.IMPORT_RULE:
            out.append('im')
        else:
            out.append('ot')
    return '+'.join(out) or '-'


def show_tree_result(res):
    if res['status'] == 'none':
        return 'NONE'
    if res['status'] != 'ok':
        return 'ERR ' + res['status']

    def on(n):
        return 'N' if n is None else enc(n)

    def rec(r):
        if r['found']:
            return ','.join([str(r['depth']), enc(r['url']), '1', on(r['parentArg']), str(r['enctype']), enc(r['used']),
                             enc(r['text']), enc(r['reported']), show_kinds(r['sheet'])])
        # the parentEncoding of a failed attempt is not observable; the model prints it, so it is masked on both sides
        return ','.join([str(r['depth']), enc(r['url']), '0', '*', '9', '-', '-', enc(r['reported']), show_kinds(r['sheet'])])
    return 'OK enc=%s rules=%s log=%s recs=%s' % (enc(res['enc']), show_kinds(res['sheet']), ','.join(enc(u) for u in res['log']),
                                                  '|'.join(rec(r) for r in res['recs']))


def mask_model_tree(m):
    """drop what the implementation does not show: the root text, and parentArg of failed imports"""
    if not m.startswith('OK '):
        return m
    m = re.sub(r' text=\S*', '', m)
    head, _, recs = m.partition(' recs=')
    out = []
    for r in (recs.split('|') if recs else []):
        f = r.split(',')
        if f[2] == '0':
            f[3] = '*'
        out.append(','.join(f))
    return head + ' recs=' + '|'.join(out)


def spec_tree_violations(c, res):
    """the property on the DOM that came out. Independent of the model: uses the tree description, CPython's
    codecs and the DOM's end state only."""
    out = []
    ov = c.override or None
    sheet = res['sheet']

    def eff(s):
        """the referring sheet's encoding as far as it is declared: its @charset rule"""
        rules = s.cssRules
        if rules.length and rules[0].type == rules[0].CHARSET_RULE:
            return rules[0].encoding
        return None

    # root
    if c.mode == 'ps':
        if ov:
            if not same_codec(sheet.encoding, ov):
                out.append({'clause': 'an explicit override is the reported encoding of the sheet',
                            'detail': {'reported': sheet.encoding, 'override': ov}})
    # parseUrl: what the ladder finds for the root itself (HTTP, BOM/@charset) is the root's encoding: it reports it
    # and its imports inherit it
    root_found = None
    if c.mode == 'pu' and not ov:
        root_found = c.rootnode.http or spec_explicit(c.rootnode.render()) or None
        if root_found and not same_codec(sheet.encoding, root_found):
            out.append({'clause': 'a sheet loaded by URL reports the encoding it was read in',
                        'detail': {'reported': sheet.encoding, 'read_in': root_found}})
    def selectors(s):
        return [x.selectorText for x in s.cssRules if x.type == x.STYLE_RULE]

    # a top-level sheet given as bytes that starts with a BOM: the BOM decides, the first character is the selector
    if c.mode == 'ps' and c.rootnode.bom and not ov and c.rootnode.bom[1] not in selectors(sheet):
        out.append({'clause': 'a BOM in the content decides the encoding of the sheet, whatever character follows it',
                    'detail': {'bom': c.rootnode.bom[0], 'first': c.rootnode.bom[1], 'selectors': selectors(sheet)}})
    # walk records with their parents
    stack = {0: sheet}
    urls = {0: c.href}
    for r in res['recs']:
        parent = stack[r['depth'] - 1]
        node = c.nodes.get(r['url'])
        recursive = r['url'] in [urls.get(d) for d in range(r['depth'])]
        if r['found']:
            stack[r['depth']] = r['sheet']
            urls[r['depth']] = r['url']
        if node is None or node.shape != 'data':
            if r['found']:
                out.append({'clause': 'an import that cannot be fetched is not loaded', 'detail': {'url': r['url']}})
            continue
        content = node.render()
        if ov:
            want = ov
        elif node.http:
            want = node.http
        elif spec_explicit(content) is not None:
            want = spec_explicit(content)
        elif parent is sheet and root_found:
            want = root_found
        elif eff(parent):
            want = eff(parent)
        else:
            want = 'utf-8'
        if not r['found']:
            # legitimate reasons: recursion, content that does not decode in the encoding the ladder gives
            decodable = True
            if isinstance(content, bytes):
                try:
                    content.decode(want)
                except (UnicodeDecodeError, LookupError):
                    decodable = False
            if decodable and not recursive:
                out.append({'clause': 'an imported sheet whose content decodes in the encoding the precedence gives is loaded',
                            'detail': {'url': r['url'], 'depth': r['depth'], 'spec': want}})
            continue
        if node.bom and not ov and node.bom[1] not in selectors(r['sheet']):
            out.append({'clause': 'a BOM in the content decides the encoding of an imported sheet, whatever character '
                                  'follows it',
                        'detail': {'url': r['url'], 'bom': node.bom[0], 'first': node.bom[1],
                                   'selectors': selectors(r['sheet']), 'used': r['used']}})
            continue
        if not same_codec(r['used'], want):
            out.append({'clause': 'an imported sheet is decoded with the first applicable of override / HTTP / '
                                  'BOM-or-@charset / referring sheet / UTF-8',
                        'detail': {'url': r['url'], 'depth': r['depth'], 'used': r['used'], 'enctype': r['enctype'],
                                   'spec': want}})
            continue
        if isinstance(content, bytes):
            try:
                t = expected_text(content.decode(want), r['used'])
            except UnicodeDecodeError:
                t = None
            if t is not None and t != r['text']:
                out.append({'clause': 'the bytes of an imported sheet are decoded with the chosen encoding',
                            'detail': {'url': r['url'], 'got': r['text'], 'want': t}})
        rep_want = want if (r['enctype'] < 5) else (eff(r['sheet']) or 'utf-8')
        if not same_codec(r['reported'], rep_want):
            out.append({'clause': 'the reported encoding of an imported sheet is the encoding it was read in',
                        'detail': {'url': r['url'], 'reported': r['reported'], 'want': rep_want}})
        # the imported sheet serialises to bytes that decode in its reported encoding and still hold the probe
        try:
            st = r['sheet'].cssText.decode(r['reported'])
            if node.probe != 'none':
                probe = '\xe4' if (node.as_text or node.bom) else (PROBE if node.probe == 'good' else PROBE_BAD).decode(want)
                s2 = __import__('cssutils').parseString(st)
                vals = [x.style.getPropertyValue('content') for x in s2.cssRules if x.type == x.STYLE_RULE]
                if '"%s"' % probe not in vals:
                    out.append({'clause': 'the serialisation of an imported sheet decodes in its reported encoding to the '
                                          'content it was read with',
                                'detail': {'url': r['url'], 'serialised': st, 'want_char': probe}})
        except (UnicodeDecodeError, LookupError) as x:
            out.append({'clause': 'the serialisation of an imported sheet decodes in its reported encoding',
                        'detail': {'url': r['url'], 'error': repr(x)}})
        if ov and r['reported'] != ov.lower():
            out.append({'clause': 'an explicit override governs every nested import',
                        'detail': {'url': r['url'], 'reported': r['reported'], 'override': ov}})
    return out


# ---------------------------------------------------------------------------------------------------
# C: edits
EDIT_NAMES = ['latin-1', 'Latin-1', 'KOI8-R', 'utf-8', 'ascii', 'UTF-16', 'iso-8859-7', 'rot13', 'bogus', '123', 'latin 1', 'x;y', '']
KINDS = ['comment', 'unknown', 'import', 'variables', 'namespace', 'style']


def text_codec(n):
    try:
        return bool(codecs.lookup(n)._is_text_encoding)
    except (LookupError, AttributeError):
        return True


_valid_cache = {}


def impl_valid_name(n):
    """does CSSCharsetRule accept the name? Asked from the implementation (which codecs are usable is CPython's
    business and a parameter of the models); spec_valid_name below is the independent statement used by the oracle"""
    if n in _valid_cache:
        return _valid_cache[n]
    import xml.dom

    import cssutils
    old = cssutils.log.raiseExceptions
    cssutils.log.raiseExceptions = True
    try:
        if not n:
            ok = False
        else:
            try:
                ok = bool(cssutils.css.CSSCharsetRule(encoding=n).encoding)
            except xml.dom.DOMException:
                ok = False
    finally:
        cssutils.log.raiseExceptions = old
    _valid_cache[n] = ok
    return ok


def spec_valid_name(n):
    """'yes' / 'no' / 'either': one IDENT naming a text encoding CPython has must be accepted, anything that is not
    an IDENT or not a codec must be rejected; codecs that are not text encodings may be rejected"""
    if not n or not re.fullmatch(r'-?[A-Za-z_\x80-\U0010ffff][A-Za-z0-9_\-\x80-\U0010ffff]*', n) or not known(n):
        return 'no'
    if not text_codec(n):
        return 'either'
    try:
        ' '.encode(n)
    except Exception:
        return 'either'
    return 'yes'


def op_word(o):
    def idx(i):
        return 'N' if i is None else str(i)
    k = o['op']
    if k == 'enc':
        return 'enc/' + ('N' if o['e'] is None else enc(o['e']))
    if k == 'ins':
        return 'ins/%s/%s/%d' % (o['rule'], idx(o['index']), o['inorder'])
    if k == 'insn':
        return 'insn/%s/%s/%d' % (enc(o['name']), idx(o['index']), o['inorder'])
    if k == 'inst':
        return 'inst/%s/%s/%d' % ((','.join(('charset=' + enc(r[8:].lower())) if r.startswith('charset=') else r
                                             for r in o['rules']) or '-'), idx(o['index']), o['inorder'])
    if k == 'del':
        return 'del/%d' % o['i']
    if k == 'renc':
        return 'renc/%d/%s' % (o['i'], enc(o['e']))
    if k == 'text':
        return 'text/' + (','.join(('charset=' + enc(r[8:].lower())) if r.startswith('charset=') else r
                                   for r in o['rules']) or '-')
    raise ValueError(k)


def gen_edits(rng):
    ops = []
    good = ['latin-1', 'Latin-1', 'KOI8-R', 'utf-8', 'ascii', 'UTF-16', 'iso-8859-7']
    for _ in range(rng.randint(1, 9)):
        x = rng.random()
        if x < 0.22:
            ops.append({'op': 'enc', 'e': rng.choice([None, '', 'bogus', '123', 'rot13'] + good * 3)})
        elif x < 0.40:
            ops.append({'op': 'insn', 'name': rng.choice(good * 3 + ['bogus', '', 'latin 1', 'x;y']),
                        'index': rng.choice([None, 0, 0, 1, 2, 7]), 'inorder': False})
            if rng.random() < 0.4:
                ops[-1].update(index=None, inorder=True)
        elif x < 0.66:
            ops.append({'op': 'ins', 'rule': rng.choice(KINDS), 'index': rng.choice([None, 0, 0, 0, 1, 2, 3, 9]),
                        'inorder': False})
            if rng.random() < 0.3:
                ops[-1].update(index=None, inorder=True)
                if rng.random() < 0.25:
                    # `insertRule(rule, index, inOrder=True)`: documented as "ignoring index"
                    ops[-1].update(index=rng.choice([0, 0, 1, 2]))
        elif x < 0.74:
            # the rule given as text: mostly one rule, sometimes none / two / one that starts with @charset
            y = rng.random()
            if y < 0.7:
                rules = [rng.choice(KINDS)]
            elif y < 0.8:
                rules = ['charset=' + rng.choice(['latin-1', 'ascii', 'koi8-r'])]
            else:
                rules = [rng.choice(KINDS + ['charset=ascii']) for _ in range(rng.choice([0, 2, 2]))]
            ops.append({'op': 'inst', 'rules': rules, 'index': rng.choice([None, 0, 0, 1, 2, 3, 9]),
                        'inorder': rng.random() < 0.3})
        elif x < 0.82:
            ops.append({'op': 'del', 'i': rng.choice([0, 0, 0, 1, 2, 5])})
        elif x < 0.90:
            ops.append({'op': 'renc', 'i': 0, 'e': rng.choice(good + ['bogus', '123', 'latin 1'])})
        else:
            k = rng.randint(0, 4)
            rules = [rng.choice(KINDS + ['charset=' + rng.choice(['latin-1', 'ascii', 'koi8-r'])]) for _ in range(k)]
            if rng.random() < 0.5:
                rules = ['charset=' + rng.choice(['latin-1', 'UTF-8', 'koi8-r'])] + rules
            ops.append({'op': 'text', 'rules': rules})
    return ops


def fixed_edits():
    return [
        [{'op': 'inst', 'rules': ['style'], 'index': None, 'inorder': False}, {'op': 'enc', 'e': 'latin-1'},
         {'op': 'inst', 'rules': ['import'], 'index': 1, 'inorder': False}, {'op': 'inst', 'rules': ['import'], 'index': 0, 'inorder': False},
         {'op': 'inst', 'rules': ['charset=ascii'], 'index': 0, 'inorder': False},
         {'op': 'inst', 'rules': ['charset=ascii'], 'index': None, 'inorder': True},
         {'op': 'inst', 'rules': ['namespace'], 'index': 0, 'inorder': True}, {'op': 'inst', 'rules': [], 'index': 0, 'inorder': False},
         {'op': 'inst', 'rules': ['comment', 'style'], 'index': 1, 'inorder': False},
         {'op': 'inst', 'rules': ['style', 'charset=ascii'], 'index': 1, 'inorder': False},
         {'op': 'inst', 'rules': ['variables'], 'index': 9, 'inorder': False}],
        [{'op': 'enc', 'e': 'latin-1'}, {'op': 'ins', 'rule': 'namespace', 'index': 0, 'inorder': True},
         {'op': 'ins', 'rule': 'namespace', 'index': 0, 'inorder': False}, {'op': 'ins', 'rule': 'import', 'index': 1, 'inorder': False},
         {'op': 'ins', 'rule': 'namespace', 'index': None, 'inorder': True}, {'op': 'ins', 'rule': 'style', 'index': 1, 'inorder': False},
         {'op': 'ins', 'rule': 'import', 'index': 3, 'inorder': False}, {'op': 'del', 'i': 1}, {'op': 'enc', 'e': None},
         {'op': 'text', 'rules': ['charset=ascii', 'namespace', 'import', 'namespace', 'variables', 'namespace']}],
        [{'op': 'enc', 'e': 'Latin-1'}, {'op': 'enc', 'e': 'bogus'}, {'op': 'enc', 'e': 'KOI8-R'}, {'op': 'enc', 'e': None}],
        [{'op': 'ins', 'rule': 'style', 'index': None, 'inorder': False}, {'op': 'enc', 'e': 'ascii'},
         {'op': 'ins', 'rule': 'comment', 'index': 0, 'inorder': False}, {'op': 'ins', 'rule': 'import', 'index': 0, 'inorder': False},
         {'op': 'ins', 'rule': 'variables', 'index': 0, 'inorder': False}, {'op': 'ins', 'rule': 'style', 'index': 0, 'inorder': False},
         {'op': 'insn', 'name': 'utf-8', 'index': 0, 'inorder': False}, {'op': 'insn', 'name': 'utf-8', 'index': None, 'inorder': True},
         {'op': 'del', 'i': 0}, {'op': 'enc', 'e': ''}],
        [{'op': 'text', 'rules': ['charset=latin-1', 'import', 'style']}, {'op': 'text', 'rules': ['style', 'charset=ascii']},
         {'op': 'renc', 'i': 0, 'e': 'KOI8-R'}, {'op': 'renc', 'i': 0, 'e': 'bogus'}, {'op': 'insn', 'name': 'ascii', 'index': 1, 'inorder': False}],
        [{'op': 'ins', 'rule': 'comment', 'index': None, 'inorder': True}, {'op': 'ins', 'rule': 'import', 'index': None, 'inorder': True},
         {'op': 'ins', 'rule': 'variables', 'index': None, 'inorder': True}, {'op': 'enc', 'e': 'utf-8'},
         {'op': 'ins', 'rule': 'import', 'index': None, 'inorder': True}, {'op': 'ins', 'rule': 'variables', 'index': None, 'inorder': True}],
    ]


def mk_rule(cssutils, kind, k):
    css = cssutils.css
    if kind == 'comment':
        return css.CSSComment('/*c*/')
    if kind == 'unknown':
        return css.CSSUnknownRule('@x y;')
    if kind == 'import':
        return css.CSSImportRule(href='http://h/i.css')
    if kind == 'variables':
        return css.CSSVariablesRule()
    if kind == 'namespace':
        # a prefix and a URI that no other rule of the history has (the model's `Rule.ns`)
        return css.CSSNamespaceRule(namespaceURI='http://n/%d' % k, prefix='p%d' % k)
    return [lambda: css.CSSStyleRule(selectorText='a'), lambda: css.CSSMediaRule('print'), lambda: css.CSSPageRule(),
            lambda: css.CSSFontFaceRule()][k % 4]()


TEXT_OF = {'comment': '/*c*/', 'unknown': '@x y;', 'import': '@import "http://h/i.css";', 'variables': '@variables{a:1}',
           'style': 'a{b:c}'}


def show_rules(sheet):
    out = []
    for r in sheet.cssRules:
        t = r.type
        if t == r.CHARSET_RULE:
            out.append('charset:' + enc(r.encoding))
        elif t == r.COMMENT:
            out.append('comment')
        elif t == r.UNKNOWN_RULE:
            out.append('unknown')
        elif t == r.IMPORT_RULE:
            out.append('import')
        elif t == r.VARIABLES_RULE:
            out.append('variables')
        elif t == r.NAMESPACE_RULE:
            out.append('namespace')
        elif t in (r.STYLE_RULE, r.MEDIA_RULE, r.PAGE_RULE, r.FONT_FACE_RULE):
            out.append('style')
        else:
            out.append('other%d' % t)
    return ','.join(out) or '-'


def run_edits(cssutils, ops):
    import xml.dom
    parser = cssutils.CSSParser(fetcher=lambda u: None)
    sheet = parser.parseString('')
    cssutils.log.raiseExceptions = True
    steps, viol = [], []
    for k, o in enumerate(ops):
        status = 'ok'
        try:
            if o['op'] == 'enc':
                sheet.encoding = o['e']
            elif o['op'] == 'ins':
                sheet.insertRule(mk_rule(cssutils, o['rule'], k), o['index'], inOrder=o['inorder'])
            elif o['op'] == 'insn':
                if o['name'] == '':
                    rule = cssutils.css.CSSCharsetRule()
                else:
                    rule = cssutils.css.CSSCharsetRule(encoding=o['name'])
                sheet.insertRule(rule, o['index'], inOrder=o['inorder'])
            elif o['op'] == 'inst':
                text = ''.join(('@charset "%s";' % r[8:]) if r.startswith('charset=') else
                               ('@namespace s%d_%d "http://n/s%d_%d";' % (k, j, k, j)) if r == 'namespace' else TEXT_OF[r]
                               for j, r in enumerate(o['rules']))
                sheet.insertRule(text, o['index'], inOrder=o['inorder'])
            elif o['op'] == 'del':
                sheet.deleteRule(o['i'])
            elif o['op'] == 'renc':
                rules = sheet.cssRules
                if o['i'] < rules.length and rules[o['i']].type == rules[o['i']].CHARSET_RULE:
                    rules[o['i']].encoding = o['e']
                else:
                    status = 'IndexSizeErr'
            elif o['op'] == 'text':
                sheet.cssText = ''.join(('@charset "%s";' % r[8:]) if r.startswith('charset=') else
                                        ('@namespace t%d_%d "http://n/t%d_%d";' % (k, j, k, j)) if r == 'namespace' else TEXT_OF[r]
                                        for j, r in enumerate(o['rules']))
        except xml.dom.DOMException as e:
            status = type(e).__name__
        finally:
            cssutils.log.raiseExceptions = True
        e_now = sheet.encoding
        steps.append('%s:%s:%s' % (status, show_rules(sheet), enc(e_now)))
        # oracle
        rules = list(sheet.cssRules)
        cs = [i for i, r in enumerate(rules) if r.type == r.CHARSET_RULE]
        want = rules[0].encoding if cs[:1] == [0] else 'utf-8'
        w = {'step': k, 'op': op_word(o)}
        if cs not in ([], [0]):
            viol.append({'clause': 'there is at most one @charset rule and it is the first rule', 'detail': dict(w, charset_at=cs)})
        elif e_now != want:
            viol.append({'clause': 'sheet.encoding equals the @charset rule (utf-8 without one)',
                         'detail': dict(w, encoding=e_now, rule=want)})
        if o['op'] == 'enc' and status == 'ok':
            exp = o['e'].lower() if o['e'] else 'utf-8'
            if e_now != exp:
                viol.append({'clause': 'the encoding that was set is the encoding reported', 'detail': dict(w, got=e_now, want=exp)})
        try:
            b = sheet.cssText
            t = b.decode(e_now)
            has = t.startswith('@charset "%s";' % e_now)
            if has != (cs == [0]):
                viol.append({'clause': 'the serialisation starts with the @charset rule iff there is one',
                             'detail': dict(w, text=t[:40])})
        except Exception as x:
            viol.append({'clause': 'the serialisation is a byte string decodable in sheet.encoding',
                         'detail': dict(w, error=repr(x)),
                         'known': 'C08-nontext-codec' if not text_codec(e_now) else None})
    return steps, '%s %s' % (show_rules(sheet), enc(sheet.encoding)), viol


# ---------------------------------------------------------------------------------------------------
# D: escapecss / unicodesub
TARGETS = ['ascii', 'latin-1', 'koi8-r', 'iso-8859-7', 'cp1251', 'cp437', 'utf-8', 'utf-16', 'utf-16-le', 'utf-32',
           'iso-8859-15', 'cp1252']
ESC_ALPHA = ['\\', '\\', 'a', 'E', '4', '1', 'f', '0', ' ', '\n', '\r', '\t', '\f', '\xe4', '\u20ac', '\u0414', '\u03b4',
             '\ud800', '\U0001F600', '\x00', '"', 'g', '\x80', '\u0100', '\x7f', '\xa0']


def unrepresentable(text, e):
    out = []
    for ch in sorted(set(text)):
        try:
            ch.encode(e)
        except UnicodeEncodeError:
            out.append(ord(ch))
    return out


# pieces a token text is made of. NAME: what `{nmchar}*` admits (IDENT, HASH, DIMENSION, FUNCTION names are read with
# `unicodesub`); STR adds what only a string body admits (read with `stringsub`: line continuations are removed)
NAME_PARTS = ['a', 'E', '4', '1', 'f', '0', 'c', '5', '-', '_', 'g', '\xe4', '\u20ac', '\u0414', '\u03b4', '\U0001F600', '\x80',
              '\u0100', '\xa0', '\\\\', '\\\\', '\\41', '\\41 ', '\\41\r\n', '\\41\t', '\\41\n', '\\41\f', '\\41\r', '\\5c',
              '\\5C ', '\\5c\\5c', '\\110000 ', '\\d800 ', '\\0 ', '\\g', '\\\xe4', '\\"', '\\ ', '\\000041', '\\0000411',
              '\\1234567', '\\FFFFFF', '\\ffffff\t', '\\E4 ', '\\e4', '\\4', '\\{', '\\\u20ac', '\\\ud800', '\ud800']
STR_ONLY_PARTS = [' ', ' ', "'", '\t', '\x00', '\x7f', '{', ';', '/', '*', '\\\n', '\\\r\n', '\\\r', '\\\f', '\\\n\n'.replace('\n\n', '\n')]
STR_PARTS = NAME_PARTS + STR_ONLY_PARTS * 2
RAW_ALPHA = ESC_ALPHA                 # anything at all (mostly not a token body): exercises escapecss itself


def gen_body(rng, mode):
    parts = NAME_PARTS if mode == 'name' else STR_PARTS
    return ''.join(rng.choice(parts) for _ in range(rng.randint(0, 7)))


def gen_escape_text(rng):
    x = rng.random()
    if x < 0.45:
        return gen_body(rng, 'str')
    if x < 0.8:
        return gen_body(rng, 'name')
    return ''.join(rng.choice(RAW_ALPHA) for _ in range(rng.randint(0, 10)))


def gen_unescape_text(rng):
    """(mode, text)"""
    mode = 'str' if rng.random() < 0.5 else 'name'
    return (mode, gen_body(rng, mode))


def fixed_escape_pairs():
    texts = ['', '\xe4', '\\\xe4', '\\\\\xe4', '\\\\\\\xe4', '\\41\xe4', '\\41 \xe4', 'a\xe4b', '\\4\xe4', '\\\r\xe4',
             '\\41\r\xe4', '\ud800', '\\\ud800', '\U0010ffff', '\x00\xe4', '\xe4\xe4', '\\', '\\\\', '\xe4\\', '\\\n\xe4',
             '\\\r\n\xe4', '\\\r\xe4\n', 'a \xe4']
    return [(t, e) for t in texts for e in TARGETS]


def fixed_unescape_texts():
    base = ['', '\\\\', '\\41', '\\41 ', '\\41  ', '\\41\r\n', '\\41\r', '\\41\rx', '\\41\n\n', '\\\\41', '\\\\\\41',
            '\\5c', '\\5C b', '\\5c\\5c', '\\110000', '\\110000 x', '\\10FFFF', '\\000041', '\\0000411', '\\1234567',
            '\\d800', '\\0', '\\g', '\\\xe4', '\\41\\42', '\\4g', '\\FFFFFF', '\\ffffff\t', 'a\\\nb', 'a\\\r\nb', 'a\\\rb',
            'a\\\fb', 'a\\\r\\\nb', '\\5c\\a ', '\\5c\\\n', '\\\\\\\n', '\\41\r\\\n', '\\a b', '\\d \\a x']
    return [(m, t) for t in base for m in ('name', 'str')]


_tok = [None]


def impl_unescape(cssutils, s, mode):
    """what the tokenizer makes of the text `s` of a token: mode 'name' through an IDENT token `x`+s (read with
    `unicodesub`), mode 'str' through a STRING token "s" (read with `stringsub`). None when `s` is not the body of
    exactly one such token."""
    if _tok[0] is None:
        from cssutils.tokenize2 import Tokenizer
        _tok[0] = Tokenizer()
    text = ('x' + s) if mode == 'name' else ('"' + s + '"')
    try:
        toks = list(_tok[0].tokenize(text))
    except Exception:
        return None
    if len(toks) != 1 or toks[0][0] != ('IDENT' if mode == 'name' else 'STRING'):
        return None
    v = toks[0][1]
    if mode == 'name':
        return v[1:] if v[:1] == 'x' else None
    return v[1:-1] if len(v) >= 2 and v[0] == '"' and v[-1] == '"' else None


_GUARD = re.compile(r'\\\\|\\[0-9a-fA-F]{1,6}(?:\r\n|[\t\r\n\f ])?|\\(.)|\\\Z', re.S)
_GUARD_STR = re.compile(r'\\\\|\\(?:\r\n|[\n\r\f])|\\[0-9a-fA-F]{1,6}(?:\r\n|[\t\r\n\f ])?|\\(.)|\\\Z', re.S)


def py_guard_ok(text, unrep, mode='name'):
    """no character that must be escaped directly follows a backslash that is not itself escaped"""
    for m in (_GUARD if mode == 'name' else _GUARD_STR).finditer(text):
        if m.group(1) is not None and ord(m.group(1)) in unrep:
            return False
    return True


# ---------------------------------------------------------------------------------------------------
# oracle: serialise -> decode -> reparse
IDENT_PARTS = ['a', 'b', 'x1', '\xe4', '\u20ac', '\u0414', '\\\xe4', '\\\\', '\\41 ', '\\e4 ', '-', '_', '\U0001F600']
STR_PARTS = ['a', ' ', '\xe4', '\u20ac', '\u0414', '\\\xe4', '\\\\\xe4', '\\"', '\\41 ', "'", '\\\n', '\ud800', '\u03b4']


def g_ident(rng):
    s = ''.join(rng.choice(IDENT_PARTS) for _ in range(rng.randint(1, 3)))
    if s[0] in '-_' or s[0].isdigit() or s.startswith('x1') and False:
        s = 'a' + s
    return s


def g_str(rng):
    return ''.join(rng.choice(STR_PARTS) for _ in range(rng.randint(0, 4)))


TEMPLATES = [
    '{i}{{{i}:"{s}"}}', '.{i}#{i}[{i}="{s}"]{{x:url({u})}}', '/*{c}*/ a{{b:c}}', '@{i} {i};', '@{i}{{{i}}}',
    '@import "{s2}" {i};', '@namespace {i} "{s}";', '@media {i}{{a{{b:{i}}}}}', '@page :{i}{{margin:0}}',
    '@variables{{{i}:{i}}}a{{b:var({i})}}', 'a{{b:1{i}}}', 'a{{b:{i}(1)}}', 'a{{b:#{i}}}', '@font-face{{font-family:{i}}}',
    'a{{b:"{s}" {i}, url("{s2}")}}', 'a:{i}{{b:c}}', 'a::{i}{{b:c}}', '{i}|a{{b:c}}', 'a{{{i}:c !important}}',
    '@page{{@top-left{{content:"{s}"}}}}', 'a[{i}]{{b:c}} /*{c}*/',
]


def gen_sheet(rng):
    t = rng.choice(TEMPLATES)
    out = []
    for part in re.split(r'(\{i\}|\{s\}|\{s2\}|\{u\}|\{c\})', t):
        if part == '{i}':
            out.append(g_ident(rng))
        elif part == '{s}':
            out.append(g_str(rng))
        elif part == '{s2}':
            out.append(g_str(rng).replace('\n', '').replace('\\', ''))
        elif part == '{u}':
            out.append(g_ident(rng) + '.png')
        elif part == '{c}':
            out.append(g_str(rng).replace('*', ''))
        else:
            out.append(part.replace('{{', '{').replace('}}', '}'))
    return ''.join(out)


def fixed_sheets():
    return ['\xe4{col\xf6r:"\xfc"}', '.\xe4#\xf6[\xfc="\xdf"]{x:url(\xe4.png)}', '/*\xe4*/', '@import "\xe4.css" \xe4;',
            '@namespace \xe4 "\xfc";\xe4|b{x:y}', '@media \xe4{a{b:c}}', '@page :\xe4{margin:0}',
            '@variables{\xe4:\xfc}a{b:var(\xe4)}', 'a{b:1\xe4}', 'a{b:\xe4(1)}', 'a{b:#\xe4}', '@font-face{font-family:\xe4}',
            'a{b:"x\\\n\xe4"}', '@page{@top-left{content:"\xe4"}}', 'a{b:url("\xe4")}', 'a::\xe4{}', 'a:\xe4(\xf6){b:c}',
            'a{b:"\ud800"}', 'a{b:\ud800}', 'a{b:"\\\\\xe4"}', 'a{b:"\u20ac\u0414\U0001F600"}', 'a{b:"\\e4 "}']


def _parser(cssutils):
    return cssutils.CSSParser(fetcher=lambda u: None)


def reparse(cssutils, text, e):
    """serialise in encoding e, decode, reparse; compare with the sheet reparsed from its UTF-8 serialisation"""
    p = _parser(cssutils)
    res = {'status': 'ok', 'escaped': False}
    w = {}
    try:
        s = p.parseString(text)
        if s.cssRules.length and s.cssRules[0].type == s.cssRules[0].CHARSET_RULE:
            s.encoding = None
        base = s.cssText
        # the UTF-8 serialisation: only lone surrogates need escaping there
        base_text = base.decode('utf-8')
        ref = p.parseString(base_text)
        ref_text = ref.cssText
        unrep = unrepresentable(base_text, e)
        res['escaped'] = bool(unrep)
        cssutils.log.raiseExceptions = True
        s.encoding = e
        if s.encoding != e.lower():
            return dict(res, status='encoding-not-set', clause='the encoding that was set is the encoding reported',
                        detail={'reported': s.encoding})
        b = s.cssText
    except Exception as x:
        return dict(res, status='raise', clause='serialising never raises because of characters the encoding cannot represent',
                    detail={'error': repr(x)})
    finally:
        cssutils.log.raiseExceptions = True
    try:
        d = b.decode(s.encoding)
    except UnicodeDecodeError as x:
        return dict(res, status='undecodable', clause='the serialised bytes decode in the sheet encoding',
                    detail={'bytes': b.hex(), 'error': str(x)})
    try:
        s2 = p.parseString(d)
        if s2.encoding != e.lower():
            return dict(res, status='encoding-lost', clause='the reparsed sheet reports the same encoding',
                        detail={'reported': s2.encoding, 'bytes': b.hex()})
        s2.encoding = None
        got = s2.cssText
    except Exception as x:
        return dict(res, status='raise-reparse', clause='the decoded serialisation parses', detail={'error': repr(x), 'text': d})
    finally:
        cssutils.log.raiseExceptions = True
    if got == ref_text:
        return res
    # attribute to the known regions
    kf = None
    from cssutils.tokenize2 import Tokenizer
    toks = list(Tokenizer().tokenize(base_text, fullsheet=True))
    if not py_guard_ok(base_text, unrep):
        kf = 'C08-escaped-unrepresentable'
    elif any(t[0] == 'ATKEYWORD' and any(ord(ch) in unrep for ch in t[1]) for t in toks):
        kf = 'C08-atkeyword-escape'
    elif any(t[0] == 'COMMENT' and any(ord(ch) in unrep for ch in t[1]) for t in toks):
        kf = 'C08-comment-unencodable'
    return dict(res, status='diff', known=kf, clause='decoding and reparsing the serialisation gives back the same DOM',
                detail={'utf8': ref_text.decode('utf-8'), 'serialised': d, 'reparsed': got.decode('utf-8')})


# ---------------------------------------------------------------------------------------------------
def known_still_fails(cssutils, finding):
    fid = finding['id']
    w = finding['witness']['data']
    if fid == 'C08-escaped-unrepresentable':
        r = reparse(cssutils, w['text'], w['encoding'])
        return r['status'] == 'diff'
    if fid == 'C08-comment-unencodable':
        r = reparse(cssutils, w['text'], w['encoding'])
        return r['status'] == 'diff' and r.get('known') == fid
    if fid == 'C08-atkeyword-escape':
        r = reparse(cssutils, w['text'], w['encoding'])
        return r['status'] == 'diff'
    if fid == 'C08-nontext-codec':
        try:
            s = _parser(cssutils).parseString(w['text'])
            s.cssText
            return False
        except LookupError:
            return True
        finally:
            cssutils.log.raiseExceptions = True
    return True
