"""C17: adapter around the implementation — runs one history on the real MediaList and renders, step by step,
the request line for the model driver together with the reply the model has to give."""
import re

from lib.framework import enc, dec

VALUE_TYPES_NUM = ('DIMENSION', 'NUMBER', 'PERCENTAGE')
VALUE_TYPES_OTHER = ('IDENT', 'STRING', 'UNICODE-RANGE', 'HASH')


class Impl:
    def __init__(self):
        import cssutils
        import cssutils.tokenize2
        from cssutils.stylesheets import MediaList, MediaQuery
        self.cssutils = cssutils
        self.MediaList = MediaList
        self.MediaQuery = MediaQuery
        self.tokenizer = cssutils.tokenize2.Tokenizer()
        import logging
        cssutils.log.setLevel(logging.FATAL)
        self.parser = cssutils.CSSParser(fetcher=lambda url: (None, ''))
        # comments off: the sheet tokenizer drops the comments and leaves runs of S tokens in the token lists
        self.parser_nc = cssutils.CSSParser(fetcher=lambda url: (None, ''), parseComments=False)
        self._vtext = {}
        self.captured = None
        self._install_capture()

    # -- tokens -----------------------------------------------------------------------------------
    def tokenize(self, text):
        """what ProdParser._texttotokens makes of a string"""
        return [(t[0], t[1]) for t in self.tokenizer.tokenize(text.strip())]

    def vtext(self, tok):
        """cssText of the value object the media-query grammar builds from this single token, computed with the
        stand-alone value classes (not through the media code)"""
        k = (tok[0], tok[1])
        if k in self._vtext:
            return self._vtext[k]
        from cssutils.css import value
        log = self.cssutils.log
        old = log.raiseExceptions
        log.raiseExceptions = False
        r = ''
        try:
            if tok[0] in VALUE_TYPES_NUM:
                r = value.DimensionValue([(tok[0], tok[1], 1, 1)]).cssText
            elif tok[0] in VALUE_TYPES_OTHER:
                r = value.Value([(tok[0], tok[1], 1, 1)]).cssText
        except Exception:
            r = ''
        finally:
            log.raiseExceptions = old
        self._vtext[k] = r
        return r

    def enc_toks(self, toks):
        if not toks:
            return '_'
        return ','.join('%s/%s/%s' % (t[0], enc(t[1]), enc(self.vtext(t))) for t in toks)

    def enc_medium(self, text):
        return '!' if text == '' else self.enc_toks(self.tokenize(text))

    def tok_key(self, t):
        if t[0] in VALUE_TYPES_NUM or t[0] in ('STRING', 'UNICODE-RANGE', 'HASH'):
            return ('V', self.vtext(t))
        return (t[0], t[1])

    # -- capture of the token lists the owner rules hand to MediaList._setMediaText ------------------
    def _install_capture(self):
        ML = self.MediaList
        orig_set = ML._setMediaText
        me = self

        def wrapped(self_, mediaText):
            if me.captured is not None and isinstance(mediaText, list):
                toks = [(t[0], t[1]) for t in mediaText]
                r = orig_set(self_, mediaText)
                me.captured.append((self_, toks))
                return r
            return orig_set(self_, mediaText)
        ML._setMediaText = wrapped
        ML.mediaText = property(ML._getMediaText, wrapped, doc=ML.mediaText.__doc__)

    # -- observation ------------------------------------------------------------------------------
    def obs(self, ml):
        try:
            text = ml.mediaText
            qs = [m for m in ml]
            kinds = ['Q' if isinstance(i.value, self.MediaQuery) else 'C' for i in ml.seq]
            toks = [t for t in self.tokenize(text) if t[0] != 'S']
            return ('wf=%d length=%d len=%d text=%s types=%s q=%s items=%s toks=%s' % (
                bool(ml.wellformed), ml.length, len(ml), enc(text),
                ';'.join(enc(q.value.mediaType) for q in qs) or '_',
                ';'.join(enc(q.value.mediaText) for q in qs) or '_',
                ','.join(kinds) or '_',
                ','.join('%s/%s' % (t[0], enc(t[1])) for t in toks) or '_'))
        except Exception as e:     # an observation must not raise
            return 'EXC:%s' % type(e).__name__

    def call(self, raising, f):
        log = self.cssutils.log
        old = log.raiseExceptions
        log.raiseExceptions = raising
        try:
            r = f()
            return 'ret:%s' % (r,)
        except Exception as e:
            return 'raised:%s' % type(e).__name__
        finally:
            log.raiseExceptions = old

    # -- one history ------------------------------------------------------------------------------
    def start(self, h):
        """returns (ml, [(line, reply)]) or (None, []) when the context never built a media list"""
        r = int(h.raising)
        if h.context == 'alone':
            ml = self.MediaList()
            steps = [('new', self.obs(ml))]

            def f():
                ml.mediaText = h.start
            out = self.call(h.raising, f)
            steps.append(('set %d 1 %s' % (r, self.enc_toks(self.tokenize(h.start))), out + ' # ' + self.obs(ml)))
            return ml, steps
        css = ('@media %s {a{b:c}}' if h.context.startswith('media') else '@import "x" %s;') % h.start
        self.captured = []
        try:
            (self.parser_nc if h.context.endswith('-nc') else self.parser).parseString(css)
            cap = self.captured
        finally:
            self.captured = None
        if len(cap) != 1:
            return None, []
        ml, toks = cap[0]
        return ml, [('new', None), ('set 0 0 %s' % self.enc_toks(toks), 'ret:None # ' + self.obs(ml))]

    def apply(self, ml, raising, op):
        """apply one edit to the real list; returns (request line, outcome)"""
        r = int(raising)
        k = op[0]
        if k == 'set':
            def f():
                ml.mediaText = op[1]
            return 'set %d 1 %s' % (r, self.enc_toks(self.tokenize(op[1]))), self.call(raising, f)
        if k == 'append':
            return 'append %d %s' % (r, self.enc_medium(op[1])), self.call(raising, lambda: ml.appendMedium(op[1]))
        if k == 'delete':
            return 'delete %d %s' % (r, enc(op[1])), self.call(raising, lambda: ml.deleteMedium(op[1]))
        if k == 'setitem':
            def f():
                ml[op[1]] = op[2]
            return 'setitem %d %d %s' % (r, op[1], self.enc_medium(op[2])), self.call(raising, f)
        if k == 'item':
            out = self.call(raising, lambda: ml.item(op[1]))
            if out.startswith('ret:') and out != 'ret:None':
                out = 'ret:' + enc(out[4:])
            return 'item %d' % op[1], out
        raise ValueError(op)

    def run_history(self, h):
        ml, steps = self.start(h)
        if ml is None:
            return []
        for op in h.ops:
            line, out = self.apply(ml, h.raising, op)
            steps.append((line, out if op[0] == 'item' else out + ' # ' + self.obs(ml)))
        return steps

    # -- comparison of a reply ----------------------------------------------------------------------
    def same_reply(self, want, got):
        if want is None:
            return True, ''
        if want == got:
            return True, ''
        w, g = want.split(' # '), got.split(' # ')
        if len(w) != len(g):
            return False, 'shape'
        if w[0] != g[0]:
            return False, 'outcome'
        if len(w) == 1:
            return False, 'outcome'
        fw, fg = _fields(w[1]), _fields(g[1])
        if fw is None or fg is None:
            return False, 'observation'
        for k in ('wf', 'length', 'len', 'text', 'types', 'q', 'items'):
            if fw.get(k) != fg.get(k):
                return False, k
        if self._tok_keys(fw.get('toks')) != self._tok_keys(fg.get('toks')):
            return False, 'toks'
        return True, ''

    def _tok_keys(self, w):
        if w in (None, '_'):
            return []
        out = []
        for x in w.split(','):
            t, v = x.split('/')
            out.append(self.tok_key((t, dec(v))))
        return out


def _fields(s):
    if s.startswith('EXC'):
        return None
    d = {}
    for part in s.split(' '):
        k, _, v = part.partition('=')
        d[k] = v
    return d
