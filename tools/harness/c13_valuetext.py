"""C13, wave 3 — the value text handed to validation (`Property.value`) as a function of the value's tokens.

model:   lean/CssVerif/Model/ValueText.lean (`parseValue`, `valueText`), driver request `vt`
theorem: Props/C13.lean `value_text_gap_invariant`, `verdict_gap_invariant`

correspondence `vt`: a value is put together from pieces — components (terms of all eight term productions,
the two operators, `;`, tokens no production takes, INVALID) and gap pieces (white space of every form, comments,
nothing) —, tokenized by the real tokenizer (the token classes sent to the model are the ones the real tokenizer
produces for the whole text, checked against the pieces), parsed by the real `PropertyValue`; the item list
(types, texts) and `PropertyValue.value` / `Property.value` under several serializer preferences are compared with
the model's. What a term production makes of its tokens (item type, `cssText`, `wellformed`) is measured on the
implementation on the component alone — so the stream also checks that a component's item does not depend on
its neighbours.

oracle (implementation only): the same components with different gap fillings give the same `Property.value`,
also through a parser with `parseComments=False` (S tokens in a row).
"""
import re

from lib.framework import enc, time_limit

TERMS = ['a', 'red', '-x', 'Inherit', 'a\\ b', '"s t"', "'q'", '""', 'url(x)', 'url( "a b" )', 'URL(y)', 'U+1-2', 'u+0??',
         '#abc', '#AABBCC', '#a1B2c3', '1.50px', '.5em', '0.0', '50%', '+1', '-0', '0px', '-.25', '1e3', '007',
         'calc(1px + 2px)', 'var(x)', 'foo(1,2)', 'rgb(1,2,3)', 'rgb(1, /*c*/ 2, 3)', 'rgba(1,2,3,.5)',
         'expression(a)', 'rect(1px,2px,3px,4px)', 'counter(x, disc)', 'hsl(1,2%,3%)', 'attr(x)', 'foo()',
         'local("a b")', 'format( "x" )', 'f(g(1) , h(2))', 'RGB(1 , 2 , 3)', 'steps(2,  start)']
# terms whose nested parser refuses them (item.value.wellformed is False)
BAD_TERMS = ['rgb(1,2;3)', 'calc(1px +)', 'var()', 'rgb(1,,2)']
OTHERS = ['}', ')', '!', '+', ':', '#ab', '=', '@x', ']', '(', '{', '[', '*', '|=', '<!--', '#abcd', '-']
INVALID = ['"ab\n', "'c\n"]
GAPS = ['', ' ', '  ', '\t', '\n', '\r\n', ' \f', '/**/', '/*c*/', ' /*c*/', '/*c*/ ', ' /*c*/ ', ' /* a b */ ',
        '/*1*//*2*/', ' /*1*/ /*2*/ ', '/*1*/ /*2*/', '\n/**/\n', ' /***/ ', '/*,*/', '/*;*/ ']

PREFS = [('default', {}),
         ('nospacer', {'spacer': '', 'listItemSpacer': ''}),
         ('wide', {'spacer': '  ', 'listItemSpacer': ' '}),
         ('minified', 'minified'),
         ('odd', {'listItemSpacer': '\n', 'keepComments': False, 'minimizeColorHash': True})]
PREF_FIELDS = ('spacer', 'listItemSpacer', 'lineSeparator', 'propertyNameSpacer', 'paranthesisSpacer',
               'selectorCombinatorSpacer', 'indent')
PREF_FLAGS = ('keepComments', 'minimizeColorHash', 'indentClosingBrace')


class ValueTextMixin:

    def vt_tokens(self, text):
        from cssutils.tokenize2 import Tokenizer
        with time_limit(5):
            return [(t[0], t[1]) for t in Tokenizer().tokenize(text)]

    @staticmethod
    def vt_merge(toks):
        out = []
        for t in toks:
            if t[0] == 'S' and out and out[-1][0] == 'S':
                out[-1] = ('S', out[-1][1] + t[1])
                continue
            out.append(t)
        return out

    def vt_measure(self, text):
        """(type, cssText, wellformed) of the item the term production makes of `text`, measured alone under the
        current preferences; None if `text` alone is not one term"""
        pv = self.cu.css.PropertyValue()
        with time_limit(5):
            ok, seq, store, unused = self.cu.prodparser.ProdParser().parse(
                text, 'PropertyValue', self.vt_term_grammar(pv))
        items = [i for i in seq] if seq else []
        if len(items) != 1 or not isinstance(items[0].type, str):
            return None
        v = items[0].value
        return items[0].type, v.cssText, bool(getattr(v, 'wellformed', True))

    def vt_term_grammar(self, pv):
        """the term alternative of `PropertyValue._setCssText`, from the live module (one term, no operator)"""
        V = self.cu.css.value
        from cssutils.prodparser import Choice, Sequence
        return Sequence(Choice(V._ColorProd(pv, ',/'), V._DimensionProd(pv, ',/'), V._URIProd(pv, ',/'),
                               V._ValueProd(pv, ',/'), V._CSSVariableProd(pv, ',/'), V._MSValueProd(pv, ',/'),
                               V._CalcValueProd(pv, ',/'), V._CSSFunctionProd(pv, ',/')))

    def vt_pieces(self, rng, n_max):
        """a random value as pieces [(kind, text)], mostly well-formed"""
        pieces = [('gap', rng.choice(GAPS))] if rng.random() < 0.3 else []
        n = rng.randint(1, n_max)
        weird = rng.random() < 0.25
        for k in range(n):
            r = rng.random()
            if weird and r < 0.12:
                pieces.append(('other', rng.choice(OTHERS)))
            elif weird and r < 0.17:
                pieces.append(('invalid', rng.choice(INVALID)))
            elif weird and r < 0.24:
                pieces.append(('semi', ';'))
            elif weird and r < 0.32:
                pieces.append(('op', rng.choice(',/')))
            elif weird and r < 0.38:
                pieces.append(('term', rng.choice(BAD_TERMS)))
            else:
                pieces.append(('term', rng.choice(TERMS)))
            if k < n - 1:
                g = rng.choice(GAPS) if rng.random() < 0.8 else rng.choice(GAPS) + rng.choice(GAPS)
                if rng.random() < 0.35:
                    pieces.append(('gap', g))
                    pieces.append(('op', rng.choice(',/')))
                    g = rng.choice(GAPS)
                pieces.append(('gap', g))
        if rng.random() < 0.3:
            pieces.append(('gap', rng.choice(GAPS)))
            if weird and rng.random() < 0.3:
                pieces.append(('op', ','))
        return pieces

    def vt_fill(self, comps, rng):
        """the components `comps` with fresh gap material between them (never empty between two components whose
        texts would fuse into other tokens)"""
        out = []
        for i, c in enumerate(comps):
            if i or rng.random() < 0.3:
                g = rng.choice(GAPS[1:]) if rng.random() < 0.85 else rng.choice(GAPS[1:]) + rng.choice(GAPS)
                out.append(('gap', g))
            out.append(c)
        if rng.random() < 0.3:
            out.append(('gap', rng.choice(GAPS)))
        return out

    def vt_classify(self, pieces, cache):
        """VTok words for the pieces, or None when the real tokenizer does not cut the text at the piece
        boundaries (two pieces fuse) — then the case is not one of the model's"""
        text = ''.join(t for _, t in pieces)
        whole = self.vt_tokens(text)
        words, types = [], []
        for kind, t in pieces:
            toks = self.vt_tokens(t) if t else []
            types += toks
            if kind == 'gap':
                for ty, val in toks:
                    if ty == 'S':
                        words.append('S')
                    elif ty == 'COMMENT':
                        words.append('C/' + enc(val))
                    else:
                        return None
            elif kind == 'op':
                words.append('O/%d' % ord(t))
            elif kind == 'semi':
                words.append('E')
            elif kind == 'other':
                words.append('X')
            elif kind == 'invalid':
                words.append('I')
                if len(toks) > 1:
                    words.append('S')
            else:
                if t not in cache:
                    cache[t] = self.vt_measure(t)
                m = cache[t]
                if m is None:
                    return None
                words.append('T/%s/%s/%d' % (enc(m[0]), enc(m[1]), 1 if m[2] else 0))
        if self.vt_merge(whole) != self.vt_merge(types):
            return None
        # adjacent S of neighbouring pieces are one S token of the real stream
        merged = []
        for w in words:
            if w == 'S' and merged and merged[-1] == 'S':
                continue
            merged.append(w)
        return text, merged

    def vt_observe(self, text, via='PropertyValue'):
        """('bad',) or ('ok', items, value) of the implementation"""
        with time_limit(10):
            if via == 'PropertyValue':
                pv = self.cu.css.PropertyValue(text)
            else:
                parser = self.cu.CSSParser(parseComments=False, raiseExceptions=False, loglevel=60)
                sheet = parser.parseString('a{top:' + text + '}')
                ps = sheet.cssRules[0].style.getProperties(all=True) if sheet.cssRules.length == 1 else []
                if len(ps) != 1:
                    return ('bad',)
                pv = ps[0].propertyValue
            if not pv.wellformed:
                return ('bad',)
            items = []
            for i in pv.seq:
                if i.type is self.cu.css.CSSComment:
                    items.append('c:' + enc(i.value._cssText))   # (cssText depends on keepComments)
                elif i.type == 'operator':
                    items.append('o:%d' % ord(i.value))
                else:
                    items.append('t:%s:%s' % (enc(i.type), enc(i.value.cssText)))
            return ('ok', ','.join(items) or 'E', pv.value)

    def vt_prefs_words(self):
        pr = self.cu.ser.prefs
        return ' '.join([enc(getattr(pr, f)) for f in PREF_FIELDS] +
                        [''.join('1' if getattr(pr, f) else '0' for f in PREF_FLAGS)])

    TERM_PRODS = ['ColorValue', 'Dimension', 'URIValue', 'Value', 'variable', 'MSValue', 'CSSCalc', 'function']

    def vt_grammar_shape(self):
        """the production tree `PropertyValue._setCssText` hands to `ProdParser.parse`, captured from the live
        code, as nested tuples (names, optional / nextSor / mayEnd / stop / stopAndKeep / `toSeq is False` /
        stopIfNoMoreMatch, min / max)"""
        pp = self.cu.prodparser
        cap = []
        orig = pp.ProdParser.parse

        def spy(this, text, name, productions, *a, **k):
            if name == 'PropertyValue':
                cap.append(productions)
            return orig(this, text, name, productions, *a, **k)
        pp.ProdParser.parse = spy
        try:
            self.cu.css.PropertyValue('a')
        finally:
            pp.ProdParser.parse = orig

        def show(n):
            if isinstance(n, pp.Prod):
                return ('prod', n._name, bool(n.optional), bool(n.nextSor), bool(n.mayEnd), bool(n.stop),
                        bool(n.stopAndKeep), n.toSeq is False, bool(n.stopIfNoMoreMatch))
            kids = [show(k) for k in n._prods]
            if isinstance(n, pp.Sequence):
                return ('Sequence', bool(n.optional), n._min, n._max if n._max < 10 ** 9 else None, kids)
            return ('Choice', bool(n.optional), kids)
        return show(cap[0]) if cap else None

    def vt_expected_shape(self):
        """the grammar the automaton `gstep` of Model/ValueText.lean is derived from"""
        term = ('Choice', False, [('prod', n, False, True, False, False, False, False, False) for n in self.TERM_PRODS])
        operator = ('Choice', True, [('prod', 'whitespace', False, False, True, False, False, True, False),
                                    ('prod', 'comma', True, False, False, False, False, False, False),
                                    ('prod', 'slash', True, False, False, False, False, False, False)])
        end = ('prod', 'END', True, False, False, False, True, False, False)
        return ('Sequence', False, 1, 1, [term, ('Sequence', True, 0, None, [operator, end, term])])

    def corr_value_text(self, ctx):
        got, exp = self.vt_grammar_shape(), self.vt_expected_shape()
        ctx.notes['value_grammar_shape_matches'] = got == exp
        if got != exp:
            ctx.disagree('value grammar shape (PropertyValue._setCssText productions vs. the grammar gstep is '
                         'derived from)', {'captured': repr(got)[:2000]}, repr(got)[:600], repr(exp)[:600])
        rng = self.rng(ctx, 'valuetext')
        n = ctx.n(900, 14000)
        cases = []
        for k in range(n):
            pieces = self.vt_pieces(rng, 5 if k % 7 else 9)
            cases.append((pieces, 'generated'))
            if k % 3 == 0:
                comps = [p for p in pieces if p[0] != 'gap']
                cases.append((self.vt_fill(comps, rng), 'refilled'))
        fixed = ['a b', 'a/**/b', 'a /*c*/b', 'a /*c*/ , b', 'a , /*c*/ b', 'a,', 'a ', '/*x*/ a /*y*/', 'a,,b', ', a',
                 'a;b', 'a,;b', ';', '', '/*c*/', ' ', 'a ,/**/ , b', 'a/**/,b', 'a /*c*/ / b', '1px#fff', 'a } b']
        lines, exps, metas = [], [], []
        skipped = 0
        by_comps = {}
        seen = set()
        for label, setting in PREFS:
            with self.prefs(setting):
                cache = {}
                pw = self.vt_prefs_words()
                todo = list(cases) if label == 'default' else cases[:: 4]
                if label == 'default':
                    todo += [([('raw', f)], 'fixed') for f in fixed]
                for pieces, kind in todo:
                    if kind == 'fixed':
                        got = self.vt_fixed(pieces[0][1], cache)
                    else:
                        got = self.vt_classify(pieces, cache)
                    if got is None:
                        skipped += 1
                        continue
                    text, words = got
                    if (label, text) in seen:
                        continue
                    seen.add((label, text))
                    obs = self.vt_observe(text)
                    exp = 'bad' if obs[0] == 'bad' else 'ok %s %s' % (obs[1], enc(obs[2]))
                    lines.append('vt 0 %s %s' % (pw, ' '.join(words)))
                    exps.append(exp)
                    metas.append((label, text))
                    ctx.case(('vt', label, text), nontrivial=obs[0] == 'ok' and len(words) > 1, sample=text,
                             kind='valuetext/%s/%s' % (kind, label))
                    # Property.value is PropertyValue.value (property.py:294-297)
                    if obs[0] == 'ok' and kind != 'fixed':
                        with time_limit(10):
                            p = self.cu.css.Property('top', text)
                        if p.value != obs[2]:
                            ctx.violate('Property.value is the comment-free serialisation of its PropertyValue',
                                        {'value': text, 'preferences': label},
                                        {'Property.value': p.value, 'PropertyValue.value': obs[2]})
                    # oracle: gap placement does not matter (implementation only)
                    if kind != 'fixed':
                        key = (label, tuple(p for p in pieces if p[0] != 'gap'))
                        o = obs[2] if obs[0] == 'ok' else None
                        if key in by_comps and by_comps[key][1] != o:
                            pa, pb = self.vt_shrink_pair(by_comps[key][2], pieces)
                            ta, tb = (''.join(t for _, t in x) for x in (pa, pb))
                            ctx.violate('Property.value does not depend on comment / white-space placement between '
                                        'components', {'value_a': ta, 'value_b': tb, 'preferences': label},
                                        {'a': self.vt_value(ta), 'b': self.vt_value(tb)})
                        by_comps.setdefault(key, (text, o, pieces))
                        # S tokens in a row: the same text through a parser that drops comments in the tokenizer
                        if label == 'default' and '/*' in text and ';' not in text and '}' not in text \
                                and '{' not in text and not any(k_ in ('invalid', 'other') or (k_ == 'term' and '/*' in t)
                                                                for k_, t in pieces):
                            obs2 = self.vt_observe(text, via='parseComments=False')
                            words2 = [w for w in words if not w.startswith('C/')]
                            exp2 = 'bad' if obs2[0] == 'bad' else 'ok %s %s' % (obs2[1], enc(obs2[2]))
                            lines.append('vt 0 %s %s' % (pw, ' '.join(words2)))
                            exps.append(exp2)
                            metas.append((label + '/parseComments=False', text))
                            o2 = obs2[2] if obs2[0] == 'ok' else None
                            if o2 != o and not ('!' in text or '@' in text or '<!--' in text):
                                ctx.violate('Property.value does not depend on comment / white-space placement '
                                            'between components', {'value': text, 'parser': 'parseComments=False'},
                                            {'with_comments': o, 'comments_dropped_by_tokenizer': o2})
        ctx.notes['valuetext'] = {'requests': len(lines), 'pieces_fused_not_sent': skipped}
        out = self.drive(ctx, lines) if ctx.model_ok and lines else [None] * len(lines)
        for l, e, o, m in zip(lines, exps, out, metas):
            if o is not None and o != e:
                ctx.disagree('vt', {'request': l, 'preferences': m[0], 'value': m[1]}, e, o)

    def vt_value(self, text, via='PropertyValue'):
        obs = self.vt_observe(text, via)
        return obs[2] if obs[0] == 'ok' else None

    @staticmethod
    def vt_groups(pieces):
        """[(gap text before, component)] + trailing gap text"""
        groups, gap = [], ''
        for k, t in pieces:
            if k == 'gap':
                gap += t
            else:
                groups.append((gap, (k, t)))
                gap = ''
        return groups, gap

    def vt_shrink_pair(self, pa, pb):
        """two fillings of the same components with different value texts: drop components (from both) and gap
        material while the two texts still differ"""
        ga, ea = self.vt_groups(pa)
        gb, eb = self.vt_groups(pb)

        def build(groups, end):
            out = []
            for g, c in groups:
                if g:
                    out.append(('gap', g))
                out.append(c)
            if end:
                out.append(('gap', end))
            return out

        def differ(ga, ea, gb, eb):
            ta = ''.join(t for _, t in build(ga, ea))
            tb = ''.join(t for _, t in build(gb, eb))
            try:
                # the two texts must still have the same components according to the real tokenizer
                ca = [x for x in self.vt_tokens(ta) if x[0] not in ('S', 'COMMENT')]
                cb = [x for x in self.vt_tokens(tb) if x[0] not in ('S', 'COMMENT')]
                return ca == cb and self.vt_value(ta) != self.vt_value(tb)
            except Exception:
                return False

        if len(ga) != len(gb) or not differ(ga, ea, gb, eb):
            return pa, pb
        changed = True
        while changed:
            changed = False
            for i in range(len(ga)):
                na, nb = ga[:i] + ga[i + 1:], gb[:i] + gb[i + 1:]
                if na and differ(na, ea, nb, eb):
                    ga, gb, changed = na, nb, True
                    break
            for side in (0, 1):
                for end in ('', None):
                    if end is None:
                        continue
                    if side == 0 and ea and differ(ga, '', gb, eb):
                        ea, changed = '', True
                    if side == 1 and eb and differ(ga, ea, gb, ''):
                        eb, changed = '', True
            for i in range(len(ga)):
                for simple in ('', ' '):
                    if ga[i][0] not in ('', ' ') and differ(ga[:i] + [(simple, ga[i][1])] + ga[i + 1:], ea, gb, eb):
                        ga, changed = ga[:i] + [(simple, ga[i][1])] + ga[i + 1:], True
                    if gb[i][0] not in ('', ' ') and differ(ga, ea, gb[:i] + [(simple, gb[i][1])] + gb[i + 1:], eb):
                        gb, changed = gb[:i] + [(simple, gb[i][1])] + gb[i + 1:], True
        return build(ga, ea), build(gb, eb)

    def vt_replay(self, ctx, clause, w):
        """replay of a violation reported by `corr_value_text`; True if the witness is one of this stream"""
        if 'value_a' in w and 'value_b' in w:
            setting = dict(PREFS).get(w.get('preferences', 'default'), {})
            with self.prefs(setting):
                a, b = self.vt_value(w['value_a']), self.vt_value(w['value_b'])
            if a != b:
                ctx.violate(clause, w, {'a': a, 'b': b})
            return True
        if 'value' in w and w.get('parser') == 'parseComments=False':
            a, b = self.vt_value(w['value']), self.vt_value(w['value'], via='parseComments=False')
            if a != b:
                ctx.violate(clause, w, {'with_comments': a, 'comments_dropped_by_tokenizer': b})
            return True
        if 'value' in w and 'preferences' in w and len(w) == 2:
            setting = dict(PREFS).get(w['preferences'], {})
            with self.prefs(setting):
                a = self.vt_value(w['value'])
                with time_limit(10):
                    b = self.cu.css.Property('top', w['value']).value
            if a is not None and a != b:
                ctx.violate(clause, w, {'Property.value': b, 'PropertyValue.value': a})
            return True
        return False

    def oracle_vtab_direct(self, ctx):
        """U+000B is not CSS white space: a colour with it inside rgb() is no CSS 2.1 value. Direct validate calls
        accept it (known finding C13-vtab-whitespace-direct, region = direct call + U+000B in the value); a parsed
        declaration must never be valid with it"""
        clause = 'for keyword-list and single-type properties the verdict agrees with the CSS 2.1 grammar'
        for name in ('color', 'background-color', 'border-top-color', 'outline-color'):
            for v in ('rgb(\x0b1,2,3)', 'rgb(1,\x0b2,3)', 'rgb(1%,2%,3%\x0b)', 'rgb(1\x0b,2,3)'):
                ctx.case(('vtab', name, v), nontrivial=True, sample=None, kind='vtab/direct')
                if self.P.validate(name, v):
                    ctx.violate(clause, {'call': 'cssutils.profile.validate', 'property': name, 'value': v},
                                {'css21_grammar_member': False}, known='C13-vtab-whitespace-direct')
                sheet = self.parse('a{%s:%s}' % (name, v))
                ps = [p for r in sheet if hasattr(r, 'style') for p in r.style.getProperties(all=True)]
                ctx.case(('vtab-parsed', name, v), nontrivial=False, kind='vtab/parsed')
                if any(p.valid for p in ps):
                    ctx.violate(clause, {'css': 'a{%s:%s}' % (name, v), 'property': name, 'value': v},
                                {'css21_grammar_member': False})

    def vt_fixed(self, text, cache):
        """a fixed text cut into pieces with the real tokenizer (simple tokens only)"""
        pieces = []
        for ty, val in self.vt_tokens(text):
            if ty in ('S', 'COMMENT'):
                pieces.append(('gap', val))
            elif ty == 'CHAR' and val in ',/':
                pieces.append(('op', val))
            elif ty == 'CHAR' and val == ';':
                pieces.append(('semi', val))
            elif ty in ('IDENT', 'STRING', 'UNICODE-RANGE', 'DIMENSION', 'NUMBER', 'PERCENTAGE', 'URI') or \
                    (ty == 'HASH' and re.match(r'^#(?:[0-9a-fA-F]{3}|[0-9a-fA-F]{6})$', val)):
                pieces.append(('term', val))
            elif ty == 'INVALID':
                pieces.append(('invalid', val))
            else:
                pieces.append(('other', val))
        got = self.vt_classify(pieces, cache)
        if got is None:
            return None
        return text, got[1]
