"""C17 — media lists are canonical ordered sets; media queries survive intact.

model:    lean/CssVerif/Model/Media.lean (derived parsers, edit operations, serialisation)
          lean/CssVerif/Model/ProdEngine.lean (generic engine of prodparser.py on the captured grammars)
theorems: lean/CssVerif/Props/C17.lean
          lean/CssVerif/Lemmas/MediaSim*.lean (proof that the two agree: T17.6)
tie:      * translator tools/gen/c17_media.py (MEDIA_TYPES, keyword sets; the two grammar trees as captured from the
            live objects) -> lean/CssVerif/Gen/C17Media.lean, C17Grammar.lean
          * correspondence: implementation vs model on histories of mediaText= / appendMedium / deleteMedium /
            item assignment / item(), stand-alone and on the lists owned by @media / @import rules; observables
            wellformed, length, len, mediaText, iteration (mediaType per query), per-query mediaText, kinds of the
            items, the tokens of mediaText; outcome of each call (return value / exception class)
oracle (implementation only, independent of the model): see harness/c17_oracle.py
"""
import logging
import os

from lib.framework import Check, enc, time_limit

from harness import c17_gen as G
from harness import c17_oracle as O
from harness import c17_setter as S
from harness.c17_impl import Impl

KNOWN_IDS = ()      # no finding open (C17-missing-handback fixed by ed45313)


class C17(Check):
    id = 'C17'
    props_module = 'CssVerif.Props.C17'
    driver_exe = 'drv_c17'
    extra_modules = ('CssVerif.Lemmas.MediaEngine',)
    sources = ('cssutils/stylesheets/medialist.py', 'cssutils/stylesheets/mediaquery.py', 'cssutils/prodparser.py',
               'cssutils/serialize.py', 'cssutils/css/cssmediarule.py', 'cssutils/css/cssimportrule.py',
               'cssutils/css/value.py', 'cssutils/util.py', 'cssutils/helper.py')
    trusted_base = (
        'hand-written model lean/CssVerif/Model/Media.lean of MediaList / MediaQuery (parse automata, parse-time '
        'filter, appendMedium, deleteMedium, __setitem__, item, the mediaType setter, serialisation), tied to the code by the '
        'differential correspondence of this run (implementation vs model on generated edit histories)',
        'translator tools/gen/c17_media.py (MEDIA_TYPES, keyword sets and the two literals of the mediaType setter read '
        'from the source with ast)',
        'translator tools/gen/c17_grammar.py (production trees captured from the live MediaList / MediaQuery objects; the '
        'match lambdas are opaque and tied by a probe battery) and the transcription of ProdParser.parse into '
        'lean/CssVerif/Model/ProdEngine.lean: that the engine on the captured trees equals the derived automata is a '
        'theorem (T17.6, every token list of the token domain A1), no longer a differential',
        'the tokenizer (property C05) and the serialisation of single values (property C18): tokens and the text of '
        'a value token are inputs of the model',
    )
    assumptions = (
        'A1: tokens come from cssutils.tokenize2 without fullsheet mode: no EOF token, a token with value ( : ) or , '
        'has type CHAR (the model answers `unsupported` otherwise)',
        'A2: str.lower() = ASCII case folding on the compared keywords (no media type / keyword contains k or i '
        'reachable from a non-ASCII letter)',
        'A3: prodparser.savedTokens is empty when a media list / query is parsed (C12)',
        'A4: colour functions rgb( rgba( hsl( hsla( in value position are outside the model (oracle only)',
        'A5: default serializer preferences',
    )
    rule = ('histories: a start text (query ASTs over the ten media types rendered with independent spelling: case, '
            'simple escapes, white space, comments at every gap; a malformed stream made by token deletion / '
            'duplication / swap / insertion; boundary texts) followed by 0-8 edit operations drawn with bias to the '
            'media types present; each history stand-alone in log mode and raise mode, and with the start text as the '
            'media list of an @media and an @import rule, parsed with comments and with parseComments=False (the sheet tokenizer drops the comments, the token lists then hold runs of S tokens). non-trivial = distinct (start text, operations) whose '
            'start list is well-formed or whose text has at least two tokens. setter stream: (query text, media type, '
            'error mode) with the query from the same AST generator (comments at every gap, 10 % mutated) and the type '
            'one of the ten in varied case / with simple escapes (85 %) or an unknown string; non-trivial = the query is '
            'well-formed')

    # ------------------------------------------------------------------------------------------
    def translate(self, ctx):
        from gen import c17_media, c17_grammar
        files, info = c17_media.generate(ctx.repo)
        ctx.notes['gen'] = {k: v for k, v in info.items() if k != 'sha'}
        files2, _ = c17_grammar.generate(ctx.repo)
        files.update(files2)
        return files

    def run(self, ctx):
        logging.getLogger('CSSUTILS').setLevel(logging.FATAL)
        impl = Impl()
        rng = ctx.sub_rng('c17')
        hist = []
        for h in G.corpus(ctx):
            hist.append(h)
        for h in G.boundary_histories():
            hist.append(h)
        n = ctx.n(2500, 60000)
        for _ in range(n):
            hist.append(G.random_history(rng))
        self.book(ctx, hist)
        ctx.phase(O.check_vocabulary, ctx, impl)
        if os.environ.get('C17_DEV') != 'oracle-only':     # development switch: implementation-side oracle only
            ctx.phase(self.correspond, ctx, impl, hist)
        ctx.phase(O.run_oracle, ctx, impl, hist, rng)
        # the mediaType setter of a single query: correspondence with `MQ.setMediaType` + token-level oracle
        ctx.phase(S.run, ctx, impl, S.gen_cases(ctx.sub_rng('c17-setter'), ctx.n(1500, 30000)),
                  os.environ.get('C17_DEV') != 'oracle-only')

    def book(self, ctx, hist):
        for h in hist:
            ctx.case(key=('hist', h.context, h.start, tuple(h.ops), h.raising), nontrivial=h.nontrivial(),
                     sample={'context': h.context, 'start': h.start, 'raising': h.raising,
                             'ops': [list(o) for o in h.ops]},
                     kind='hist:%s:%s' % (h.context, h.kind))
            for o in h.ops:
                ctx.count('op:' + o[0])

    def search(self, ctx):
        """an obligation or the correspondence broke: look for a concrete failing input with the implementation-side
        oracle — around the disagreeing histories (every prefix of the operations, both error modes, the three
        owners) and on a larger random sample"""
        logging.getLogger('CSSUTILS').setLevel(logging.FATAL)
        ctx.search_mode = True
        impl = Impl()
        rng = ctx.sub_rng('c17-search')
        hist = []
        for d in ctx.disagreements[:50]:
            i = d.get('input') or {}
            if 'start' not in i:
                continue
            ops = [tuple(o) for o in i.get('ops', [])]
            for k in range(len(ops) + 1):
                for context in ('alone', 'media', 'import', 'media-nc', 'import-nc'):
                    for raising in (False, True):
                        hist.append(G.History(context, i['start'], ops[:k], raising=raising, kind='search'))
        hist += G.boundary_histories()
        for _ in range(20000):
            hist.append(G.random_history(rng))
        self.book(ctx, hist)
        O.check_vocabulary(ctx, impl)
        O.run_oracle(ctx, impl, hist, rng)
        cases = [(i['text'], i['type'], i.get('raising', False), 'search')
                 for i in (d.get('input') or {} for d in ctx.disagreements[:50]) if 'text' in i and 'type' in i]
        S.run(ctx, impl, cases + S.gen_cases(ctx.sub_rng('c17-setter-search'), 5000), correspond=False)

    # -- correspondence --------------------------------------------------------------------------
    def correspond(self, ctx, impl, hist):
        lines, expect, owners = [], [], []
        for h in hist:
            with time_limit(20):
                steps = impl.run_history(h)
            for (line, reply) in steps:
                lines.append(line)
                expect.append(reply)
                owners.append(h)
        if not ctx.model_ok:
            return
        # assumption A1 = hypothesis `Dom` of the simulation theorems (Props/C17 T17.6: engine on the captured
        # grammars = derived automata, for every token list): a token whose value is ( ) : or , has type CHAR
        a1 = 0
        for line, h in zip(lines, owners):
            for w in line.split(' '):
                if '/' not in w:
                    continue
                for tok in w.split(','):
                    part = tok.split('/')
                    if len(part) == 3 and part[1] in ('28', '29', '3A', '2C'):
                        a1 += 1
                        if part[0] != 'CHAR':
                            ctx.disagree('token domain A1 (hypothesis of the simulation theorems)',
                                         {'context': h.context, 'start': h.start, 'line': line}, part[0], 'CHAR')
        ctx.notes['a1_checked_tokens'] = a1
        out = ctx.driver(lines)
        unsupported = 0
        for line, want, got, h in zip(lines, expect, out, owners):
            if got.startswith('unsupported'):
                unsupported += 1
                h.unsupported = True
                continue
            if getattr(h, 'unsupported', False):
                continue      # the model left the history at an earlier step
            ok, what = impl.same_reply(want, got)
            if not ok:
                ctx.disagree('media history step (%s)' % what,
                             {'context': h.context, 'start': h.start, 'raising': h.raising,
                              'ops': [list(o) for o in h.ops], 'line': line},
                             want, got)
        ctx.notes['model_unsupported_steps'] = unsupported
        # smoke test of the executable engine model (the agreement itself is a theorem now): a handful of the token
        # lists of this run through `cmpq` / `cmpl`
        cmp_lines = []
        for line in lines:
            w = line.split(' ')
            if w[0] == 'set':
                cmp_lines.append('cmpl %s %s' % (w[2], w[3]))
            elif w[0] == 'append' and w[2] != '!':
                cmp_lines.append('cmpq %s' % w[2])
            if len(cmp_lines) >= 200:
                break
        for line, got in zip(cmp_lines, ctx.driver(cmp_lines)):
            ctx.count('engine-smoke:' + got.split(' ')[0])
            if got.startswith('differ') or got == 'bad-op':
                ctx.disagree('derived parser vs engine on the captured grammar (contradicts T17.6)', {'line': line},
                             'derived (Model/Media.lean)', got)

    # ------------------------------------------------------------------------------------------
    def known(self, ctx, finding):
        logging.getLogger('CSSUTILS').setLevel(logging.FATAL)
        return O.replay_known(Impl(), finding)

    def replay(self, ctx, data):
        logging.getLogger('CSSUTILS').setLevel(logging.FATAL)
        impl = Impl()
        w = data.get('witness') or {}
        hs = []
        cases = [(i['text'], i['type'], i.get('raising', False), 'replay')
                 for i in [w] + [b.get('input') or {} for b in data.get('broken', [])] if 'text' in i and 'type' in i]
        if cases:
            S.run(ctx, impl, cases)
        if 'start' in w:
            hs.append(G.History(w.get('context', 'alone'), w['start'], [tuple(o) for o in w.get('ops', [])],
                                raising=w.get('raising', False), kind='replay'))
        for b in data.get('broken', []):
            i = b.get('input') or {}
            if 'start' in i:
                hs.append(G.History(i.get('context', 'alone'), i['start'], [tuple(o) for o in i.get('ops', [])],
                                    raising=i.get('raising', False), kind='replay'))
        if not hs and cases:
            return
        if not hs:
            return self.run(ctx)
        self.correspond(ctx, impl, hs)
        O.run_oracle(ctx, impl, hs, ctx.sub_rng('replay'), extra=False)


CHECK = C17()
