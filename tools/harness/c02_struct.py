"""C02, structure level: spelled sheets (Python mirror of lean/CssVerif/Model/SheetSpec.lean `S…`).

A spelled sheet is built from an abstract sheet of c02_gen (`spell_sheet`): the opaque parts (selector groups,
values, media queries, unknown at-rules) are rendered by c02_gen with an inner spelling and tokenized on their
own; the structure around them (gaps of S / COMMENT tokens, letter case and simple escapes of names, `;`
placement) is chosen here.  `text` writes the sheet as CSS text, `sx` as the s-expression the driver reads
(`spelled` / `erase` requests), `erase` gives the abstract sheet in the JSON shape of the driver's replies.

tok = (TYPE, value); opaque = {'text': str, 'toks': [tok]}; gap = [('ws', chars) | ('cm', body)]
"""
import random

from lib.framework import enc
from harness import c02_gen as G

WS = {' ': 'sp', '\t': 'tab', '\n': 'lf', '\r': 'cr', '\f': 'ff'}
OTHER_TYPES = {'BOM', 'UNICODE-RANGE', 'DIMENSION', 'PERCENTAGE', 'NUMBER', 'HASH', 'INCLUDES', 'DASHMATCH',
               'PREFIXMATCH', 'SUFFIXMATCH', 'SUBSTRINGMATCH'}
HEX = set('0123456789abcdefABCDEF')


def tokenize(text, full=True):
    from cssutils.tokenize2 import Tokenizer
    return list(Tokenizer().tokenize(text, fullsheet=full))


def opaque(text):
    toks = [(t[0], t[1]) for t in tokenize(text, full=False)]
    return {'text': text, 'toks': toks}


def strip(toks):
    return [t for t in toks if t[0] != 'COMMENT']


def is_core(o):
    """`Core (strip toks)` of Lemmas/SheetSpec.lean (+ no EOF)"""
    t = strip(o['toks'])
    return bool(t) and t[0][0] != 'S' and t[-1][0] != 'S' and all(x[0] != 'EOF' for x in t)


# -- random structure-level spelling ------------------------------------------------------------------
class Sp:
    """level 0: canonical (no gaps, lower case); 1: white space; 2: + comments; 3: + case/escapes of names,
    stand-alone semicolons"""

    def __init__(self, rng, level):
        self.rng, self.level = rng, level

    def ws(self):
        r = self.rng
        return ''.join(r.choice(' \t\n\r\f' if r.random() < 0.3 else ' \n') for _ in range(r.choice([1, 1, 1, 2, 3])))

    def gap(self, need=False):
        """S / COMMENT tokens, never two S tokens in a row (the tokenizer would merge them)"""
        r = self.rng
        if self.level < 1:
            return [('ws', ' ')] if need else []
        out = []
        if need or r.random() < 0.5:
            out.append(('ws', self.ws()))
        if self.level >= 2:
            while r.random() < 0.25:
                out.append(('cm', r.choice(['', 'c', ' x ', '*', 'a{b}', ';', '@import', '"', 'ü', '!', ','])))
                if r.random() < 0.5:
                    out.append(('ws', self.ws()))
        return out

    def wgap(self):
        if self.level < 1 or self.rng.random() < 0.3:
            return []
        return [self.ws()]

    def mask(self, name, first_plain=False):
        if self.level < 3 or self.rng.random() < 0.4:
            return []
        r = self.rng
        style = r.randint(0, 2)
        out = []
        for i, c in enumerate(name):
            up = (style == 0) or (style == 1 and r.random() < 0.5)
            esc = r.random() < 0.15 and not (first_plain and i == 0)
            out.append((up, esc))
        return out


def spell_name(name, mask):
    out = []
    for i, c in enumerate(name):
        up, esc = mask[i] if i < len(mask) else (False, False)
        c2 = c.upper() if (up and 'a' <= c <= 'z') else c
        if esc and c2 not in HEX:
            out.append('\\' + c2)
        else:
            out.append(c2)
    return ''.join(out)


# -- building a spelled sheet from a c02_gen AST -------------------------------------------------------
def spell_decl(sp, inner, d):
    name, comps, imp = d
    prio = None
    if imp:
        prio = (sp.gap(), 'important', sp.mask('important'), sp.gap())
    return {'name': name, 'mask': sp.mask(name), 'g1': sp.gap(), 'g2': sp.gap(),
            'value': opaque(G.r_value(inner, comps)), 'g3': sp.gap(), 'prio': prio}


def spell_block(sp, inner, decls, comments=True):
    r = sp.rng
    items = []
    decls = [spell_decl(sp, inner, d) for d in decls]
    last = None
    if decls and r.random() < 0.5:
        last = decls.pop()
    for d in decls:
        if sp.level >= 2 and comments and r.random() < 0.15:
            items.append(('comment', r.choice(['k', ' in block ', '}', ';'])[:8], sp.wgap()))
        if sp.level >= 3 and r.random() < 0.1:
            items.append(('semi', sp.wgap()))
        items.append(('decl', d, sp.wgap()))
        if sp.level >= 3 and r.random() < 0.1:
            items.append(('semi', sp.wgap()))
    if last is None and sp.level >= 2 and comments and r.random() < 0.1:
        items.append(('comment', 'end', sp.wgap()))
    return {'lead': sp.wgap(), 'items': items, 'last': last}


def spell_sel(sp, inner, sels):
    cores = [opaque(G.r_selector(inner, s)) for s in sels]
    return {'first': cores[0], 'post': sp.gap(), 'more': [(sp.gap(), c, sp.gap()) for c in cores[1:]]}


def spell_unknown(sp, inner, r):
    return opaque(G.r_rule(inner, r))


SUPPORTED = ('style', 'comment', 'unknown')


def spell_rule(sp, inner, r):
    k = r[0]
    if k == 'comment':
        return ('comment', r[1], sp.wgap())
    if k == 'style':
        return ('style', spell_sel(sp, inner, r[1]), spell_block(sp, inner, r[2]), sp.wgap())
    if k == 'unknown':
        return ('unknown', spell_unknown(sp, inner, r), sp.wgap())
    raise ValueError(k)


def supported(ast):
    if any(r[0] == 'namespace' for r in ast) and 'namespace' not in SUPPORTED:
        return []          # selectors use the declared prefixes
    return [r for r in ast if r[0] in SUPPORTED]


def spell_sheet(ast, rng, level, inner_level):
    """-> spelled sheet (all rules of `ast` must be of a supported kind)"""
    sp = Sp(rng, level)
    inner = G.Spelling(random.Random(rng.getrandbits(32)), inner_level) if inner_level else G.Spelling(None)
    return {'lead': sp.wgap(), 'rules': [spell_rule(sp, inner, r) for r in ast]}


def wellformed(ss):
    """the side conditions of the theorem that the generator could miss: every opaque part is a core"""
    def block_ok(b):
        ds = [i[1] for i in b['items'] if i[0] == 'decl'] + ([b['last']] if b['last'] else [])
        return all(is_core(d['value']) for d in ds)
    for r in ss['rules']:
        if r[0] == 'style':
            if not (is_core(r[1]['first']) and all(is_core(c) for _, c, _ in r[1]['more']) and block_ok(r[2])):
                return False
        elif r[0] == 'unknown':
            if not is_core(r[1]):
                return False
    return True


# -- text ----------------------------------------------------------------------------------------------
def t_gap(g):
    return ''.join(x[1] if x[0] == 'ws' else '/*' + x[1] + '*/' for x in g)


def t_wgap(w):
    return ''.join(w)


def t_decl(d):
    s = spell_name(d['name'], d['mask']) + t_gap(d['g1']) + ':' + t_gap(d['g2']) + d['value']['text'] + t_gap(d['g3'])
    if d['prio']:
        g4, n, m, g5 = d['prio']
        s += '!' + t_gap(g4) + spell_name(n, m) + t_gap(g5)
    return s


def t_item(i):
    k = i[0]
    if k == 'decl':
        return t_decl(i[1]) + ';' + t_wgap(i[2])
    if k == 'comment':
        return '/*' + i[1] + '*/' + t_wgap(i[2])
    if k == 'unknown':
        return i[1]['text'] + t_wgap(i[2])
    if k == 'semi':
        return ';' + t_wgap(i[1])
    raise ValueError(k)


def t_block(b):
    return t_wgap(b['lead']) + ''.join(t_item(i) for i in b['items']) + (t_decl(b['last']) if b['last'] else '')


def t_sel(s):
    return s['first']['text'] + t_gap(s['post']) + ''.join(',' + t_gap(a) + c['text'] + t_gap(b) for a, c, b in s['more'])


def t_rule(r):
    k = r[0]
    if k == 'comment':
        return '/*' + r[1] + '*/' + t_wgap(r[2])
    if k == 'style':
        return t_sel(r[1]) + '{' + t_block(r[2]) + '}' + t_wgap(r[3])
    if k == 'unknown':
        return r[1]['text'] + t_wgap(r[2])
    raise ValueError(k)


def text(ss):
    return t_wgap(ss['lead']) + ''.join(t_rule(r) for r in ss['rules'])


# -- s-expression for the driver --------------------------------------------------------------------------
def x_ws(chars):
    return '( ' + ' '.join(WS[c] for c in chars) + ' )'


def x_gap(g):
    return '( ' + ' '.join(x_ws(x[1]) if x[0] == 'ws' else '( cm %s )' % enc(x[1]) for x in g) + ' )'


def x_wgap(w):
    return '( ' + ' '.join(x_ws(c) for c in w) + ' )'


def x_tok(t):
    return '%s:%s' % (t[0], enc(t[1]))


def x_toks(o):
    return '( ' + ' '.join(x_tok(t) for t in o['toks']) + ' )'


def x_mask(m):
    return '( ' + ' '.join('%d%d' % (1 if u else 0, 1 if e else 0) for u, e in m) + ' )'


def x_decl(d):
    p = 'none'
    if d['prio']:
        g4, n, m, g5 = d['prio']
        p = '( %s %s %s %s )' % (x_gap(g4), enc(n), x_mask(m), x_gap(g5))
    return '( %s %s %s %s %s %s %s )' % (enc(d['name']), x_mask(d['mask']), x_gap(d['g1']), x_gap(d['g2']),
                                         x_toks(d['value']), x_gap(d['g3']), p)


def x_item(i):
    k = i[0]
    if k == 'decl':
        return '( decl %s %s )' % (x_decl(i[1]), x_wgap(i[2]))
    if k == 'comment':
        return '( comment %s %s )' % (enc(i[1]), x_wgap(i[2]))
    if k == 'unknown':
        return '( unknown %s %s )' % (x_toks(i[1]), x_wgap(i[2]))
    return '( semi %s )' % x_wgap(i[1])


def x_block(b):
    return '( %s ( %s ) %s )' % (x_wgap(b['lead']), ' '.join(x_item(i) for i in b['items']),
                                 x_decl(b['last']) if b['last'] else 'none')


def x_sel(s):
    return '( %s %s ( %s ) )' % (x_toks(s['first']), x_gap(s['post']),
                                 ' '.join('( %s %s %s )' % (x_gap(a), x_toks(c), x_gap(b)) for a, c, b in s['more']))


def x_rule(r):
    k = r[0]
    if k == 'comment':
        return '( comment %s %s )' % (enc(r[1]), x_wgap(r[2]))
    if k == 'style':
        return '( style %s %s %s )' % (x_sel(r[1]), x_block(r[2]), x_wgap(r[3]))
    if k == 'unknown':
        return '( unknown %s %s )' % (x_toks(r[1]), x_wgap(r[2]))
    raise ValueError(k)


def sx(ss):
    return '%s ( %s )' % (x_wgap(ss['lead']), ' '.join(x_rule(r) for r in ss['rules']))


# -- erase: the abstract sheet, in the JSON shape of the driver ------------------------------------------
def j_toks(o, keep_comments=False):
    return [[mtype(t[0]), enc(t[1])] for t in (o['toks'] if keep_comments else strip(o['toks']))]


def mtype(t):
    return 'OTHER' if t in OTHER_TYPES else t


def e_decl(d):
    return {'k': 'decl', 'name': enc(d['name']), 'value': j_toks(d['value']),
            'prio': enc(d['prio'][1]) if d['prio'] else None}


def e_block(b):
    out = []
    for i in b['items']:
        if i[0] == 'decl':
            out.append(e_decl(i[1]))
        elif i[0] == 'comment':
            out.append({'k': 'comment', 'body': enc(i[1])})
        elif i[0] == 'unknown':
            out.append({'k': 'unknown', 'toks': j_toks(i[1], True)})
    if b['last']:
        out.append(e_decl(b['last']))
    return out


def e_rule(r):
    k = r[0]
    if k == 'comment':
        return {'k': 'comment', 'body': enc(r[1])}
    if k == 'style':
        return {'k': 'style', 'sels': [j_toks(r[1]['first'])] + [j_toks(c) for _, c, _ in r[1]['more']],
                'items': e_block(r[2])}
    if k == 'unknown':
        return {'k': 'unknown', 'toks': j_toks(r[1], True)}
    raise ValueError(k)


def erase(ss):
    return [e_rule(r) for r in ss['rules']]
