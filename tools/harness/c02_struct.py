"""C02, structure level: spelled sheets (Python mirror of lean/CssVerif/Model/SheetSpec.lean `S…`).

A spelled sheet is built from an abstract sheet of c02_gen (`spell_sheet`): the opaque parts (selector groups,
values, media queries, unknown at-rules) are rendered by c02_gen with an inner spelling and tokenized on their
own; the structure around them (gaps of S / COMMENT tokens, letter case and simple escapes of names, `;`
placement) is chosen here.  `text` writes the sheet as CSS text, `sx` as the s-expression the driver reads
(`spelled` / `erase` requests), `erase` gives the abstract sheet in the JSON shape of the driver's replies.

tok = (TYPE, value); opaque = {'text': str, 'toks': [tok]}; gap = [('ws', chars) | ('cm', body)]
"""
import random

from lib.framework import enc
from harness import c02_gen as G

WS = {' ': 'sp', '\t': 'tab', '\n': 'lf', '\r': 'cr', '\f': 'ff'}
OTHER_TYPES = {'BOM', 'UNICODE-RANGE', 'DIMENSION', 'PERCENTAGE', 'NUMBER', 'HASH', 'INCLUDES', 'DASHMATCH',
               'PREFIXMATCH', 'SUFFIXMATCH', 'SUBSTRINGMATCH'}
HEX = set('0123456789abcdefABCDEF')


def tokenize(text, full=True):
    from cssutils.tokenize2 import Tokenizer
    return list(Tokenizer().tokenize(text, fullsheet=full))


def opaque(text):
    toks = [(t[0], t[1]) for t in tokenize(text, full=False)]
    return {'text': text, 'toks': toks}


def strip(toks):
    return [t for t in toks if t[0] != 'COMMENT']


def is_core(o):
    """`Core (strip toks)` of Lemmas/SheetSpec.lean (+ no EOF)"""
    t = strip(o['toks'])
    return bool(t) and t[0][0] != 'S' and t[-1][0] != 'S' and all(x[0] != 'EOF' for x in t)


# -- random structure-level spelling ------------------------------------------------------------------
class Sp:
    """level 0: canonical (no gaps, lower case); 1: white space; 2: + comments; 3: + case/escapes of names,
    stand-alone semicolons"""

    def __init__(self, rng, level):
        self.rng, self.level = rng, level

    def ws(self):
        r = self.rng
        return ''.join(r.choice(' \t\n\r\f' if r.random() < 0.3 else ' \n') for _ in range(r.choice([1, 1, 1, 2, 3])))

    def gap(self, need=False):
        """S / COMMENT tokens, never two S tokens in a row (the tokenizer would merge them)"""
        r = self.rng
        if self.level < 1:
            return [('ws', ' ')] if need else []
        out = []
        if need or r.random() < 0.5:
            out.append(('ws', self.ws()))
        if self.level >= 2:
            while r.random() < 0.25:
                out.append(('cm', r.choice(['', 'c', ' x ', '*', 'a{b}', ';', '@import', '"', 'ü', '!', ','])))
                if r.random() < 0.5:
                    out.append(('ws', self.ws()))
        return out

    def wgap(self):
        if self.level < 1 or self.rng.random() < 0.3:
            return []
        return [self.ws()]

    def mask(self, name, first_plain=False):
        if self.level < 3 or self.rng.random() < 0.4:
            return []
        r = self.rng
        style = r.randint(0, 2)
        out = []
        for i, c in enumerate(name):
            up = (style == 0) or (style == 1 and r.random() < 0.5)
            esc = r.random() < 0.15 and not (first_plain and i == 0)
            out.append((up, esc))
        return out


def spell_name(name, mask):
    out = []
    for i, c in enumerate(name):
        up, esc = mask[i] if i < len(mask) else (False, False)
        c2 = c.upper() if (up and 'a' <= c <= 'z') else c
        if esc and c2 not in HEX:
            out.append('\\' + c2)
        else:
            out.append(c2)
    return ''.join(out)


# -- building a spelled sheet from a c02_gen AST -------------------------------------------------------
def spell_decl(sp, inner, d):
    name, comps, imp = d
    prio = None
    if imp:
        prio = (sp.gap(), 'important', sp.mask('important'), sp.gap())
    return {'name': name, 'mask': sp.mask(name), 'g1': sp.gap(), 'g2': sp.gap(),
            'value': opaque(G.r_value(inner, comps)), 'g3': sp.gap(), 'prio': prio}


def spell_block(sp, inner, decls, comments=True):
    r = sp.rng
    items = []
    decls = [spell_decl(sp, inner, d) for d in decls]
    last = None
    if decls and r.random() < 0.5:
        last = decls.pop()
    for d in decls:
        if sp.level >= 2 and comments and r.random() < 0.15:
            items.append(('comment', r.choice(['k', ' in block ', '}', ';'])[:8], sp.wgap()))
        if sp.level >= 3 and r.random() < 0.1:
            items.append(('semi', sp.wgap()))
        items.append(('decl', d, sp.wgap()))
        if sp.level >= 3 and r.random() < 0.1:
            items.append(('semi', sp.wgap()))
    if last is None and sp.level >= 2 and comments and r.random() < 0.1:
        items.append(('comment', 'end', sp.wgap()))
    return {'lead': sp.wgap(), 'items': items, 'last': last}


def spell_sel(sp, inner, sels):
    cores = [opaque(G.r_selector(inner, s)) for s in sels]
    return {'first': cores[0], 'post': sp.gap(), 'more': [(sp.gap(), c, sp.gap()) for c in cores[1:]]}


def spell_unknown(sp, inner, r):
    return opaque(G.r_rule(inner, r))


def spell_href(sp, h, form):
    """form: 'string' | 'url' | 'urlq' (c02_gen) -> SHref"""
    r = sp.rng
    q = r.choice(['dq', 'sq']) if sp.level >= 3 else 'dq'
    plain = bool(h) and not any(c in h for c in ' \t\n\r\f\'"()\\')
    if form == 'string' or '\\' in h:
        return ('str', q, h)
    up = sp.mask('url')       # letter case and simple escapes of the name: URL(, u\\rl(
    pre = sp.ws() if sp.level >= 1 and r.random() < 0.3 else ''
    post = sp.ws() if sp.level >= 1 and r.random() < 0.3 else ''
    if form == 'url' and plain:
        return ('url', up, pre, post, None, h)
    return ('url', up, pre, post, q, h)


NAMES = ['nm', 'my sheet', 'a"b', "it's", '{', ';', '/*x*/', 'ü', '', '@import']


def spell_name_opt(sp, p=0.25):
    """the optional name of @media / @import (part of the abstract sheet): (quote, text, gap after it) | None"""
    r = sp.rng
    if r.random() >= p:
        return None
    return (r.choice(['dq', 'sq']) if sp.level >= 3 else 'dq', r.choice(NAMES), sp.gap())


def spell_page_block(sp, inner, decls, margins):
    r = sp.rng
    blk = spell_block(sp, inner, decls)
    items = [('item', i) for i in blk['items']]
    for m, ds in margins:
        mb = ('margin', m[1:], sp.mask(m[1:]), sp.gap(), spell_block(sp, inner, ds, comments=True), sp.wgap())
        items.insert(r.randint(0, len(items)), mb)
    return {'lead': blk['lead'], 'items': items, 'last': blk['last']}


SUPPORTED = ('style', 'comment', 'unknown', 'media', 'fontface', 'page')


def spell_rule(sp, inner, r):
    k = r[0]
    if k == 'comment':
        return ('comment', r[1], sp.wgap())
    if k == 'style':
        return ('style', spell_sel(sp, inner, r[1]), spell_block(sp, inner, r[2]), sp.wgap())
    if k == 'unknown':
        return ('unknown', spell_unknown(sp, inner, r), sp.wgap())
    if k == 'media':
        return ('media', sp.mask('media', True), sp.gap(need=True), opaque(G.r_mqs(inner, r[1])), sp.gap(),
                spell_name_opt(sp), sp.wgap(), [spell_rule(sp, inner, x) for x in r[2]], sp.wgap())
    if k == 'fontface':
        return ('fontface', sp.mask('font-face', True), sp.gap(), spell_block(sp, inner, r[1]), sp.wgap())
    if k == 'page':
        _, pseudo, decls, margins = r
        name = sp.rng.choice([None, None, None, 'cover']) if sp.level >= 3 else None
        mid = ['m'] if (name and sp.level >= 2 and sp.rng.random() < 0.3) else []
        # :first / :left / :right are recognised in any case and with simple escapes; any other name is kept as written
        sel = (name, mid, pseudo, sp.mask(pseudo) if pseudo else [])
        # with an empty selector the two gaps would be one in the text
        return ('page', sp.mask('page', True), sp.gap(need=bool(name)), sel, sp.gap() if (name or pseudo) else [],
                spell_page_block(sp, inner, decls, margins), sp.wgap())
    raise ValueError(k)


def spell_pre(sp, inner, r):
    """a statement of the @import / @namespace section"""
    k = r[0]
    if k == 'import':
        _, href, form, qs = r
        mq = (opaque(G.r_mqs(inner, qs)), sp.gap()) if qs else None
        return ('import', sp.mask('import', True), sp.gap(need=True), spell_href(sp, href, form),
                sp.gap(need=bool(mq)), mq, spell_name_opt(sp), sp.wgap())
    if k == 'namespace':
        _, pre, uri, asurl = r
        pfx = (pre, sp.gap(need=True)) if pre else None
        return ('namespace', sp.mask('namespace', True), sp.gap(need=True), pfx,
                spell_href(sp, uri, 'urlq' if asurl else 'string'), sp.gap(), sp.wgap())
    if k == 'comment':
        return ('comment', r[1], sp.wgap())
    raise ValueError(k)


VAR_NAMES = ['c1', 'w', 'main-color', 'x', 'a', 'gap', 'Z9', 'big_width']


def spell_var_decl(sp, inner, name, comps):
    return {'name': name.lower(), 'mask': sp.mask(name.lower()), 'g1': sp.gap(), 'g2': sp.gap(),
            'value': opaque(G.r_value(inner, comps)), 'g3': sp.gap()}


def spell_variables(sp, inner, rng):
    """one `@variables` rule (an abstract rule made here: distinct names, values of c02_gen)"""
    names = rng.sample(VAR_NAMES, rng.randint(0, 3))
    if names and rng.random() < 0.25:
        names.insert(rng.randint(0, len(names)), rng.choice(names))       # a name declared twice: the later one wins in place
    decls = [spell_var_decl(sp, inner, n, G.gen_value(rng)) for n in names]
    last = decls.pop() if decls and rng.random() < 0.5 else None
    blk = {'lead': sp.gap(), 'items': [(d, sp.gap()) for d in decls], 'last': last}
    return ('variables', sp.mask('variables', True), sp.gap(), blk, sp.wgap())


def supported(ast):
    return list(ast)


def spell_sheet(ast, rng, level, inner_level):
    """-> spelled sheet"""
    sp = Sp(rng, level)
    inner = G.Spelling(random.Random(rng.getrandbits(32)), inner_level) if inner_level else G.Spelling(None)
    charset, imports, namespaces, variables, rules = None, [], [], [], []
    if rng.random() < 0.3:
        for _ in range(rng.choice([1, 1, 2])):
            if level >= 2 and rng.random() < 0.2:
                variables.append(('comment', ' before variables ', sp.wgap()))
            variables.append(spell_variables(sp, inner, rng))
    for r in ast:
        k = r[0]
        if k == 'charset':
            charset = (rng.choice(['dq', 'sq']) if level >= 3 else 'dq', r[1])
        elif k == 'import':
            if level >= 2 and rng.random() < 0.1:
                imports.append(spell_pre(sp, inner, ('comment', ' between imports ')))
            imports.append(spell_pre(sp, inner, r))
        elif k == 'namespace':
            if level >= 2 and rng.random() < 0.1:
                namespaces.append(spell_pre(sp, inner, ('comment', 'ns')))
            namespaces.append(spell_pre(sp, inner, r))
        else:
            rules.append(spell_rule(sp, inner, r))
    return {'charset': charset, 'lead': sp.wgap(), 'imports': imports, 'namespaces': namespaces,
            'variables': variables, 'rules': rules}


def wellformed(ss):
    """the side conditions of the theorem that the generator could miss: every opaque part is a core"""
    def block_ok(b):
        ds = [i[1] for i in b['items'] if i[0] == 'decl'] + ([b['last']] if b['last'] else [])
        return all(is_core(d['value']) for d in ds)

    def rule_ok(r):
        k = r[0]
        if k == 'style':
            return is_core(r[1]['first']) and all(is_core(c) for _, c, _ in r[1]['more']) and block_ok(r[2])
        if k == 'unknown':
            return is_core(r[1])
        if k == 'media':
            return is_core(r[3]) and all(rule_ok(x) for x in r[7])
        if k == 'fontface':
            return block_ok(r[3])
        if k == 'page':
            b = r[5]
            for it in b['items']:
                if it[0] == 'margin':
                    if not block_ok(it[4]):
                        return False
                elif it[1][0] == 'decl' and not is_core(it[1][1]['value']):
                    return False
            return not b['last'] or is_core(b['last']['value'])
        return True
    for i in ss['imports']:
        if i[0] == 'import' and i[5] and not is_core(i[5][0]):
            return False
    for v in ss.get('variables', ()):
        if v[0] == 'variables':
            ds = [d for d, _ in v[3]['items']] + ([v[3]['last']] if v[3]['last'] else [])
            # `SVarDecl.WF`: a core that does not start with a comment
            if not all(is_core(d['value']) and d['value']['toks'][0][0] not in ('S', 'COMMENT') for d in ds):
                return False
    return all(rule_ok(r) for r in ss['rules'])


# -- text ----------------------------------------------------------------------------------------------
def t_gap(g):
    return ''.join(x[1] if x[0] == 'ws' else '/*' + x[1] + '*/' for x in g)


def t_wgap(w):
    return ''.join(w)


def t_decl(d):
    s = spell_name(d['name'], d['mask']) + t_gap(d['g1']) + ':' + t_gap(d['g2']) + d['value']['text'] + t_gap(d['g3'])
    if d['prio']:
        g4, n, m, g5 = d['prio']
        s += '!' + t_gap(g4) + spell_name(n, m) + t_gap(g5)
    return s


def t_item(i):
    k = i[0]
    if k == 'decl':
        return t_decl(i[1]) + ';' + t_wgap(i[2])
    if k == 'comment':
        return '/*' + i[1] + '*/' + t_wgap(i[2])
    if k == 'unknown':
        return i[1]['text'] + t_wgap(i[2])
    if k == 'semi':
        return ';' + t_wgap(i[1])
    raise ValueError(k)


def t_block(b):
    return t_wgap(b['lead']) + ''.join(t_item(i) for i in b['items']) + (t_decl(b['last']) if b['last'] else '')


def t_sel(s):
    return s['first']['text'] + t_gap(s['post']) + ''.join(',' + t_gap(a) + c['text'] + t_gap(b) for a, c, b in s['more'])


QUOTE = {'dq': '"', 'sq': "'"}


def t_quote(q, h):
    c = QUOTE[q]
    return c + h.replace(c, '\\' + c) + c


def t_href(h):
    if h[0] == 'str':
        return t_quote(h[1], h[2])
    _, up, pre, post, q, txt = h
    word = spell_name('url', up)
    return word + '(' + pre + (t_quote(q, txt) if q else txt) + post + ')'


def t_name(nm):
    return (t_quote(nm[0], nm[1]) + t_gap(nm[2])) if nm else ''


def t_page_item(it):
    if it[0] == 'margin':
        _, n, m, g, blk, w = it
        return '@' + spell_name(n, m) + t_gap(g) + '{' + t_block(blk) + '}' + t_wgap(w)
    return t_item(it[1])


def t_page_block(b):
    return t_wgap(b['lead']) + ''.join(t_page_item(i) for i in b['items']) + (t_decl(b['last']) if b['last'] else '')


def t_page_sel(sel):
    name, mid, pseudo, pmask = sel
    s = ''
    if name:
        s += name + ''.join('/*' + c + '*/' for c in mid)
    if pseudo:
        s += ':' + spell_name(pseudo, pmask)
    return s


def t_rule(r):
    k = r[0]
    if k == 'comment':
        return '/*' + r[1] + '*/' + t_wgap(r[2])
    if k == 'style':
        return t_sel(r[1]) + '{' + t_block(r[2]) + '}' + t_wgap(r[3])
    if k == 'unknown':
        return r[1]['text'] + t_wgap(r[2])
    if k == 'media':
        _, m, g1, mq, g2, nm, lead, rules, w = r
        return '@' + spell_name('media', m) + t_gap(g1) + mq['text'] + t_gap(g2) + t_name(nm) + '{' + t_wgap(lead) + \
            ''.join(t_rule(x) for x in rules) + '}' + t_wgap(w)
    if k == 'fontface':
        _, m, g1, blk, w = r
        return '@' + spell_name('font-face', m) + t_gap(g1) + '{' + t_block(blk) + '}' + t_wgap(w)
    if k == 'page':
        _, m, g0, sel, g1, blk, w = r
        return '@' + spell_name('page', m) + t_gap(g0) + t_page_sel(sel) + t_gap(g1) + '{' + t_page_block(blk) + '}' + t_wgap(w)
    raise ValueError(k)


def t_pre(r):
    k = r[0]
    if k == 'comment':
        return '/*' + r[1] + '*/' + t_wgap(r[2])
    if k == 'import':
        _, m, g1, href, g2, mq, nm, w = r
        return '@' + spell_name('import', m) + t_gap(g1) + t_href(href) + t_gap(g2) + \
            ((mq[0]['text'] + t_gap(mq[1])) if mq else '') + t_name(nm) + ';' + t_wgap(w)
    if k == 'namespace':
        _, m, g1, pfx, uri, g2, w = r
        return '@' + spell_name('namespace', m) + t_gap(g1) + ((pfx[0] + t_gap(pfx[1])) if pfx else '') + \
            t_href(uri) + t_gap(g2) + ';' + t_wgap(w)
    raise ValueError(k)


def t_var_decl(d):
    return spell_name(d['name'], d['mask']) + t_gap(d['g1']) + ':' + t_gap(d['g2']) + d['value']['text'] + t_gap(d['g3'])


def t_var(r):
    if r[0] == 'comment':
        return '/*' + r[1] + '*/' + t_wgap(r[2])
    _, m, g0, blk, w = r
    body = t_gap(blk['lead']) + ''.join(t_var_decl(d) + ';' + t_gap(g) for d, g in blk['items']) + \
        (t_var_decl(blk['last']) if blk['last'] else '')
    return '@' + spell_name('variables', m) + t_gap(g0) + '{' + body + '}' + t_wgap(w)


def text(ss):
    cs = ('@charset ' + t_quote(*ss['charset']) + ';') if ss['charset'] else ''
    return cs + t_wgap(ss['lead']) + ''.join(t_pre(r) for r in ss['imports']) + \
        ''.join(t_pre(r) for r in ss['namespaces']) + ''.join(t_var(r) for r in ss.get('variables', ())) + \
        ''.join(t_rule(r) for r in ss['rules'])


# -- s-expression for the driver --------------------------------------------------------------------------
def x_ws(chars):
    return '( ' + ' '.join(WS[c] for c in chars) + ' )'


def x_gap(g):
    return '( ' + ' '.join(x_ws(x[1]) if x[0] == 'ws' else '( cm %s )' % enc(x[1]) for x in g) + ' )'


def x_wgap(w):
    return '( ' + ' '.join(x_ws(c) for c in w) + ' )'


def x_tok(t):
    return '%s:%s' % (t[0], enc(t[1]))


def x_toks(o):
    return '( ' + ' '.join(x_tok(t) for t in o['toks']) + ' )'


def x_mask(m):
    return '( ' + ' '.join('%d%d' % (1 if u else 0, 1 if e else 0) for u, e in m) + ' )'


def x_decl(d):
    p = 'none'
    if d['prio']:
        g4, n, m, g5 = d['prio']
        p = '( %s %s %s %s )' % (x_gap(g4), enc(n), x_mask(m), x_gap(g5))
    return '( %s %s %s %s %s %s %s )' % (enc(d['name']), x_mask(d['mask']), x_gap(d['g1']), x_gap(d['g2']),
                                         x_toks(d['value']), x_gap(d['g3']), p)


def x_item(i):
    k = i[0]
    if k == 'decl':
        return '( decl %s %s )' % (x_decl(i[1]), x_wgap(i[2]))
    if k == 'comment':
        return '( comment %s %s )' % (enc(i[1]), x_wgap(i[2]))
    if k == 'unknown':
        return '( unknown %s %s )' % (x_toks(i[1]), x_wgap(i[2]))
    return '( semi %s )' % x_wgap(i[1])


def x_block(b):
    return '( %s ( %s ) %s )' % (x_wgap(b['lead']), ' '.join(x_item(i) for i in b['items']),
                                 x_decl(b['last']) if b['last'] else 'none')


def x_sel(s):
    return '( %s %s ( %s ) )' % (x_toks(s['first']), x_gap(s['post']),
                                 ' '.join('( %s %s %s )' % (x_gap(a), x_toks(c), x_gap(b)) for a, c, b in s['more']))


def x_wschars(chars):
    return '( ' + ' '.join(WS[c] for c in chars) + ' )'


def x_href(h):
    if h[0] == 'str':
        return '( str %s %s )' % (h[1], enc(h[2]))
    _, up, pre, post, q, txt = h
    return '( url %s %s %s %s %s )' % (x_mask(up), x_wschars(pre), x_wschars(post), q or 'none', enc(txt))


def x_opt(v):
    return enc(v) if v is not None else 'none'


def x_name(nm):
    return '( %s %s %s )' % (nm[0], enc(nm[1]), x_gap(nm[2])) if nm else 'none'


def x_page_item(it):
    if it[0] == 'margin':
        _, n, m, g, blk, w = it
        return '( margin %s %s %s %s %s )' % (enc(n), x_mask(m), x_gap(g), x_block(blk), x_wgap(w))
    return x_item(it[1])


def x_page_block(b):
    return '( %s ( %s ) %s )' % (x_wgap(b['lead']), ' '.join(x_page_item(i) for i in b['items']),
                                 x_decl(b['last']) if b['last'] else 'none')


def x_rule(r):
    k = r[0]
    if k == 'comment':
        return '( comment %s %s )' % (enc(r[1]), x_wgap(r[2]))
    if k == 'style':
        return '( style %s %s %s )' % (x_sel(r[1]), x_block(r[2]), x_wgap(r[3]))
    if k == 'unknown':
        return '( unknown %s %s )' % (x_toks(r[1]), x_wgap(r[2]))
    if k == 'media':
        _, m, g1, mq, g2, nm, lead, rules, w = r
        return '( media %s %s %s %s %s %s ( %s ) %s )' % (x_mask(m), x_gap(g1), x_toks(mq), x_gap(g2), x_name(nm),
                                                        x_wgap(lead), ' '.join(x_rule(x) for x in rules), x_wgap(w))
    if k == 'fontface':
        _, m, g1, blk, w = r
        return '( fontface %s %s %s %s )' % (x_mask(m), x_gap(g1), x_block(blk), x_wgap(w))
    if k == 'page':
        _, m, g0, sel, g1, blk, w = r
        xs = '( %s ( %s ) %s %s )' % (x_opt(sel[0]), ' '.join(enc(c) for c in sel[1]), x_opt(sel[2]), x_mask(sel[3]))
        return '( page %s %s %s %s %s %s )' % (x_mask(m), x_gap(g0), xs, x_gap(g1), x_page_block(blk), x_wgap(w))
    raise ValueError(k)


def x_pre(r):
    k = r[0]
    if k == 'comment':
        return '( comment %s %s )' % (enc(r[1]), x_wgap(r[2]))
    if k == 'import':
        _, m, g1, href, g2, mq, nm, w = r
        xm = '( %s %s )' % (x_toks(mq[0]), x_gap(mq[1])) if mq else 'none'
        return '( import %s %s %s %s %s %s %s )' % (x_mask(m), x_gap(g1), x_href(href), x_gap(g2), xm, x_name(nm),
                                                    x_wgap(w))
    if k == 'namespace':
        _, m, g1, pfx, uri, g2, w = r
        xp = '( %s %s )' % (enc(pfx[0]), x_gap(pfx[1])) if pfx else 'none'
        return '( namespace %s %s %s %s %s %s )' % (x_mask(m), x_gap(g1), xp, x_href(uri), x_gap(g2), x_wgap(w))
    raise ValueError(k)


def x_var_decl(d):
    return '( %s %s %s %s %s %s )' % (enc(d['name']), x_mask(d['mask']), x_gap(d['g1']), x_gap(d['g2']),
                                      x_toks(d['value']), x_gap(d['g3']))


def x_var(r):
    if r[0] == 'comment':
        return '( comment %s %s )' % (enc(r[1]), x_wgap(r[2]))
    _, m, g0, blk, w = r
    xb = '( %s ( %s ) %s )' % (x_gap(blk['lead']), ' '.join('( %s %s )' % (x_var_decl(d), x_gap(g)) for d, g in blk['items']),
                               x_var_decl(blk['last']) if blk['last'] else 'none')
    return '( variables %s %s %s %s )' % (x_mask(m), x_gap(g0), xb, x_wgap(w))


def sx(ss):
    cs = '( %s %s )' % (ss['charset'][0], enc(ss['charset'][1])) if ss['charset'] else 'none'
    return '%s %s ( %s ) ( %s ) ( %s ) ( %s )' % (cs, x_wgap(ss['lead']), ' '.join(x_pre(r) for r in ss['imports']),
                                                 ' '.join(x_pre(r) for r in ss['namespaces']),
                                                 ' '.join(x_var(r) for r in ss.get('variables', ())),
                                                 ' '.join(x_rule(r) for r in ss['rules']))


# -- erase: the abstract sheet, in the JSON shape of the driver ------------------------------------------
def j_toks(o, keep_comments=False):
    return [[mtype(t[0]), enc(t[1])] for t in (o['toks'] if keep_comments else strip(o['toks']))]


def mtype(t):
    return 'OTHER' if t in OTHER_TYPES else t


def e_decl(d):
    return {'k': 'decl', 'name': enc(d['name']), 'value': j_toks(d['value']),
            'prio': enc(d['prio'][1]) if d['prio'] else None}


def e_block(b):
    out = []
    for i in b['items']:
        if i[0] == 'decl':
            out.append(e_decl(i[1]))
        elif i[0] == 'comment':
            out.append({'k': 'comment', 'body': enc(i[1])})
        elif i[0] == 'unknown':
            out.append({'k': 'unknown', 'toks': j_toks(i[1], True)})
    if b['last']:
        out.append(e_decl(b['last']))
    return out


def squeeze(toks):
    return [t for t in toks if t[0] not in ('S', 'COMMENT')]


def e_decl_sq(d):
    return {'k': 'decl', 'name': enc(d['name']), 'value': [[mtype(t[0]), enc(t[1])] for t in squeeze(d['value']['toks'])],
            'prio': enc(d['prio'][1]) if d['prio'] else None}


def e_block_sq(b):
    return [e_decl_sq(i[1]) for i in b['items'] if i[0] == 'decl'] + ([e_decl_sq(b['last'])] if b['last'] else [])


def e_rule(r):
    k = r[0]
    if k == 'comment':
        return {'k': 'comment', 'body': enc(r[1])}
    if k == 'style':
        return {'k': 'style', 'sels': [j_toks(r[1]['first'])] + [j_toks(c) for _, c, _ in r[1]['more']],
                'items': e_block(r[2])}
    if k == 'unknown':
        return {'k': 'unknown', 'toks': j_toks(r[1], True)}
    if k == 'media':
        return {'k': 'media', 'mq': j_toks(r[3]), 'name': enc(r[5][1]) if (r[5] and r[5][1]) else None,
                'rules': [e_rule(x) for x in r[7]]}
    if k == 'fontface':
        return {'k': 'fontface', 'items': e_block(r[3])}
    if k == 'page':
        sel, b = r[3], r[5]
        items = e_block({'items': [i[1] for i in b['items'] if i[0] == 'item'], 'last': b['last']})
        margins = [{'name': enc('@' + i[1]), 'items': e_block_sq(i[4])} for i in b['items'] if i[0] == 'margin']
        return {'k': 'page', 'name': enc(sel[0]) if sel[0] is not None else None,
                'pseudo': enc(sel[2]) if sel[2] is not None else None, 'items': items, 'margins': margins}
    raise ValueError(k)


def e_pre(r):
    k = r[0]
    if k == 'comment':
        return {'k': 'comment', 'body': enc(r[1])}
    if k == 'import':
        return {'k': 'import', 'href': enc(r[3][-1]), 'mq': j_toks(r[5][0]) if r[5] else None,
                'name': enc(r[6][1]) if (r[6] and r[6][1]) else None}
    if k == 'namespace':
        return {'k': 'namespace', 'pfx': enc(r[3][0] if r[3] else ''), 'uri': enc(r[4][-1])}
    raise ValueError(k)


def e_var(r):
    if r[0] == 'comment':
        return {'k': 'comment', 'body': enc(r[1])}
    blk = r[3]
    ds = [d for d, _ in blk['items']] + ([blk['last']] if blk['last'] else [])
    out = []            # `SVarBlock.erase`: a name declared again takes the place of its first declaration
    for d in ds:
        v = {'name': enc(d['name']), 'value': j_toks(d['value'])}
        hit = [i for i, e in enumerate(out) if e['name'] == v['name']]
        if hit:
            out[hit[0]] = v
        else:
            out.append(v)
    return {'k': 'variables', 'vars': out}


def erase(ss):
    cs = [{'k': 'charset', 'enc': enc(ss['charset'][1])}] if ss['charset'] else []
    return cs + [e_pre(r) for r in ss['imports']] + [e_pre(r) for r in ss['namespaces']] + \
        [e_var(r) for r in ss.get('variables', ())] + [e_rule(r) for r in ss['rules']]
