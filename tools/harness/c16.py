"""C16 — selector specificity, structure and list semantics.

model: lean/CssVerif/Model/Sel.lean (prepare, the `New` state machine, post-conditions, SelectorList, serialisation)
theorems: lean/CssVerif/Props/C16.lean
translator: tools/gen/c16_selconst.py -> lean/CssVerif/Gen/C16SelConst.lean (Constants, dispatch table, name tables)

correspondence (model vs implementation, SAME token lists — the real tokenizer's output or token-level soups):
  well-formedness, specificity, the item sequence with resolved (URI, name) pairs, `element`, `selectorText`,
  the used namespaces; exception class where a Python operation is partial; SelectorList histories
  (selectorText=, appendSelector, [i]=, del [i]) observed through length / selectorText / specificities / members.
oracle (implementation only, independent of the model): the generator knows the specificity and the sequence of
  simple selectors and combinators by construction; invariance under white space, comments, letter case, escapes,
  quote style, a serialisation round trip (which must also be a fixpoint) and attachment to a style sheet;
  raising mode agrees with logging mode; list order, all-or-nothing, append-moves-to-end.
"""
import glob
import json
import logging
import os

from gen import c05_productions
from gen import c16_selconst
from harness import c16_gen as g
from lib.framework import Check, enc, time_limit

NONTRIVIAL_NOTE = ('non-trivial = a selector with at least two counted parts or a negation / attribute / functional '
                   'pseudo / namespace prefix, or a malformed token list that is rejected after at least one item was '
                   'appended, or a list history with at least one rejected or de-duplicating operation')


def ascii_lower(s):
    return ''.join(chr(ord(c) + 32) if 'A' <= c <= 'Z' else c for c in s)


_PREP = []


def in_model_domain(toks):
    """str.lower() is modelled on ASCII only: the values the code normalises (pseudo names and `:not(`, i.e. the
    pseudo-class / pseudo-element / negation tokens after _prepare_tokens) must not hold other cased letters;
    COMMENT tokens must be comments (CSSComment parses them)"""
    for t in toks:
        if not isinstance(t[1], str):
            return False
        if t[0] == 'COMMENT' and not (len(t[1]) >= 4 and t[1].startswith('/*') and t[1].endswith('*/')
                                      and '*/' not in t[1][2:-2]):
            return False
    if all(t[1].isascii() for t in toks):
        return True
    if not _PREP:
        import cssutils.css
        _PREP.append(cssutils.css.Selector())
    try:
        prepared = list(_PREP[0]._prepare_tokens(iter(list(toks))))
    except Exception:               # noqa: BLE001
        return True
    for t in prepared:
        if t[0] in ('pseudo-class', 'pseudo-element', 'negation') and t[1].lower() != ascii_lower(t[1]):
            return False
    return True


def enc_toks(toks):
    return ','.join('%s/%s' % (enc(t[0]), enc(t[1])) for t in toks) if toks else '-'


def enc_ns(ns):
    return '&'.join('%s=%s' % (enc(p), enc(u)) for p, u in ns.items()) if ns else '-'


class Impl:
    def __init__(self):
        import cssutils
        import cssutils.css
        import cssutils.tokenize2
        self.cssutils = cssutils
        self.css = cssutils.css
        self.tok = cssutils.tokenize2.Tokenizer()
        cssutils.log.setLevel(logging.FATAL)
        cssutils.log.raiseExceptions = False
        cssutils.ser.prefs.useDefaults()
        p = cssutils.ser.prefs
        assert (p.keepComments, p.spacer, p.selectorCombinatorSpacer, p.listItemSpacer) == (True, ' ', ' ', ' ')

    def tokenize(self, text):
        return [(t[0], t[1], t[2], t[3]) for t in self.tok.tokenize(text)]

    def prepare(self, toks):
        return [(t[0], t[1]) for t in self.css.Selector()._prepare_tokens(iter(list(toks)))]

    # -- canonical observables, formatted exactly like lean/Drv/C16.lean
    def show_val(self, v):
        if isinstance(v, tuple):
            u = v[0]
            us = 'N' if u is None else ('A' if u == self.cssutils._ANYNS else 'U' + enc(u))
            return 'n:%s:%s' % (us, enc(v[1]))
        if isinstance(v, self.css.CSSComment):
            return 'c:' + enc(v.cssText)
        return 's:' + enc(v)

    def show_sel(self, s):
        sp = s.specificity
        nsd = s._namespaces.namespaces if hasattr(s._namespaces, 'namespaces') else dict(s._namespaces)
        return 'OK %d %d %d E=%s T=%s N=%s I=%s' % (
            sp[1], sp[2], sp[3], 'none' if s.element is None else self.show_val(s.element),
            enc(s.selectorText), enc_ns(nsd),
            ';'.join('%s/%s' % (enc(it.type), self.show_val(it.value)) for it in s.seq))

    def sel(self, toks, ns, raising=False):
        """fresh Selector fed (tokens, namespaces): formatted observable, and the object"""
        self.cssutils.log.raiseExceptions = raising
        s = self.css.Selector()
        try:
            with time_limit(10):
                s.selectorText = (list(toks), dict(ns))
        except Exception as e:                      # noqa: BLE001 - the class name is the observable
            return 'RAISE ' + type(e).__name__, s
        finally:
            self.cssutils.log.raiseExceptions = False
        if not s.wellformed and s.specificity == (0, 0, 0, 0) and s.element is None:
            return 'REJECT', s                      # indistinguishable from a fresh Selector
        return self.show_sel(s), s

    def show_list(self, sl):
        return 'L %d;%s;%s;%s' % (len(sl), enc(sl.selectorText),
                                  ','.join('%d.%d.%d' % tuple(s.specificity[1:]) for s in sl),
                                  ','.join(enc(s.selectorText) for s in sl))

    def ops(self, ops):
        sl = self.css.SelectorList()
        out = []
        for op in ops:
            try:
                with time_limit(10):
                    if op[0] == 'set':
                        sl.selectorText = (list(op[2]), dict(op[1]))
                    elif op[0] == 'app':
                        sl.appendSelector((list(op[2]), dict(op[1])))
                    elif op[0] == 'idx':
                        sl[op[1]] = list(op[2])
                    elif op[0] == 'del':
                        del sl[op[1]]
                out.append(self.show_list(sl))
            except Exception as e:                  # noqa: BLE001
                out.append('RAISE ' + type(e).__name__)
        return out, sl


def enc_op(op):
    def i2s(i):
        return 'm%d' % -i if i < 0 else '%d' % i
    if op[0] in ('set', 'app'):
        return '%s:%s:%s' % (op[0], enc_ns(op[1]), enc_toks(op[2]))
    if op[0] == 'idx':
        return 'idx:%s:%s' % (i2s(op[1]), enc_toks(op[2]))
    return 'del:%s' % i2s(op[1])


class C16(Check):
    id = 'C16'
    props_module = 'CssVerif.Props.C16'
    driver_exe = 'drv_c16'
    sources = ('cssutils/css/selector.py', 'cssutils/css/selectorlist.py', 'cssutils/serialize.py',
               'cssutils/util.py', 'cssutils/helper.py')
    trusted_base = (
        'hand-written model lean/CssVerif/Model/Sel.lean of Selector._prepare_tokens, the New state machine, the '
        'post-conditions of Selector._setSelectorText, SelectorList parse/append/replace and do_css_Selector at the '
        'default preferences; tied to the source by the differential correspondence of this run on identical token lists',
        'translator tools/gen/c16_selconst.py (class Constants, New.productions, the name tables): read with ast, '
        'cross-checked against the live objects in this run',
        'text level (T16.4): the tokenizer model lean/CssVerif/Model/Tok.lean of C05 (tokenize2.py, tables '
        'Gen/C05Productions.lean regenerated and cross-checked by this check too) in front of the selector model; for plain '
        'spellings tokenize_plain is a theorem, for every generated text the model pipeline text -> tokens -> selector is '
        'compared with the real tokenizer and Selector (seltext stream)',
        'attachment (T16.5): serItems under the sheet\'s effective namespaces, compared with the attached selectorText for '
        'sheets with the same / renamed / fewer / other-default / extra @namespace declarations (attach stream)',
    )
    assumptions = (
        'str.lower() is ASCII case folding on the values the model normalises (pseudo names, `not(`); selectors with '
        'other cased letters in such names are checked by the implementation-side oracle only',
        'token lists consist of 4-tuples (type, value, line, col) with string values; COMMENT tokens hold a comment',
    )
    rule = ('grammar stream: random selector ASTs (compounds of type/universal with optional namespace prefix, id, '
            'class, attribute x 6 operators x ident/string values, pseudo-classes, functional pseudos with an+b / ident '
            '/ string arguments, pseudo-elements in one- and two-colon form, :not(simple); four combinators; six '
            'namespace environments) rendered under independent spelling choices (white space, comments, case, '
            'backslash escapes, quote style), tokenized by the real tokenizer; malformed stream: token-level '
            'mutations of those and soups of tokenized fragments; synthetic stream: hand-made tokens that reach the '
            'partial Python operations; list stream: random set/append/replace/delete histories; text streams: every '
            'grammar case once more as text through the tokenizer model (text, seltext); attach stream: 35 % of the accepted '
            'grammar cases put as a rule object into a sheet with varied @namespace declarations. ' + NONTRIVIAL_NOTE)

    # ------------------------------------------------------------------------------------------
    def translate(self, ctx):
        # the text-level theorems (T16.4) are about the tokenizer model: its generated tables are regenerated too
        d, text = c05_productions.build(ctx.repo)
        try:
            problems = c05_productions.crosscheck(d)
        except Exception as e:                          # noqa: BLE001
            problems = ['cross-check impossible: %r' % (e,)]
        ctx.notes['tokenizer_tables_crosscheck'] = problems or 'ok'
        if problems:
            raise c05_productions.TranslateError('; '.join(problems))
        return {c16_selconst.OUT: c16_selconst.generate(ctx.repo), 'CssVerif/Gen/C05Productions.lean': text}

    def run(self, ctx):
        im = Impl()
        problems = c16_selconst.crosscheck(ctx.repo)
        if problems:
            ctx.disagree('translator vs live objects', 'Constants/productions', problems, 'Gen/C16SelConst.lean')
        ctx.notes['translator_crosscheck'] = problems or 'ok'
        phase = getattr(ctx, 'phase', lambda fn, *a, **k: fn(*a, **k))
        phase(self.whitespace_table, ctx)
        phase(self.corpus, ctx, im)
        phase(self.grammar_stream, ctx, im)
        phase(self.malformed_stream, ctx, im)
        phase(self.list_stream, ctx, im)
        phase(self.rule_stream, ctx, im)
        phase(self.boundary, ctx, im)

    def search(self, ctx):
        """an obligation or the correspondence broke and the run found no failing input yet: look for one on the
        implementation with the same streams (oracle included) under three other seeds at quick size -- other cases, a
        few minutes at most -- stopping at the first violation (the default, one rerun at thorough size, takes 10 min)"""
        ctx.search_mode = True
        seed0 = ctx.seed
        try:
            for k in (1, 2, 3):
                ctx.seed = seed0 * 1000 + 7919 * k
                self.run(ctx)
                if ctx.violations:
                    break
        finally:
            ctx.seed = seed0

    # -- the model's isspace table against CPython ------------------------------------------------
    def whitespace_table(self, ctx):
        if not ctx.model_ok:
            return
        cps = list(range(0, 0x3100)) + [0xFEFF, 0x1D7FF, 0xE0020]
        out = ctx.driver(['space ' + enc(cps)])[0]
        want = ''.join('1' if chr(c).isspace() else '0' for c in cps)
        if out != want:
            bad = [hex(c) for c, a, b in zip(cps, out, want) if a != b][:10]
            ctx.disagree('str.isspace table', bad, 'CPython', 'isPySpace')

    # -- shared: one batch of selector cases ------------------------------------------------------
    def check_selectors(self, ctx, im, cases):
        """cases: dicts with toks, ns, kind, and optionally ast/text for the oracle"""
        lines, idx = [], []
        for i, c in enumerate(cases):
            if in_model_domain(c['toks']):
                lines.append('sel %s %s' % (enc_ns(c['ns']), enc_toks(c['toks'])))
                idx.append(i)
        replies = ctx.driver(lines) if (ctx.model_ok and lines) else []
        model = dict(zip(idx, replies))
        preps = ctx.driver(['prep %s' % enc_toks(cases[i]['toks']) for i in idx]) if (ctx.model_ok and lines) else []
        for i, m in zip(idx, preps):
            try:
                want = enc_toks(im.prepare(cases[i]['toks']))
            except Exception as e:                      # noqa: BLE001
                want = 'RAISE ' + type(e).__name__
            if m != want and not cases[i]['kind'].startswith('synthetic'):
                ctx.disagree('Selector._prepare_tokens', self.witness(cases[i]), want, m)
        for i, c in enumerate(cases):
            got, s = im.sel(c['toks'], c['ns'])
            c['impl'], c['obj'] = got, s
            nontrivial = self.nontrivial(c, got)
            ctx.case(key=(c['kind'], tuple((t[0], t[1]) for t in c['toks']), tuple(sorted(c['ns'].items()))),
                     nontrivial=nontrivial, kind=c['kind'] + (':ok' if got.startswith('OK') else ':' + got.split()[0].lower()),
                     sample={'text': c.get('text'), 'tokens': [[t[0], t[1]] for t in c['toks']][:12], 'impl': got[:160]})
            if i in model:
                if model[i] != got and c['kind'].startswith('synthetic'):
                    # hand-made tokens no tokenizer produces (empty CHAR, pre-grouped types …): they document how
                    # the model treats Python's partial operations; a difference here is recorded, not a broken tie
                    ctx.count('synthetic-difference')
                    ctx.notes.setdefault('synthetic_differences', [])
                    if len(ctx.notes['synthetic_differences']) < 5:
                        ctx.notes['synthetic_differences'].append({'input': self.witness(c), 'impl': got, 'model': model[i]})
                elif model[i] != got:
                    ctx.disagree('Selector on a token list', self.witness(c), got, model[i])
            else:
                ctx.count('impl-only:outside-model-domain')
            self.oracle_any(ctx, im, c)

    def nontrivial(self, c, got):
        if got.startswith('OK'):
            p = got.split()
            return int(p[1]) + int(p[2]) + int(p[3]) >= 2 or any(
                x in got for x in ('n:U', 'n:A', enc('negation-start'), enc('attribute-start'), enc('function-end')))
        return len(c['toks']) >= 2

    def witness(self, c):
        w = {'tokens': [[t[0], t[1]] for t in c['toks']], 'ns': c['ns']}
        if c.get('text') is not None:
            w['text'] = c['text']
        return w

    # -- oracle clauses that hold for ANY token list ----------------------------------------------
    def oracle_any(self, ctx, im, c):
        got, s = c['impl'], c['obj']
        w = self.witness(c)
        synthetic = c['kind'].startswith('synthetic')
        # raising mode: an exception exactly when the logging mode rejects (or raises)
        got_r, s_r = im.sel(c['toks'], c['ns'], raising=True)
        if got.startswith('OK'):
            if got_r != got:
                ctx.violate('a selector accepted in logging mode is accepted identically in raising mode', w,
                            {'logging': got, 'raising': got_r})
        elif not got_r.startswith('RAISE') and not synthetic:
            ctx.violate('a selector rejected in logging mode raises in raising mode', w, {'logging': got, 'raising': got_r})
        if got.startswith('RAISE') and not synthetic:
            ctx.violate('setting selectorText to tokenizer output never raises a Python error', w, got)
        if not got.startswith('OK'):
            if not synthetic and (s.specificity != (0, 0, 0, 0) or len(s.seq) or s.selectorText != ''):
                ctx.violate('a rejected selectorText leaves a fresh Selector empty', w,
                            {'specificity': s.specificity, 'text': s.selectorText})
            return
        sp = s.specificity
        if sp[0] != 0:
            ctx.violate('specificity[0] is 0', w, sp)
        # independent recount over the final seq: ids / classes and attribute selectors / type selectors and
        # pseudo-elements, in every compound and inside :not(), never inside [ ] or a functional pseudo's ( )
        if not synthetic:
            want = recount(s.seq, im.css.CSSComment)
            if want != sp:
                ctx.violate('specificity = (0, #id, #class + #attribute, #type + #pseudo-element) over all compounds '
                            'including the argument of :not()', w, {'reported': sp, 'recount': want})
        # round trip: the serialisation reparses to the same sequence, the same specificity, and is a fixpoint.
        # `:not()` takes ONE simple selector; the state machine also accepts `:not(b c)` (and serialises it as
        # `:not(bc)`): such selectors are outside the CSS3 grammar the property quantifies over (docs/C16.md)
        if not synthetic and not single_negation_args(s.seq, im.css.CSSComment):
            ctx.count('outside-grammar:negation-with-several-arguments')
        elif not synthetic:
            text = s.selectorText
            nsd = dict(s._namespaces.namespaces)
            got2, s2 = im.sel(im.tokenize(text), nsd)
            if not names_serialisable(s.seq):
                # a name holding a character that only a hex escape can produce (`\\2a` is the IDENT `*`): the
                # tokenizer resolves hex escapes and the serializer does not write them back — property C03, not C16
                ctx.count('outside-C16:name-needs-hex-escape')
                return
            if not got2.startswith('OK'):
                ctx.violate('the serialised selector reparses', dict(w, serialised=text), got2)
            else:
                p1, p2 = g.project_seq(s.seq, im.css.CSSComment), g.project_seq(s2.seq, im.css.CSSComment)
                if p1 != p2 or s2.specificity != sp:
                    ctx.violate('the serialised selector reparses to the same sequence of simple selectors and '
                                'combinators with the same specificity', dict(w, serialised=text),
                                {'before': [p1, sp], 'after': [p2, s2.specificity]})
                if s2.selectorText != text:
                    ctx.violate('serialisation is a fixpoint', dict(w, serialised=text), s2.selectorText)

    # -- grammar stream ---------------------------------------------------------------------------
    def grammar_stream(self, ctx, im):
        rng = ctx.sub_rng('grammar')
        n = ctx.n(3000, 40000)
        cases = []
        for i in range(n):
            ns = rng.choice(g.NSENVS)
            ast = g.gen_selector(rng, ns)
            for variant in range(2):
                sp = g.Spelling(rng, ws=rng.choice([0, 0.3, 0.7]), comments=rng.choice([0, 0.1, 0.3]),
                                case=rng.choice([0, 0.3, 1.0]), escapes=rng.choice([0, 0.1, 0.4]),
                                minimal=(variant == 0 and rng.random() < 0.3))
                text, words = g.render_selector(ast, sp, tokenize=lambda t: [(x[0], x[1]) for x in im.tok.tokenize(t)])
                cases.append({'kind': 'grammar', 'ast': ast, 'ns': ns, 'text': text, 'toks': im.tokenize(text),
                              'group': i, 'words': words})
        self.check_selectors(ctx, im, cases)
        self.check_spec(ctx, im, cases)
        self.check_text(ctx, im, cases)
        self.check_attach(ctx, im, cases, rng)
        for c in cases:
            self.oracle_grammar(ctx, im, c)
        # pairwise invariance inside a group (same AST, different spelling)
        by = {}
        for c in cases:
            by.setdefault(c['group'], []).append(c)
        for grp in by.values():
            a, b = grp[0], grp[1]
            if a['impl'].startswith('OK') and b['impl'].startswith('OK'):
                pa = g.project_seq(a['obj'].seq, im.css.CSSComment)
                pb = g.project_seq(b['obj'].seq, im.css.CSSComment)
                if a['obj'].specificity != b['obj'].specificity or pa != pb:
                    ctx.violate('specificity and structure do not depend on white space, comments, case of '
                                'case-insensitive names, escapes or quote style',
                                {'text': a['text'], 'other_text': b['text'], 'ns': a['ns']},
                                {'a': [a['obj'].specificity, pa], 'b': [b['obj'].specificity, pb]})
        # impl-only: cased non-ASCII letters in pseudo names (outside the model's lower())
        for i in range(ctx.n(60, 1500)):
            ns = rng.choice(g.NSENVS)
            ast = g.gen_selector(rng, ns)
            ast[0]['simples'].append(('pc', rng.choice(['hÖver', 'ÉTAT', 'Ǆx', 'İ'])))
            text = g.render_selector(ast, g.Spelling(rng))
            c = {'kind': 'grammar-nonascii', 'ast': None, 'ns': ns, 'text': text, 'toks': im.tokenize(text)}
            c['impl'], c['obj'] = im.sel(c['toks'], ns)
            ctx.case(key=('na', text), nontrivial=True, kind='grammar-nonascii')
            want = g.expected_specificity(ast)
            if not c['impl'].startswith('OK') or c['obj'].specificity != want:
                ctx.violate('specificity known by construction (non-ASCII pseudo-class name)', self.witness(c),
                            {'impl': c['impl'][:200], 'want': want})
            self.oracle_any(ctx, im, c)

    def check_spec(self, ctx, im, cases):
        """the specification side of the theorems (Model/SelSpec.lean) against tokenizer and implementation:
        `Sel.raw` of the written selector = the real tokenizer's tokens of its text; `Sel.ok`; `Sel.count`,
        `Sel.items`, `Sel.element` = what the implementation reports"""
        if not ctx.model_ok:
            return
        good = [c for c in cases if in_model_domain(c['toks'])]
        replies = ctx.driver(['spec %s %s' % (enc_ns(c['ns']), ' '.join(c['words'])) for c in good])
        for c, r in zip(good, replies):
            w = dict(self.witness(c), words=' '.join(c['words']))
            if not r.startswith('SPEC '):
                ctx.disagree('written-selector wire format', w, None, r)
                continue
            f = dict(x.split('=', 1) for x in r.split(' ')[5:])
            ok, b, cc, d = r.split(' ')[1:5]
            if ok != 'ok=1':
                ctx.disagree('Sel.ok holds for generated written selectors', w, True, r[:80])
            if f['RAW'] != enc_toks(c['toks']):
                ctx.disagree('Sel.raw = tokens of the real tokenizer', w, enc_toks(c['toks']), f['RAW'])
            got = c['impl']
            if got.startswith('OK'):
                p = got.split(' ')
                gf = dict(x.split('=', 1) for x in p[4:])
                if (b, cc, d) != (p[1], p[2], p[3]):
                    ctx.disagree('Sel.count = reported specificity', w, p[1:4], [b, cc, d])
                if f['I'] != gf['I']:
                    ctx.disagree('Sel.items = parsed seq', w, gf['I'], f['I'])
                if f['E'] != gf['E']:
                    ctx.disagree('Sel.element = Selector.element', w, gf['E'], f['E'])
            else:
                ctx.disagree('a written selector is accepted', w, got, r[:80])
            try:
                cooked = enc_toks(im.prepare(c['toks']))
            except Exception as e:                      # noqa: BLE001
                cooked = 'RAISE ' + type(e).__name__
            if f['COOKED'] != cooked:
                ctx.disagree('Sel.cooked = Selector._prepare_tokens(tokens)', w, cooked, f['COOKED'])
            ctx.count('spec-checked')

    def check_text(self, ctx, im, cases):
        """text level (T16.4): the tokenizer model in front of the selector model.
        `text`: for the written selector, `plainChain raw`; for plain ones `Sel.text` = the rendered text and the
        tokens of the tokenizer model = `Sel.raw` (the instance of `tokenize_plain`);
        `seltext`: for EVERY generated text (plain or not) the model pipeline text -> tokens -> selector gives the real
        tokenizer's tokens and what `Selector` reports for the text."""
        if not ctx.model_ok:
            return
        good = [c for c in cases if in_model_domain(c['toks']) and c.get('text') is not None]
        lines = []
        for c in good:
            if c.get('words'):
                lines.append('text %s %s' % (enc_ns(c['ns']), ' '.join(c['words'])))
            lines.append('seltext %s %s' % (enc_ns(c['ns']), enc(c['text'])))
        replies = iter(ctx.driver(lines))
        for c in good:
            w = dict(self.witness(c))
            want_toks = enc_toks([(t[0], t[1]) for t in c['toks']])
            if c.get('words'):
                r = next(replies)
                if not r.startswith('TEXT '):
                    ctx.disagree('written-selector wire format (text)', w, None, r[:80])
                else:
                    head, parsed = r.split(' | ', 1)
                    f = dict(x.split('=', 1) for x in head.split(' ')[1:])
                    if f['plain'] == '1':
                        ctx.count('text-plain')
                        if f['T'] != enc(c['text']):
                            ctx.disagree('Sel.text of a plain written selector = its rendered text', w, enc(c['text']), f['T'])
                        if f['TOK'] != want_toks:
                            ctx.disagree('tokenize_plain instance: tokenizer model on Sel.text = Sel.raw = real tokens',
                                         w, want_toks, f['TOK'])
                        if parsed != c['impl']:
                            ctx.disagree('text_render instance: model pipeline on Sel.text = Selector(text)', w,
                                         c['impl'], parsed)
                    else:
                        ctx.count('text-nonplain')
                    ctx.case(key=('text', c['text'], tuple(sorted(c['ns'].items()))), nontrivial=len(c['toks']) >= 3,
                             kind='text:plain' if f['plain'] == '1' else 'text:other-spelling',
                             sample={'text': c['text']})
            r = next(replies)
            if not r.startswith('SELTEXT '):
                ctx.disagree('seltext wire format', w, None, r[:80])
                continue
            head, parsed = r.split(' | ', 1)
            f = dict(x.split('=', 1) for x in head.split(' ')[1:])
            if f['TOK'] != want_toks:
                ctx.disagree('tokenizer model on a selector text = real tokenizer', w, want_toks, f['TOK'])
            elif parsed != c['impl']:
                ctx.disagree('model pipeline text -> tokens -> selector = Selector(text)', w, c['impl'], parsed)
            ctx.count('seltext-checked')

    def check_attach(self, ctx, im, cases, rng):
        """attachment (T16.5): a selector parsed with its namespaces and then put, inside a rule object, into a sheet
        with the same / renamed / fewer / more @namespace declarations: the model's text under the sheet's effective
        namespaces (`serItems view seq`) = `selectorText` of the attached selector; the specificity does not move."""
        if not ctx.model_ok:
            return
        css = im.css
        lines, meta = [], []
        for c in cases:
            if not in_model_domain(c['toks']) or not c['impl'].startswith('OK'):
                continue
            if rng.random() > 0.35:
                continue
            ns = c['ns']
            variant = rng.choice(['same', 'same', 'renamed', 'no-default', 'other-default', 'extra'])
            if variant == 'same':
                sns = dict(ns)
            elif variant == 'renamed':
                sns = {(('r' + p) if p else p): u for p, u in ns.items()}
            elif variant == 'no-default':
                sns = {p: u for p, u in ns.items() if p}
            elif variant == 'other-default':
                sns = dict(ns)
                sns[''] = rng.choice(['urn:p', 'urn:x', ''])
            else:
                sns = dict(ns)
                sns['z'] = rng.choice(['urn:p', 'urn:d', 'urn:z'])
            try:
                with time_limit(10):
                    sheet = css.CSSStyleSheet()
                    for p_, u_ in sns.items():
                        sheet.namespaces[p_] = u_
                    rule = css.CSSStyleRule()
                    rule.selectorList.selectorText = (list(c['toks']), dict(ns))
                    if len(rule.selectorList) != 1:
                        continue
                    sheet.insertRule(rule)
                    sel = sheet.cssRules[-1].selectorList[0]
                    view = dict(sheet.namespaces.namespaces)
                    got = 'ATT %d %d %d T=%s' % (sel.specificity[1], sel.specificity[2], sel.specificity[3],
                                                 enc(sel.selectorText))
            except Exception as e:                      # noqa: BLE001
                ctx.count('attach-impl-raised:' + type(e).__name__)
                continue
            lines.append('attach %s %s %s' % (enc_ns(ns), enc_ns(view), enc_toks(c['toks'])))
            meta.append((c, variant, sns, got))
        for (c, variant, sns, got), r in zip(meta, ctx.driver(lines) if lines else []):
            ctx.case(key=('attach', c['text'], variant, tuple(sorted(sns.items()))), nontrivial=bool(c['ns']) or bool(sns),
                     kind='attach:' + variant, sample={'text': c['text'], 'ns': c['ns'], 'sheet_ns': sns, 'impl': got[:120]})
            if r != got:
                ctx.disagree('selector attached to a sheet (text under the sheet\'s namespaces, specificity)',
                             dict(self.witness(c), sheet_ns=sns), got, r)
            sp = c['obj'].specificity
            if got.split(' ')[1:4] != [str(sp[1]), str(sp[2]), str(sp[3])]:
                ctx.violate('attaching the selector to a style sheet does not change its specificity',
                            dict(self.witness(c), sheet_ns=sns), {'detached': sp, 'attached': got[:40]})
            ctx.count('attach-checked')

    def oracle_grammar(self, ctx, im, c):
        """the generator knows specificity and structure by construction"""
        w = self.witness(c)
        got, s = c['impl'], c['obj']
        want = g.expected_specificity(c['ast'])
        if not got.startswith('OK'):
            ctx.violate('a selector of the CSS3 selector grammar is accepted', w, got)
            return
        if s.specificity != want:
            ctx.violate('specificity = (0, #id, #class + #attribute, #type + #pseudo-element) over all compounds '
                        'including the argument of :not()', w, {'reported': s.specificity, 'by_construction': want})
        proj = g.project_seq(s.seq, im.css.CSSComment)
        wantp = g.expected_projection(c['ast'], c['ns'])
        if proj != wantp:
            ctx.violate('the parsed sequence of simple selectors and combinators is the one written',
                        w, {'parsed': proj, 'by_construction': wantp})
        # attachment to a sheet (namespaces declared there)
        sheet_text = ''.join('@namespace %s"%s";' % ((p + ' ') if p else '', u) for p, u in
                             sorted(c['ns'].items(), key=lambda kv: kv[0] == '')) + c['text'] + '{left:0}'
        with time_limit(10):
            sheet = im.cssutils.parseString(sheet_text)
        rules = [r for r in sheet.cssRules if r.type == r.STYLE_RULE]
        if len(rules) != 1 or len(rules[0].selectorList) != 1:
            ctx.violate('the selector is accepted inside a style sheet', dict(w, sheet=sheet_text),
                        sheet.cssText.decode() if isinstance(sheet.cssText, bytes) else sheet.cssText)
        else:
            s3 = rules[0].selectorList[0]
            p3 = g.project_seq(s3.seq, im.css.CSSComment)
            if s3.specificity != s.specificity or p3 != proj:
                ctx.violate('attaching the selector to a style sheet changes neither specificity nor structure',
                            dict(w, sheet=sheet_text), {'detached': [s.specificity, proj], 'attached': [s3.specificity, p3]})
            injective = len(set(c['ns'].values())) == len(c['ns'])     # two prefixes for one URI: C15's business
            if s3.selectorText != s.selectorText and not c['text'].lstrip().startswith('/*') and injective:
                # (a comment before the selector of a rule belongs to the sheet, not to the selector)
                ctx.violate('attaching the selector to a style sheet does not change its text',
                            dict(w, sheet=sheet_text), {'detached': s.selectorText, 'attached': s3.selectorText})

    # -- malformed / soup / synthetic ---------------------------------------------------------------
    def malformed_stream(self, ctx, im):
        rng = ctx.sub_rng('malformed')
        cases = []
        for _ in range(ctx.n(3000, 50000)):
            ns = rng.choice(g.NSENVS)
            ast = g.gen_selector(rng, ns, max_compounds=3)
            text = g.render_selector(ast, g.Spelling(rng))
            toks = g.mutate(rng, im.tokenize(text), im.tokenize)
            cases.append({'kind': 'mutated', 'ns': ns, 'toks': toks})
        for _ in range(ctx.n(3000, 50000)):
            ns = rng.choice(g.NSENVS)
            cases.append({'kind': 'soup', 'ns': ns, 'toks': g.soup(rng, im.tokenize, ns)})
        for _ in range(ctx.n(800, 20000)):
            ns = rng.choice(g.NSENVS)
            cases.append({'kind': 'synthetic', 'ns': ns, 'toks': g.synthetic(rng)})
        # text-level truncation at every offset of a few rendered selectors
        for _ in range(ctx.n(25, 400)):
            ns = rng.choice(g.NSENVS)
            text = g.render_selector(g.gen_selector(rng, ns, max_compounds=2), g.Spelling(rng))
            for k in range(1, len(text)):
                try:
                    toks = im.tokenize(text[:k])
                except Exception:           # noqa: BLE001 - tokenizer failures belong to C05
                    continue
                cases.append({'kind': 'truncated', 'ns': ns, 'toks': toks, 'text': text[:k]})
        self.check_selectors(ctx, im, cases)

    # -- lists ------------------------------------------------------------------------------------
    def gen_list_text(self, rng, ns, im):
        """(tokens, per-member info): 1-4 members, some invalid"""
        k = rng.choice([1, 1, 2, 2, 3, 4])
        members, texts = [], []
        for _ in range(k):
            r = rng.random()
            if r < 0.12:
                t = rng.choice(['', ' ', 'a >', '.', ':not(', '[a', 'a,,', '&', 'a:not(b))', 'q2|a', '/*c*/'])
                members.append(None)
            elif r < 0.45:
                t = rng.choice(['a', 'b', '.c', '#i', 'a b', 'a>b', 'a > b', 'a  b', 'A', 'a:hover', 'a:HOVER', '*', 'a.c',
                                'p|a', '[x=","]', ':not(.c)', 'a/*c*/', ':nth-child(2n+1)', ':nth-child(2n + 1)'])
                members.append(t)
            else:
                ast = g.gen_selector(rng, ns, max_compounds=2)
                t = g.render_selector(ast, g.Spelling(rng, comments=0.05))
                members.append(t)
            texts.append(t)
        text = rng.choice([',', ', ', ' , ', ',\n']).join(texts)
        return text, members

    def list_stream(self, ctx, im):
        rng = ctx.sub_rng('lists')
        hist = []
        for _ in range(ctx.n(1200, 12000)):
            ns = rng.choice(g.NSENVS)
            ops, meta = [], []
            for _ in range(rng.choice([1, 2, 3, 4, 5, 6, 8])):
                r = rng.random()
                if r < 0.3:
                    text, members = self.gen_list_text(rng, ns, im)
                    ops.append(('set', ns, im.tokenize(text)))
                    meta.append({'text': text, 'members': members})
                elif r < 0.75:
                    text, members = self.gen_list_text(rng, ns, im)
                    if rng.random() < 0.8:
                        text, members = (members[0] or ''), members[:1]
                    ops.append(('app', rng.choice([ns, ns, {}]), im.tokenize(text) if text else []))
                    meta.append({'text': text, 'members': members})
                elif r < 0.9:
                    text, members = self.gen_list_text(rng, {}, im)
                    text, members = (members[0] or 'a,'), members[:1]
                    ops.append(('idx', rng.randint(-4, 4), im.tokenize(text)))
                    meta.append({'text': text, 'members': members})
                else:
                    ops.append(('del', rng.randint(-4, 4)))
                    meta.append({})
            hist.append((ops, meta))
        ok = [all(in_model_domain(op[2]) for op in ops if op[0] != 'del') for ops, _ in hist]
        lines = ['ops ' + ' '.join(enc_op(op) for op in ops) for (ops, _), good in zip(hist, ok) if good]
        replies = iter(ctx.driver(lines) if (ctx.model_ok and lines) else [])
        for (ops, meta), good in zip(hist, ok):
            got, sl = im.ops(ops)
            w = {'ops': [[op[0]] + [x if not isinstance(x, list) else [[t[0], t[1]] for t in x] for x in op[1:]]
                         for op in ops], 'meta': [{'text': m.get('text'), 'members': m.get('members')} for m in meta]}
            interesting = any(r.startswith('RAISE') for r in got) or any(
                got[i] == got[i - 1] for i in range(1, len(got)))
            ctx.case(key=('list', tuple(enc_op(op) for op in ops)), nontrivial=interesting or len(ops) >= 3,
                     kind='list-history', sample={'ops': [m.get('text') for m in meta], 'impl': got[-1][:120]})
            if good and ctx.model_ok:
                m = next(replies).split(' | ')
                if m != got:
                    k = next((i for i, (a, b) in enumerate(zip(m, got)) if a != b), min(len(m), len(got)))
                    ctx.disagree('SelectorList history', cut(w, k), got[:k + 1], m[:k + 1])
            self.oracle_list(ctx, im, ops, meta, w)

    def oracle_list(self, ctx, im, ops, meta, w):
        """replay the history on a fresh list, checking the three list clauses against per-member facts"""
        sl = im.css.SelectorList()
        for k, (op, m) in enumerate(zip(ops, meta)):
            before = [s.selectorText for s in sl]
            try:
                with time_limit(10):
                    if op[0] == 'set':
                        sl.selectorText = (list(op[2]), dict(op[1]))
                    elif op[0] == 'app':
                        sl.appendSelector((list(op[2]), dict(op[1])))
                    elif op[0] == 'idx':
                        sl[op[1]] = list(op[2])
                    elif op[0] == 'del':
                        del sl[op[1]]
            except IndexError:
                if op[0] in ('idx', 'del') and not (-len(before) <= op[1] < len(before)):
                    continue
                ctx.violate('list operation raises IndexError only for an index out of range', cut(w, k), None)
                continue
            except Exception as e:          # noqa: BLE001
                ctx.violate('list operations on tokenizer output do not raise', cut(w, k), repr(e))
                continue
            after = [s.selectorText for s in sl]
            if op[0] == 'set':
                members = m['members']
                # independent: each member alone
                singles = []
                for t in members:
                    if t is None:
                        singles.append(None)
                        continue
                    r, s = im.sel(im.tokenize(t), op[1])
                    singles.append(s.selectorText if r.startswith('OK') else None)
                if any(x is None for x in singles):
                    if after != before:
                        ctx.violate('a selector list with an invalid member is rejected as a whole (old value kept)',
                                    cut(w, k), {'before': before, 'after': after})
                elif after != singles:
                    ctx.violate('a selector list keeps its members in source order', cut(w, k),
                                {'members_alone': singles, 'list': after})
            elif op[0] == 'app':
                if len(m['members']) == 1 and m['members'][0] is not None and after != before:
                    new = after[-1]
                    rest = [x for x in before if x != new]
                    if after != rest + [new]:
                        ctx.violate('appending moves an already present selector to the end (no duplicate); the '
                                    'others keep their order', cut(w, k), {'before': before, 'after': after})
                if len(m['members']) == 1 and m['members'][0] is None and after != before:
                    ctx.violate('appending an invalid selector changes nothing', cut(w, k),
                                {'before': before, 'after': after})
            elif op[0] == 'del':
                i = op[1]
                exp = list(before)
                del exp[i]
                if after != exp:
                    ctx.violate('del list[i] removes exactly that member', cut(w, k), {'before': before, 'after': after})
            elif op[0] == 'idx':
                if after != before:
                    exp = list(before)
                    exp[op[1]] = after[op[1]]
                    if after != exp:
                        ctx.violate('list[i] = selector replaces exactly that member', cut(w, k),
                                    {'before': before, 'after': after})
            if len(sl) != sl.length or sl.selectorText != ', '.join(after):
                ctx.violate('length / selectorText / iteration of a selector list agree', cut(w, k),
                            {'length': sl.length, 'text': sl.selectorText, 'members': after})

    # -- a style rule inside a sheet: CSSStyleRule.selectorText (cssstylerule.py:218-239) -------------------
    def rule_stream(self, ctx, im):
        """implementation only: setting the selector text of a rule that is attached to a sheet gives the members
        a free-standing Selector gives (same text, same specificity), in order, all or nothing"""
        rng = ctx.sub_rng('rules')
        for _ in range(ctx.n(250, 5000)):
            ns = rng.choice([e for e in g.NSENVS if len(set(e.values())) == len(e)])
            rule, detached = self.new_rules(im, ns)
            for step in range(rng.choice([1, 2, 3, 4])):
                text, members = self.gen_list_text(rng, ns, im)
                if not self.rule_step(ctx, im, ns, rule, detached, text, members):
                    break

    def new_rules(self, im, ns):
        css = im.css
        sheet = css.CSSStyleSheet()
        for p, u in sorted(ns.items(), key=lambda kv: kv[0] == ''):
            sheet.add(css.CSSNamespaceRule(namespaceURI=u, prefix=p))
        rule = css.CSSStyleRule(selectorText='zz', style='left: 0')
        sheet.add(rule)
        rule.selectorText = 'zz'            # resolved against the sheet's namespaces from the start
        detached = css.CSSStyleRule(selectorText=('zz', dict(ns)), style='left: 0')
        self._keep = sheet                  # the rule refers to its sheet weakly
        return rule, detached

    def rule_step(self, ctx, im, ns, rule, detached, text, members):
        before = [s.selectorText for s in rule.selectorList]
        w = {'ns': ns, 'text': text, 'members': members, 'rule_before': before, 'stream': 'rule'}
        try:
            with time_limit(10):
                rule.selectorText = text
                detached.selectorText = (text, dict(ns))
        except Exception as e:          # noqa: BLE001
            ctx.violate('CSSStyleRule.selectorText does not raise in logging mode', w, repr(e))
            return False
        after = [s.selectorText for s in rule.selectorList]
        singles = []
        for t in members:
            r, s1 = (im.sel(im.tokenize(t), ns) if t is not None else ('REJECT', None))
            singles.append((s1.selectorText, s1.specificity) if r.startswith('OK') else None)
        ctx.case(key=('rule', text, tuple(sorted(ns.items()))), nontrivial=len(members) > 1 or None in singles,
                 kind='rule-selectorText', sample={'text': text, 'rule': after})
        if any(x is None for x in singles):
            if after != before:
                ctx.violate('a rule keeps its selector list when the new text has an invalid member', w,
                            {'before': before, 'after': after})
        else:
            got = [(s.selectorText, s.specificity) for s in rule.selectorList]
            if got != singles:
                ctx.violate('the members of a rule in a sheet are the selectors parsed alone: same text, same '
                            'specificity, same order', w, {'alone': singles, 'in_rule': got})
        if [s.selectorText for s in detached.selectorList] != after:
            ctx.violate('a rule attached to a sheet and a detached rule with the same namespaces agree', w,
                        {'attached': after, 'detached': [s.selectorText for s in detached.selectorList]})
        if rule.selectorText != ', '.join(after) or (after and not rule.cssText.startswith(rule.selectorText)):
            ctx.violate('rule.selectorText / cssText show the list', w, {'text': rule.selectorText, 'css': rule.cssText})
        return True

    # -- boundary: exhaustive small cases ------------------------------------------------------------
    def boundary(self, ctx, im):
        """every pair / triple of a small fragment alphabet, tokenized: all short selectors"""
        alpha = ['a', '*', '|', 'p|', '.c', '#i', ':hover', '::after', ':before', ':NOT(', ':nth-child(', '[', ']', ')',
                 '=', '~=', '"s"', '2n', '+', '-', '>', '~', ',', ' ', '/*c*/', '1']
        cases = []
        ns = {'p': 'urn:p'}
        for x in alpha:
            for y in alpha:
                cases.append({'kind': 'exhaustive-2', 'ns': ns, 'toks': im.tokenize(x) + im.tokenize(y)})
        if ctx.tier_counts == 'thorough':
            for x in alpha:
                for y in alpha:
                    for z in alpha:
                        cases.append({'kind': 'exhaustive-3', 'ns': ns,
                                      'toks': im.tokenize(x) + im.tokenize(y) + im.tokenize(z)})
        else:
            rng = ctx.sub_rng('boundary')
            for _ in range(1500):
                toks = []
                for f in (rng.choice(alpha) for _ in range(rng.choice([3, 3, 4, 5]))):
                    toks += im.tokenize(f)
                cases.append({'kind': 'small-alphabet', 'ns': ns, 'toks': toks})
        self.check_selectors(ctx, im, cases)

    # -- corpus: minimised past failures and hand-picked probes, run first --------------------------
    def corpus(self, ctx, im):
        cases = []
        for path in sorted(glob.glob(os.path.join(ctx.verif, 'tools', 'corpus', 'C16', '*.json'))):
            for e in json.load(open(path)):
                ns = e.get('ns', {})
                if 'ast' in e:
                    continue
                toks = [tuple(t) + (1, 1) for t in e['tokens']] if 'tokens' in e else im.tokenize(e['text'])
                cases.append({'kind': 'corpus' if 'tokens' not in e else 'synthetic-corpus', 'ns': ns, 'toks': toks,
                              'text': e.get('text'), 'expect': e.get('specificity')})
        self.check_selectors(ctx, im, cases)
        for c in cases:
            if c.get('expect') is not None:
                want = tuple(c['expect']) if c['expect'] != 'reject' else None
                got = c['obj'].specificity if c['impl'].startswith('OK') else None
                if got != want:
                    ctx.violate('specificity of a corpus selector', self.witness(c), {'impl': c['impl'][:200], 'want': want})

    # ------------------------------------------------------------------------------------------
    def known(self, ctx, finding):
        """no finding with status "known" is listed at present (known/C16.json holds fixed ones only)"""
        return True

    def replay(self, ctx, data):
        im = Impl()
        ctx.model_ok = True
        ws = []
        if data.get('kind') == 'impl-violates':
            ws.append(data.get('witness') or {})
        for b in data.get('broken', []):
            if isinstance(b.get('input'), dict):
                ws.append(b['input'])
        done = False
        for w in ws:
            if w.get('stream') == 'rule':
                rule, detached = self.new_rules(im, w['ns'])
                if w.get('rule_before') not in (None, ['zz'], ['|zz']):
                    rule.selectorText = ', '.join(w['rule_before'])
                    detached.selectorText = (', '.join(w['rule_before']), dict(w['ns']))
                self.rule_step(ctx, im, w['ns'], rule, detached, w['text'], w['members'])
                done = True
            elif 'ops' in w:
                ops = []
                for op in w['ops']:
                    if op[0] in ('set', 'app'):
                        ops.append((op[0], op[1], [tuple(t) + (1, 1) for t in op[2]]))
                    elif op[0] == 'idx':
                        ops.append(('idx', op[1], [tuple(t) + (1, 1) for t in op[2]]))
                    else:
                        ops.append(('del', op[1]))
                got, _ = im.ops(ops)
                m = ctx.driver(['ops ' + ' '.join(enc_op(op) for op in ops)])[0].split(' | ')
                if m != got:
                    ctx.disagree('SelectorList history', w, got, m)
                if 'meta' in w:
                    self.oracle_list(ctx, im, ops, w['meta'], w)
                done = True
            elif 'tokens' in w:
                c = {'kind': 'replay', 'ns': w.get('ns', {}), 'toks': [tuple(t) + (1, 1) for t in w['tokens']],
                     'text': w.get('text')}
                self.check_selectors(ctx, im, [c])
                done = True
        if not done:
            self.run(ctx)


_re = __import__('re')
_NMCH = r'(?:[A-Za-z0-9_\-\u0080-\U0010ffff]|\\[^\n\r\f0-9a-fA-F])'
_NMST = r'(?:[A-Za-z_\u0080-\U0010ffff]|\\[^\n\r\f0-9a-fA-F])'
_IDENT = _re.compile(r'^-?%s%s*$' % (_NMST, _NMCH))
_PLAIN_NAME = _re.compile(r'^:{1,2}-?%s%s*\(?$' % (_NMST, _NMCH))
_NAME = _re.compile(r'^%s+$' % _NMCH)


def names_serialisable(seq):
    """every name in the parsed selector can be written back as it is stored (name characters and simple escapes)"""
    for it in seq:
        v, t = it.value, it.type
        if isinstance(v, tuple):
            if v[1] != '*' and not _IDENT.match(v[1]):
                return False
        elif t == 'id':
            if not (v.startswith('#') and _NAME.match(v[1:])):
                return False
        elif t == 'class':
            if not (v.startswith('.') and _IDENT.match(v[1:])):
                return False
        elif t in ('attribute-selector', 'attribute-value', 'IDENT'):
            if not _IDENT.match(v):
                return False
        elif t in ('pseudo-class', 'pseudo-element', 'negation-start'):
            if not _PLAIN_NAME.match(v):
                return False
    return True


def single_negation_args(seq, comment_cls):
    """every :not( ... ) holds exactly one simple selector (an attribute selector or a functional pseudo with its
    arguments is one)"""
    items = [(it.value, it.type) for it in seq if not isinstance(it.value, comment_cls)]
    i = 0
    while i < len(items):
        if items[i][1] == 'negation-start':
            j, n, depth = i + 1, 0, 0
            while j < len(items) and items[j][1] != 'negation-end':
                v, t = items[j]
                if t in ('attribute-end', 'function-end'):
                    depth -= 1
                elif depth == 0:
                    n += 1
                    if t == 'attribute-start' or (t in ('pseudo-class', 'pseudo-element') and isinstance(v, str)
                                                  and v.endswith('(')):
                        depth += 1
                j += 1
            if n != 1:
                return False
            i = j
        i += 1
    return True


def cut(w, k):
    """a list-history witness shortened to the operations up to and including the failing one"""
    return {'ops': w['ops'][:k + 1], 'meta': w['meta'][:k + 1], 'at_op': k}


def recount(seq, comment_cls):
    """independent specificity of a parsed seq: walk the items, tracking [ ] and functional ( ) nesting"""
    b = c = d = 0
    depth_attr = depth_func = 0
    for it in seq:
        t, v = it.type, it.value
        if isinstance(v, comment_cls):
            continue
        if t == 'attribute-start':
            if not depth_func and not depth_attr:
                c += 1
            depth_attr += 1
        elif t == 'attribute-end':
            depth_attr -= 1
        elif t == 'function-end':
            depth_func -= 1
        elif depth_attr or depth_func:
            continue
        elif t in ('pseudo-class', 'pseudo-element'):
            if t == 'pseudo-element':
                d += 1
            if isinstance(v, str) and v.endswith('('):
                depth_func += 1
        elif t == 'id':
            b += 1
        elif t == 'class':
            c += 1
        elif t in ('type-selector', 'negation-type-selector'):
            d += 1
    return (0, b, c, d)


CHECK = C16()
