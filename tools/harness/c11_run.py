"""C11 harness: build the prior state of a case, locate the target, build arguments, call the mutator in raising
mode under a line tracer, and return what was observed."""
import sys
import xml.dom

from harness import c11_dom as dom


# ---------------------------------------------------------------------------------------------------
def build_state(state):
    cu = dom.cssutils_mod()
    if 'sheet' in state:
        sheet, fetch = dom.parse_sheet(state['sheet'])
        return sheet, sheet, fetch
    obj = make_obj({'obj': state['new'], 'kw': state.get('kw', {})}, None, dom.Fetch())
    del cu
    return obj, None, dom.Fetch()


def step(o, tok):
    if tok.startswith('#'):
        return o[int(tok[1:])]
    if tok == 'props':
        return o.getProperties(all=True)
    if tok == 'values':
        return list(o)
    if tok == 'selectors':
        return list(o.seq)
    if tok == 'queries':
        return [i.value for i in o]
    return getattr(o, tok)


def locate(root, path):
    o = root
    for tok in path:
        o = step(o, tok)
    return o


def class_of(o):
    return type(o).__name__


def targets(root):
    """all (path, object) reachable from a root that have public mutators"""
    cu = dom.cssutils_mod()
    c, st = cu.css, cu.stylesheets
    out = []

    def style(path, s):
        out.append((path, s))
        for i, p in enumerate(s.getProperties(all=True)):
            pp = path + ['props', '#%d' % i]
            out.append((pp, p))
            pv = p.propertyValue
            out.append((pp + ['propertyValue'], pv))
            for j, v in enumerate(list(pv)):
                out.append((pp + ['propertyValue', 'values', '#%d' % j], v))

    def media(path, ml):
        if ml is None:
            return
        out.append((path, ml))
        for i, item in enumerate(ml):
            out.append((path + ['queries', '#%d' % i], item.value))

    def rule(path, r):
        out.append((path, r))
        t = r.type
        if t == r.STYLE_RULE:
            out.append((path + ['selectorList'], r.selectorList))
            for i, s in enumerate(r.selectorList.seq):
                out.append((path + ['selectorList', 'selectors', '#%d' % i], s))
            style(path + ['style'], r.style)
        elif t in (r.FONT_FACE_RULE, r.MARGIN_RULE):
            style(path + ['style'], r.style)
        elif t == r.PAGE_RULE:
            style(path + ['style'], r.style)
            for i, x in enumerate(r.cssRules):
                rule(path + ['cssRules', '#%d' % i], x)
        elif t == r.MEDIA_RULE:
            media(path + ['media'], r.media)
            for i, x in enumerate(r.cssRules):
                rule(path + ['cssRules', '#%d' % i], x)
        elif t == r.IMPORT_RULE:
            media(path + ['media'], r.media)
        elif t == r.VARIABLES_RULE:
            out.append((path + ['variables'], r.variables))

    if isinstance(root, c.CSSStyleSheet):
        out.append(([], root))
        out.append((['namespaces'], root.namespaces))
        for i, r in enumerate(root.cssRules):
            rule(['cssRules', '#%d' % i], r)
    elif isinstance(root, c.CSSRule):
        rule([], root)
    elif isinstance(root, c.CSSStyleDeclaration):
        style([], root)
    elif isinstance(root, st.MediaList):
        media([], root)
    else:
        out.append(([], root))
    return out


STANDALONE = [
    {'new': 'CSSStyleRule', 'kw': {'selectorText': 'a, b', 'style': 'color: red; top: 0'}},
    {'new': 'CSSMediaRule', 'kw': {'mediaText': 'print, tv'}},
    {'new': 'CSSPageRule', 'kw': {'selectorText': ':first', 'style': 'margin: 0'}},
    {'new': 'MarginRule', 'kw': {'margin': '@top-left', 'style': 'color: red'}},
    {'new': 'CSSFontFaceRule', 'kw': {'style': 'font-family: x; src: url(a.ttf)'}},
    {'new': 'CSSImportRule', 'kw': {'href': 'i1.css', 'mediaText': 'print'}},
    {'new': 'CSSNamespaceRule', 'kw': {'namespaceURI': 'http://p', 'prefix': 'p'}},
    {'new': 'CSSNamespaceRule', 'kw': {}},
    {'new': 'CSSCharsetRule', 'kw': {'encoding': 'utf-8'}},
    {'new': 'CSSComment', 'kw': {'cssText': '/* c */'}},
    {'new': 'CSSUnknownRule', 'kw': {'cssText': '@foo bar;'}},
    {'new': 'CSSUnknownRule', 'kw': {}},
    {'new': 'CSSVariablesRule', 'kw': {'variables': 'c: red; w: 1px'}},
    {'new': 'CSSVariablesDeclaration', 'kw': {'cssText': 'c: red; w: 1px'}},
    {'new': 'CSSStyleDeclaration', 'kw': {'cssText': 'color: red; top: 0 !important; color: blue'}},
    {'new': 'Property', 'kw': {'name': 'color', 'value': 'red', 'priority': 'important'}},
    {'new': 'PropertyValue', 'kw': {'cssText': 'red 1px url(x.png)'}},
    {'new': 'Value', 'kw': {'cssText': 'red'}},
    {'new': 'ColorValue', 'kw': {'cssText': 'rgb(1, 2, 3)'}},
    {'new': 'DimensionValue', 'kw': {'cssText': '1px'}},
    {'new': 'URIValue', 'kw': {'cssText': 'url(x.png)'}},
    {'new': 'CSSFunction', 'kw': {'cssText': 'attr(x)'}},
    {'new': 'CSSCalc', 'kw': {'cssText': 'calc(1px + 2px)'}},
    {'new': 'CSSVariable', 'kw': {'cssText': 'var(c)'}},
    {'new': 'MSValue', 'kw': {'cssText': 'progid:DXImageTransform.x(a=1)'}},
    {'new': 'Selector', 'kw': {'selectorText': 'a > b'}},
    {'new': 'SelectorList', 'kw': {'selectorText': 'a, b > c'}},
    {'new': 'MediaList', 'kw': {'mediaText': 'print, tv'}},
    {'new': 'MediaList', 'kw': {'mediaText': 'all'}},
    {'new': 'MediaQuery', 'kw': {'mediaText': 'screen and (min-width: 10px)'}},
    {'new': 'CSSStyleSheet', 'kw': {}},
    # a query that starts with an expression / an empty query (mediaType setter: mediaquery.py:228-234)
    {'new': 'MediaQuery', 'kw': {'mediaText': '(min-width: 10px)'}},
    {'new': 'MediaQuery', 'kw': {'mediaText': '(min-width: 10px) and (max-width: 20px)'}},
    {'new': 'MediaQuery', 'kw': {}},
    # objects whose literal names differ from the normalised ones (simple escape, hex escape, upper case)
    {'new': 'Property', 'kw': {'name': 'c\\olor', 'value': 'red'}},
    {'new': 'Property', 'kw': {'name': '\\43 OLOR', 'value': 'RED', 'priority': '!IMPORTANT'}},
    {'new': 'CSSStyleDeclaration', 'kw': {'cssText': 'c\\olor: red; T\\op: 1px; \\6c eft: 2px !IMPORTANT; COLOR: blue'}},
    {'new': 'CSSStyleRule', 'kw': {'selectorText': 'D\\iv > sp\\61 n, \\61 b', 'style': 'c\\olor: red; TOP: 0'}},
    {'new': 'CSSVariablesDeclaration', 'kw': {'cssText': 'C\\olor: red; \\77 : 1px; W2: 2px'}},
    {'new': 'Selector', 'kw': {'selectorText': 'D\\iv > sp\\61 n'}},
    {'new': 'SelectorList', 'kw': {'selectorText': 'D\\iv, \\61 b > C'}},
    {'new': 'MediaList', 'kw': {'mediaText': 'PR\\int, T\\56'}},
    {'new': 'MediaQuery', 'kw': {'mediaText': 'ONLY SCR\\65 en AND (MIN-width: 1px)'}},
    {'new': 'MediaQuery', 'kw': {'mediaText': 'PR\\int'}},
    {'new': 'CSSMediaRule', 'kw': {'mediaText': 'PR\\int, T\\56'}},
    {'new': 'CSSPageRule', 'kw': {'selectorText': 'N\\6d:FIRST', 'style': 'm\\argin: 0'}},
    {'new': 'MarginRule', 'kw': {'margin': '@TOP-l\\65 ft', 'style': 'c\\olor: red'}},
    {'new': 'CSSFontFaceRule', 'kw': {'style': 'FONT-f\\amily: y; s\\72 c: url(b.ttf)'}},
    {'new': 'CSSVariablesRule', 'kw': {'variables': 'C\\olor: red; \\77 : 1px'}},
    {'new': 'CSSUnknownRule', 'kw': {'cssText': '@F\\6fo B\\ar;'}},
]


def cls_by_name(name):
    cu = dom.cssutils_mod()
    for mod in (cu.css, cu.stylesheets):
        if hasattr(mod, name):
            return getattr(mod, name)
    raise KeyError(name)


def make_obj(spec, root, fetch):
    """argument objects"""
    cu = dom.cssutils_mod()
    c = cu.css
    if not isinstance(spec, dict):
        return spec
    if 'tuple' in spec:
        return tuple(spec['tuple'])
    if 'rule_at' in spec:
        rules = getattr(root, 'cssRules', None) if root is not None else None
        if rules is not None and len(rules) > spec['rule_at']:
            return rules[spec['rule_at']]
        return c.CSSStyleRule('zz', 'top: 0')
    if 'rulelist' in spec:
        cu.log.raiseExceptions = False
        good, _ = dom.parse_sheet(spec['rulelist'], fetch)
        bad, _ = dom.parse_sheet('@import "late.css"; @namespace n "http://n"; @font-face { src: url(x) } '
                                 '@page { margin: 0 }', fetch)
        rl = c.CSSRuleList()
        for r in good.cssRules:
            list.append(rl, r)
        extra = None
        t = spec.get('then', '')
        if t.startswith('@import'):
            extra = bad.cssRules[0]
        elif t.startswith('@namespace'):
            extra = bad.cssRules[1]
        elif t.startswith('@font-face'):
            extra = bad.cssRules[2]
        elif t.startswith('@page'):
            extra = bad.cssRules[3]
        elif t.startswith('@charset'):
            extra = c.CSSCharsetRule('utf-8')
        elif t.startswith('@top-left'):
            extra = c.MarginRule('@top-left', 'color: red')
        if extra is not None:
            list.append(rl, extra)
        return rl
    name = spec['obj']
    kw = dict(spec.get('kw', {}))
    defaults = {
        'CSSStyleRule': {'selectorText': 'n, m', 'style': 'top: 1px'},
        'CSSImportRule': {'href': 'i1.css'},
        'CSSImportRuleBad': {'href': 'bad.css'},
        'CSSCharsetRule': {'encoding': 'ascii'},
        'CSSNamespaceRule': {'namespaceURI': 'http://n', 'prefix': 'n'},
        'CSSMediaRule': {'mediaText': 'tv'},
        'CSSPageRule': {'selectorText': ':left', 'style': 'margin: 1px'},
        'CSSFontFaceRule': {'style': 'font-family: y'},
        'CSSComment': {'cssText': '/* n */'},
        'CSSUnknownRule': {'cssText': '@new x;'},
        'MarginRule': {'margin': '@top-right', 'style': 'top: 0'},
        'CSSVariablesRule': {'variables': 'n: 1'},
    }
    if not kw:
        kw = dict(defaults.get(name, {}))
    if name == 'CSSImportRuleBad':
        name = 'CSSImportRule'
    old = cu.log.raiseExceptions
    cu.log.raiseExceptions = False
    try:
        return cls_by_name(name)(**kw)
    finally:
        cu.log.raiseExceptions = old


# ---------------------------------------------------------------------------------------------------
class Tracer:
    """records (file index * 100000 + line) for line events in frames that work on `selves`, restricted to `marks`
    (the line ids that occur in the script); a statement spanning several lines counts once; activations of a
    function that is already active on the same object (recursion) are not traced — the script models a recursive
    call as one opaque step."""

    def __init__(self, selves, files, marks, extents, callmarks=(), entries=None, child_rec=None):
        # ownership correspondence: a function entered on ANOTHER object directly from a statement of the target
        # that the script lists as a `call f` site is recorded in `children` (which function, did it raise, the
        # statement trace of the child's own frames against the child's script)
        self.callmarks = set(callmarks)
        self.entries = entries or {}      # (file index, function name, first line) -> member name of a script
        self.child_rec = child_rec        # (object, member) -> script record of the child or None
        self.children = []
        self.child = None                 # tracer of the child call in progress
        self.awaiting = None              # child event whose way of ending shows in the caller's next event
        self.selves = [id(s) for s in selves]
        self.files = files            # absolute filename -> index
        self.marks = marks
        self.extents = extents        # line id -> last line id of the statement
        self.owner = {}               # any line of a marked statement -> line id of the statement
        for m in marks:
            for lid in range(m, extents.get(m, m) + 1):
                self.owner.setdefault(lid, m)
            self.owner[m] = m
        self.trace = []
        self.suppress = 0             # > 0 while inside a recursive activation (not traced, with all it calls)
        self.active = []
        self.last = {}                # frame id -> last line id seen
        self.exc_lines = []

    def __call__(self, frame, event, arg):
        if event != 'call' or self.suppress:
            return None
        if self.child is not None:
            return self.child(frame, event, arg)
        code = frame.f_code
        fi = self.files.get(code.co_filename)
        if fi is None:
            return None
        loc = frame.f_locals
        s = loc.get('self')
        if s is not None and id(s) not in self.selves and self.callmarks:
            back = frame.f_back
            m = self.last.get(id(back)) if back is not None else None
            if m in self.callmarks and not self.reads_only(code.co_name):
                return self.enter_child(frame, s, fi, code, m)
        if s is None or id(s) not in self.selves:
            return None
        if code.co_name in ('<lambda>', '<genexpr>', '<listcomp>', '<dictcomp>', '<setcomp>'):
            return None
        key = (code, id(s))
        if key in self.active:
            self.suppress += 1

            def until_return(frame, event, arg):
                if event == 'return':
                    self.suppress -= 1
                return until_return
            return until_return
        self.active.append(key)
        fid = id(frame)

        def local(frame, event, arg, fi=fi, fid=fid, key=key):
            if self.awaiting is not None:
                # an exception that leaves the child shows as an 'exception' event at the call line of the caller
                self.awaiting['raised'] = (event == 'exception')
                self.awaiting = None
            if event == 'line':
                lid = fi * 100000 + frame.f_lineno
                m = self.owner.get(lid)
                prev = self.last.get(fid)
                self.last[fid] = m
                if m is not None and m != prev:
                    self.trace.append(m)
            elif event == 'return':
                if key in self.active:
                    self.active.remove(key)
                self.last.pop(fid, None)
            return local
        return local


def _enter_child(self, frame, s, fi, code, m):
    member = self.entries.get((fi, code.co_name, code.co_firstlineno))
    rec = self.child_rec(s, member) if (member is not None and self.child_rec) else None
    ev = {'mark': m, 'obj': s, 'cls': type(s).__name__, 'fn': code.co_name, 'member': member, 'rec': rec,
          'raised': None, 'trace': None, 'readonly': bool(getattr(s, '_readonly', False))}
    self.children.append(ev)
    if rec is None:
        return None
    selves = [s]
    if type(s).__name__ == 'Property':
        selves.append(s.seqs[1])
    sub = Tracer(selves, self.files, rec['marks'], rec['extents'])
    loc = [sub(frame, 'call', None)]
    self.child = sub

    def wrap(frame, event, arg):
        if event == 'return':
            ev['trace'] = sub.trace
            self.child = None
            self.awaiting = ev
        if loc[0] is not None:
            loc[0] = loc[0](frame, event, arg)
        return wrap
    return wrap


def _reads_only(name):
    """functions that a call-site statement may enter on another object without that being a child mutator call:
    constructors of new objects (argument expressions) and the readers the extractor lists as pure"""
    from gen import c11_scripts as gen
    return name in ('__init__', '__new__', '<lambda>', '<genexpr>', '<listcomp>', '<dictcomp>', '<setcomp>') or \
        name.startswith('_get') or name in gen.PURE_SELF or \
        name in gen.PURE_METHODS


Tracer.enter_child = _enter_child
Tracer.reads_only = staticmethod(_reads_only)


def call_mutator(target, member, args, tracer=None):
    """-> ('ok', None) | ('dom', exception) | ('other', exception)"""
    cu = dom.cssutils_mod()
    old = cu.log.raiseExceptions
    cu.log.raiseExceptions = True
    is_prop = isinstance(getattr(type(target), member, None), property)
    try:
        if tracer is not None:
            sys.settrace(tracer)
        try:
            if is_prop:
                setattr(target, member, args[0])
            else:
                getattr(target, member)(*args)
        finally:
            if tracer is not None:
                sys.settrace(None)
        return 'ok', None
    except xml.dom.DOMException as e:
        return 'dom', e
    except RecursionError:
        raise
    except Exception as e:      # noqa: BLE001 — a non-DOM exception is outside the property (counted, not judged)
        return 'other', e
    finally:
        cu.log.raiseExceptions = old
