"""C05 — lexeme separation for all token classes (theorem `lexeme_separation_all`): generator of well-formed
lexeme lists in the driver's `lex2` notation, with the text rendered on the Python side.

Each generator returns (driver word, text, (type, value)); the class definitions repeat `Lex.WF` / `Lex2.WF`
(lean/CssVerif/Lemmas/TokLex.lean, TokLex2.lean) — the driver re-checks them with Lean's `decide`."""
from lib.framework import enc

LETTERS = 'abcdefghijklmnopqrstuvwxyzABCDEFGHIJKLMNOPQRSTUVWXYZ'
IDENT_START = [c for c in LETTERS + '_' if c not in 'uU']
NAME_START = LETTERS + '_'
IDENT_REST = LETTERS + '0123456789-_'
FIXED = [('INCLUDES', '~=', 13), ('DASHMATCH', '|=', 14), ('PREFIXMATCH', '^=', 15), ('SUFFIXMATCH', '$=', 16),
         ('SUBSTRINGMATCH', '*=', 17), ('CDO', '<!--', 18)]
FAST = ',:;{}>[]'
RESERVED = {'@font-face': 'FONT_FACE_SYM', '@import': 'IMPORT_SYM', '@media': 'MEDIA_SYM',
            '@namespace': 'NAMESPACE_SYM', '@page': 'PAGE_SYM', '@variables': 'VARIABLES_SYM'}
STR_EXTRA = ['\t', ' ', '\x00', '\x0b', '\x7f', '\x80', 'é', 'K', '€', '\U0001F600', '\U0010FFFF', '/', '*', '(', ')']
URI_PLAIN = [chr(c) for a, b in ((33, 33), (35, 38), (40, 40), (42, 91), (93, 126)) for c in range(a, b + 1)]
HEXQ = '0123456789abcdefABCDEF?'
CMT_EXTRA = ['\n', '\r', '\f', '\t', ' ', '/', '/', '\\', '"', "'", 'é', '\U0001F600', '<!--', '-->', '@', '{', '*', '*', '**', '/*']


def _digits(rng):
    return ''.join(rng.choice('0123456789') for _ in range(rng.randint(1, 4)))


def _ident(rng, start):
    return rng.choice(start) + ''.join(rng.choice(IDENT_REST) for _ in range(rng.randint(0, 5)))


def _case(rng, s):
    return ''.join(c.upper() if rng.random() < 0.5 else c.lower() for c in s)


CONT = ['\n', '\f', '\r', '\r\n']


def g_str_items(rng, q):
    """-> (flattened item encoding, body text): the items of `SItem` (lean/CssVerif/Lemmas/TokStrItems.lean)"""
    other = "'" if q == '"' else '"'
    pool = list(LETTERS) + list('0123456789 .-_%') + STR_EXTRA + [other]
    codes, body = [], ''
    for _ in range(rng.randint(0, 7)):
        r = rng.random()
        if r < 0.45:
            c = rng.choice(pool)
            codes += [0, ord(c)]
            body += c
        elif r < 0.75:
            d = rng.choice([q, '\\', other, 'a', 'f', '4', '9', 'g', 'z', ' ', '\t', 'é', '(', '*'])
            codes += [1, ord(d)]
            body += '\\' + d
        elif r < 0.9:
            k = rng.randint(0, 3)
            codes += [2, k]
            body += '\\' + CONT[k]
        else:
            k = rng.randint(0, 3)
            hx = ''.join(rng.choice('0123456789abcdefABCDEF') for _ in range(rng.randint(1, 6)))
            codes += [3, k, ord(hx[0]), len(hx) - 1] + [ord(c) for c in hx[1:]]
            body += '\\' + hx + CONT[k]
    return codes, body


def g_lexeme(rng):
    k = rng.choice(['num', 'numf', 'nums', 'pctg', 'dimg', 'ident', 'identd', 'identu', 'fixed', 'fast', 'pct', 'dim', 'hash', 'atkw', 'atkw',
                    'str', 'stri', 'stri', 'uriq', 'uriq', 'fn', 'fn', 'uri', 'uri', 'ur', 'uri2', 'cmt', 'cmt', 'cdc'])
    if k == 'num':
        d = _digits(rng)
        return 'num,%s' % enc(d), d, ('NUMBER', d)
    if k == 'ident':
        s = _ident(rng, IDENT_START)
        return 'ident,%s' % enc(s), s, ('IDENT', s)
    if k == 'identd':
        n = rng.choice([1, 2])
        w = _ident(rng, NAME_START)
        return 'identd,%X,%s' % (n, enc(w)), '-' * n + w, ('IDENT', '-' * n + w)
    if k in ('pctg', 'dimg'):
        sg = rng.choice(['', '', '+', '-'])
        if rng.random() < 0.5:
            ip, fr = _digits(rng), ''
        else:
            ip, fr = ''.join(rng.choice('0123456789') for _ in range(rng.randint(0, 3))), _digits(rng)
        num = sg + ip + ('.' + fr if fr else '')
        if k == 'pctg':
            return 'pctg,%s,%s,%s' % (enc(sg), enc(ip), enc(fr)), num + '%', ('PERCENTAGE', num + '%')
        u = _ident(rng, IDENT_START)
        return 'dimg,%s,%s,%s,%s' % (enc(sg), enc(ip), enc(fr), enc(u)), num + u, ('DIMENSION', num + u)
    if k == 'nums':
        sg = rng.choice(['+', '-', '-', ''])
        t = sg + _digits(rng)
        return 'nums,%s,%s' % (enc(sg), enc(t[len(sg):])), t, ('NUMBER', t)
    if k == 'numf':
        sg = rng.choice(['', '', '+', '-'])
        ip = ''.join(rng.choice('0123456789') for _ in range(rng.randint(0, 3)))
        fr = _digits(rng)
        t = sg + ip + '.' + fr
        return 'numf,%s,%s,%s' % (enc(sg), enc(ip), enc(fr)), t, ('NUMBER', t)
    if k == 'identu':
        w = rng.choice('uU') + rng.choice(['', 'r', 'R', 'rl', 'RL', 'Rl', 'rl-', 'url', 'nderline', 'pper', '2', '-']) + \
            ''.join(rng.choice(IDENT_REST) for _ in range(rng.randint(0, 3)))
        return 'identu,%s' % enc(w), w, ('IDENT', w)
    if k == 'fixed':
        n, w, i = rng.choice(FIXED)
        return 'fixed,%s,%s,%X' % (n, enc(w), i), w, (n, w)
    if k == 'fast':
        c = rng.choice(FAST)
        return 'fast,%s' % enc(c), c, ('CHAR', c)
    if k == 'pct':
        d = _digits(rng)
        return 'pct,%s' % enc(d), d + '%', ('PERCENTAGE', d + '%')
    if k == 'dim':
        d, u = _digits(rng), _ident(rng, IDENT_START)
        return 'dim,%s,%s' % (enc(d), enc(u)), d + u, ('DIMENSION', d + u)
    if k == 'hash':
        n = ''.join(rng.choice(IDENT_REST) for _ in range(rng.randint(1, 6)))
        return 'hash,%s' % enc(n), '#' + n, ('HASH', '#' + n)
    if k == 'atkw':
        if rng.random() < 0.5:
            w = _case(rng, rng.choice(list(RESERVED) + ['@charset']))[1:]
        else:
            w = _ident(rng, NAME_START)
        if w == 'charset':
            w = 'Charset'
        return 'atkw,%s' % enc(w), '@' + w, (RESERVED.get('@' + w.lower(), 'ATKEYWORD'), '@' + w)
    if k == 'str':
        q = rng.choice('"\'')
        other = "'" if q == '"' else '"'
        pool = list(LETTERS) + list('0123456789 .,;:{}#@-_%') + STR_EXTRA + [other]
        body = ''.join(rng.choice(pool) for _ in range(rng.randint(0, 8)))
        return 'str,%s,%s' % (enc(q), enc(body)), q + body + q, ('STRING', q + body + q)
    if k == 'stri':
        from harness.c05 import spec_string_value
        q = rng.choice('"\'')
        codes, body = g_str_items(rng, q)
        text = q + body + q
        return 'stri,%s,%s' % (enc(q), enc(codes)), text, ('STRING', spec_string_value(text))
    if k == 'uriq':
        from harness.c05 import spec_string_value
        u = _case(rng, 'url')
        q = rng.choice('"\'')
        codes, body = g_str_items(rng, q)
        w1 = ''.join(rng.choice(' \t\n\r\f') for _ in range(rng.choice([0, 0, 1, 2])))
        w2 = ''.join(rng.choice(' \t\n\r\f') for _ in range(rng.choice([0, 0, 1, 2])))
        text = u + '(' + w1 + q + body + q + w2 + ')'
        return 'uriq,%s,%s,%s,%s,%s' % (enc(u), enc(w1), enc(q), enc(codes), enc(w2)), text, \
            ('URI', spec_string_value(text))
    if k == 'fn':
        while True:
            s = _ident(rng, IDENT_START)
            if rng.random() < 0.15:
                s = _case(rng, rng.choice(['rgb', 'attr', 'counter', 'an', 'andy', 'calc', 'nd']))
            if s.lower() != 'and':
                break
        return 'fn,%s' % enc(s), s + '(', ('FUNCTION', s + '(')
    if k == 'uri':
        u = _case(rng, 'url')
        body = ''.join(rng.choice(URI_PLAIN) for _ in range(rng.randint(0, 10)))
        return 'uri,%s,%s' % (enc(u), enc(body)), u + '(' + body + ')', ('URI', u + '(' + body + ')')
    if k == 'ur':
        u = rng.choice('Uu')
        h = ''.join(rng.choice(HEXQ) for _ in range(rng.randint(1, 6)))
        return 'ur,%s,%s' % (enc(u), enc(h)), u + '+' + h, ('UNICODE-RANGE', u + '+' + h)
    if k == 'uri2':       # UNICODE-RANGE interval
        u = rng.choice('Uu')
        h = ''.join(rng.choice(HEXQ) for _ in range(rng.randint(1, 6)))
        h2 = ''.join(rng.choice(HEXQ[:-1]) for _ in range(rng.randint(1, 6)))
        t = u + '+' + h + '-' + h2
        return 'uri2,%s,%s,%s' % (enc(u), enc(h), enc(h2)), t, ('UNICODE-RANGE', t)
    if k == 'cmt':
        pool = list(LETTERS) + CMT_EXTRA
        while True:
            body = ''.join(rng.choice(pool) for _ in range(rng.randint(0, 8)))
            if '*/' not in body + '*':       # Lex2.WF: firstClose (body ++ "*") = none
                break
        return 'cmt,%s' % enc(body), '/*' + body + '*/', ('COMMENT', '/*' + body + '*/')
    return 'cdc', '-->', ('CDC', '-->')


def g_list(rng):
    """-> (driver words, text, expected (type, value) list with comments)"""
    n = rng.randint(1, 6)
    words, parts, exp = [], [], []
    for i in range(n):
        w, t, tv = g_lexeme(rng)
        words.append(w)
        parts.append(t)
        if i:
            exp.append(('S', ' '))
        exp.append(tv)
    return words, ' '.join(parts), exp
