"""C10 — declaration blocks obey the ordered-multimap-with-cascade model.

model: lean/CssVerif/Model/Decl.lean; theorems: lean/CssVerif/Props/C10.lean; driver: lean/Drv/C10.lean
correspondence (lock-step, after EVERY operation): getProperties(all=True) projection, effective list, iteration,
  length, keys(), item(i) for all i in -(n+1)..n+1, cssText, return value / exception class of the operation,
  point queries (getProperty / Value / Priority with both normalize flags, getProperties(name, all), `in`);
  DOM-name converters on every known property name (exhaustive) and random names; the variables block.
oracle (implementation only, independent of the Lean model): a Python reference of the property statement
  (ordered list of entries; effective = last important else last; names by last occurrence; remove deletes all and
  returns the effective value; update in place else append), camel-case attribute access == access by CSS name for
  every known property (exhaustive), text round trip, variables: API == serialisation (by reparse).
"""
import logging
import os
import xml.dom

from lib.framework import Check, enc, time_limit

import harness.c10_gen as G


def _impl():
    import cssutils
    cssutils.log.setLevel(logging.FATAL)
    return cssutils


TT = {'IDENT': 'I', 'CHAR': 'C', 'S': 'S', 'COMMENT': 'M', 'ATKEYWORD': 'A'}


class Front:
    """front-end tables (tokenizer, value grammar, ident check) for one driver session, filled from the real code"""

    def __init__(self, cu):
        self.cu = cu
        from cssutils.tokenize2 import Tokenizer
        self.tokenizer = Tokenizer()
        self.toks = {}
        self.vals = {}
        self.idns = {}
        self.lines = []
        self.mode_dependent = set()

    def tok(self, text):
        if text in self.toks:
            return self.toks[text]
        ts = [(t[0], t[1]) for t in self.tokenizer.tokenize(text)] if text else []
        self.toks[text] = ts
        w = ','.join('%s:%s' % (TT.get(a, 'O'), enc(b)) for a, b in ts) or '-'
        self.lines.append('tok %s %s' % (enc(text), w))
        return ts

    def _pv(self, text, raising):
        from cssutils.css import PropertyValue
        old = self.cu.log.raiseExceptions
        self.cu.log.raiseExceptions = raising
        try:
            with time_limit(10):
                v = PropertyValue(cssText=text)
            return (v.wellformed, v.cssText, v.value)
        except xml.dom.DOMException:
            return (False, '', '')
        finally:
            self.cu.log.raiseExceptions = old

    def val(self, text):
        """PropertyValue(cssText=text) -> None | (cssText, value); also registers the re-parse of the cssText"""
        while True:
            if text in self.vals:
                return self.vals[text]
            a = self._pv(text, False)
            b = self._pv(text, True)
            if a[0] != b[0]:
                self.mode_dependent.add(text)
            if a[0]:
                self.vals[text] = (a[1], a[2])
                self.lines.append('val %s %s %s' % (enc(text), enc(a[1]), enc(a[2])))
                first = self.vals[text]
                nxt = a[1]
                if nxt not in self.vals:
                    self.val(nxt)
                return first
            self.vals[text] = None
            self.lines.append('val %s bad' % enc(text))
            return None

    def idn(self, text):
        if text in self.idns:
            return self.idns[text]
        from cssutils.prodparser import PreDef, ProdParser, Sequence
        old = self.cu.log.raiseExceptions
        self.cu.log.raiseExceptions = False
        try:
            ok = bool(ProdParser().parse(text, 'variableName', Sequence(PreDef.ident()))[0])
        except xml.dom.DOMException:
            ok = False
        finally:
            self.cu.log.raiseExceptions = old
        self.idns[text] = ok
        self.lines.append('idn %s %d' % (enc(text), ok))
        return ok

    def prio(self, p):
        """everything the priority setter may tokenize for the argument p (and for the normalised priority that an
        update re-assigns, property.py:345 / cssstyledeclaration.py:656)"""
        if p is None:
            return
        todo = [p]
        seen = set()
        while todo:
            q = todo.pop()
            if q in seen:
                continue
            seen.add(q)
            pr = '!' + q if G.py_normalize(q) == 'important' else q
            for typ, v in (self.tok(pr) if pr else []):
                if typ == 'IDENT':
                    todo.append(G.py_normalize(v))

    def take(self):
        out, self.lines = self.lines, []
        return out


def exc_name(e):
    if isinstance(e, xml.dom.SyntaxErr):
        return 'err SyntaxErr'
    if isinstance(e, xml.dom.NoModificationAllowedErr):
        return 'err NoModificationAllowedErr'
    return 'err crash:%s' % type(e).__name__


def show_prop(p):
    if p is None:
        return 'none'
    return '/'.join([enc(p.literalname), enc(p.name), enc(p.propertyValue.cssText), enc(p.value),
                     enc(p.literalpriority), enc(p.priority), '1' if p.wellformed else '0'])


def show_list(l):
    return ','.join(l) if l else '-'


def obs_impl(style):
    n = style.length
    return ' | '.join([
        'all=' + show_list([show_prop(p) for p in style.getProperties(all=True)]),
        'eff=' + show_list([show_prop(p) for p in style.getProperties()]),
        'iter=' + show_list([show_prop(p) for p in style]),
        'len=%d' % n,
        'keys=' + show_list([enc(k) for k in style.keys()]),
        'items=' + show_list([enc(style.item(i)) for i in range(-(n + 1), n + 2)]),
        'text=' + enc(style.cssText),
        'ro=%d' % (1 if style._readonly else 0)])


def vobs_impl(v):
    n = v.length
    seq = []
    for it in v.seq:
        if it.type == 'var':
            seq.append('var/%s/%s' % (enc(it.value[0]), enc(it.value[1].cssText)))
        else:
            seq.append('other/%s' % enc(getattr(it.value, 'cssText', it.value)))
    ser = [(G.py_normalize(it.value[0]), it.value[1].cssText) for it in v.seq if it.type == 'var']
    return ' | '.join([
        'keys=' + show_list([enc(k) for k in v.keys()]),
        'len=%d' % n,
        'items=' + show_list([enc(v.item(i)) for i in range(-(n + 1), n + 2)]),
        'seq=' + show_list(seq),
        'reported=' + show_list(['%s/%s' % (enc(k), enc(v.getVariableValue(k))) for k in v.keys()]),
        'reportedq=' + show_list(['%s/%s' % (enc(k), enc(v.getVariableValue(G.requote(k)))) for k in v.keys()]),
        'serialized=' + show_list(['%s/%s' % (enc(a), enc(b)) for a, b in ser]),
        'text=' + enc(v.cssText)])


def opt(x):
    return 'None' if x is None else enc(x)


def prefs_line(pf):
    return 'prefs ' + ' '.join(['%d' % bool(pf[k]) for k in G.PREF_BOOLS] + [enc(pf[k]) for k in G.PREF_STRS])


class Prefs:
    """the serializer preferences switched to `pf` for the duration of the block, then back to the defaults"""

    def __init__(self, cu, pf):
        self.cu, self.pf = cu, pf

    def __enter__(self):
        for k, v in self.pf.items():
            setattr(self.cu.ser.prefs, k, v)

    def __exit__(self, *a):
        self.cu.ser.prefs.useDefaults()


# ----------------------------------------------------------------------------------------------------
class Session:
    """one op sequence: runs the implementation, produces the driver lines and the expected replies"""

    def __init__(self, cu, front):
        self.cu = cu
        self.front = front
        self.lines = []       # driver lines
        self.expect = []      # (reply expected from the impl | None = do not compare, description)

    def emit(self, line, expect, what):
        self.lines.extend(self.front.take())
        self.expect.extend([('ok', 'table')] * (len(self.lines) - len(self.expect)))
        self.lines.append(line)
        self.expect.append((expect, what))

    # -- declaration ops ---------------------------------------------------------------------------
    def run_decl(self, ops, spec=None):
        from cssutils.css import CSSStyleDeclaration
        cu, fr = self.cu, self.front
        self.emit('new', 'ok', 'new')
        self.emit('mode 1', 'ok', 'mode')
        fr.prio('important')
        style = CSSStyleDeclaration()
        cu.log.raiseExceptions = True
        try:
            for op in ops:
                self.one_decl_op(style, op, spec)
                if self.rng.random() < 0.12:
                    self.probe_prefs_decl(style, G.gen_prefs(self.rng))
            self.probe_prefs_decl(style, G.gen_prefs(self.rng))
            self.probe_prefs_decl(style, G.gen_prefs(self.rng, single=True))
        finally:
            cu.log.raiseExceptions = True
            cu.ser.prefs.useDefaults()
        return style

    def probe_prefs_decl(self, style, pf):
        """cssText / getCssText(separator) under non-default serializer preferences; the value texts under these
        preferences and `property.valid` are tabulated from the implementation (parameters of the model)"""
        from cssutils.css import Property
        cu = self.cu
        props = style.getProperties(all=True)
        keys = [(p.name, p.propertyValue.cssText, p.priority) for p in props]
        sep = self.rng.choice(['\n', '', ' ', ';', '\n  '])
        old = cu.log.raiseExceptions
        cu.log.raiseExceptions = False
        try:
            with Prefs(cu, pf):
                with time_limit(20):
                    vts = [p.propertyValue.cssText for p in props]
                    valids = [bool(p.valid) for p in props] if pf['validOnly'] else None
                    text = style.cssText
                    text_sep = style.getCssText(sep)
                    eff = style.getProperties()
                    items = [(it.value, it.value.cssText, G.ref_property(it.value, pf)
                              if isinstance(it.value, Property) else None) for it in style.seq]
        finally:
            cu.log.raiseExceptions = old
        self.emit(prefs_line(pf), 'ok', ('prefs', pf))
        seen = set()
        for i, k in enumerate(keys):
            if k[1] not in seen:
                seen.add(k[1])
                self.emit('vt %s %s' % (enc(k[1]), enc(vts[i])), 'ok', 'vt')
            if valids is not None:
                self.emit('pvalid %s %s %s %d' % (enc(k[0]), enc(k[1]), enc(k[2]), valids[i]), 'ok', 'pvalid')
        self.emit('ptext', enc(text), ('cssText under', pf))
        self.emit('psep %s' % enc(sep), enc(text_sep), ('getCssText(%r) under' % sep, pf))
        # the items the written text consists of: split by the real tokenizer vs `srcOf` of the model
        if pf['lineSeparator'] or not pf['keepComments'] or True:
            words = []
            for w in G.split_block(self.front.tokenizer, text):
                words.append('M:%s' % enc(w[1]) if w[0] == 'M' else 'D:%s:%s:%s' % (enc(w[1]), enc(w[2]), enc(w[3])))
            self.emit('psrc', show_list(words), ('source items of cssText under', pf))
        self.ctx.count('prefs-probe:decl')
        self.oracle_text(pf, text, text_sep, sep, items, eff)

    def oracle_text(self, pf, text, text_sep, sep, items, eff):
        """independent of the model — the statement of T10.8 on the implementation: cssText is the lines of the
        written items joined by the separator; written = every item (keepAllProperties) or comments + the effective
        entry of every name; a line = the property text + `;` unless it is the last item and omitLastSemicolon;
        and the property text is `name:` spacer value [` ` priority]"""
        from cssutils.css import Property
        ctx = self.ctx
        diff = {k: v for k, v in pf.items() if v != G.PREF_DEFAULTS[k]}
        shown = [x for x in items if not isinstance(x[0], Property) or pf['keepAllProperties']
                 or any(x[0] is e for e in eff)]
        for val, t, ref in shown:
            if ref is not None and ref != t:
                ctx.violate('the text of a property is name, colon, value and priority as the preferences say',
                            {'ops': G.show_ops(self.history), 'prefs': diff}, {'cssText': t, 'expected': ref})
                return
        # reparse: the written text, assigned to a fresh block, leaves exactly the written entries
        from cssutils.css import CSSStyleDeclaration
        written = [(val.name, val.value, val.priority) for val, t, ref in shown if isinstance(val, Property) and t]
        if all(G.py_normalize(n) == n for n, _, _ in written) and not pf['validOnly']:
            old = self.cu.log.raiseExceptions
            self.cu.log.raiseExceptions = False
            try:
                with time_limit(20):
                    back = CSSStyleDeclaration(cssText=text)
                    again = [(p.name, p.value, p.priority) for p in back.getProperties(all=True)]
            finally:
                self.cu.log.raiseExceptions = old
            if again != written:
                ctx.violate('cssText reparses to the written entries (name, value, priority), in order',
                            {'ops': G.show_ops(self.history), 'prefs': diff, 'cssText': text},
                            {'written': written, 'reparsed': again})
                return
        for got, s_ in ((text, pf['lineSeparator']), (text_sep, sep)):
            lines = []
            for i, (val, t, ref) in enumerate(shown):
                if isinstance(val, Property):
                    if t:
                        lines.append(t + ('' if (pf['omitLastSemicolon'] and i == len(shown) - 1) else ';'))
                elif pf['keepComments']:
                    lines.append(t)
            if got != s_.join(lines):
                ctx.violate('cssText lists exactly the entries (all, or the effective one per name) in block order, '
                            'one line each, joined by the separator',
                            {'ops': G.show_ops(self.history), 'prefs': diff, 'separator': s_},
                            {'cssText': got, 'expected': s_.join(lines)})
                return

    def call(self, f):
        try:
            with time_limit(20):
                r = f()
            return 'ok None' if r is None else 'ok s:' + enc(r)
        except xml.dom.DOMException as e:
            return exc_name(e)
        except (AttributeError, TypeError, KeyError, IndexError, ValueError) as e:
            return exc_name(e)

    def one_decl_op(self, style, op, spec):
        cu, fr = self.cu, self.front
        k = op[0]
        if k == 'mode':
            cu.log.raiseExceptions = bool(op[1])
            self.emit('mode %d' % op[1], 'ok', op)
            if spec:
                spec.raising = bool(op[1])
            return
        if k == 'ro':
            style._readonly = bool(op[1])
            self.emit('ro %d' % op[1], 'ok', op)
            if spec:
                spec.readonly = bool(op[1])
            return
        if k == 'set':
            _, name, value, prio, norm, repl = op
            if name:
                fr.tok(name)
            if value:
                fr.val(value)
            fr.prio(prio)
            r = self.call(lambda: style.setProperty(name, value, prio, normalize=norm, replace=repl))
            self.emit('set %s %s %s %d %d' % (enc(name), opt(value), enc(prio), norm, repl), r, op)
        elif k == 'seti':
            _, name, value, prio = op
            if name:
                fr.tok(name)
            if value:
                fr.val(value)
            fr.prio(prio or '')
            arg = value if prio is None else (value, prio)
            r = self.call(lambda: style.__setitem__(name, arg))
            self.emit('seti %s %s %s' % (enc(name), opt(value), opt(prio)), r, op)
        elif k == 'attrset':
            _, dom, cssname, value = op
            if cssname:
                fr.tok(cssname)
            if value:
                fr.val(value)
            r = self.call(lambda: setattr(style, dom, value))
            # an attribute assignment returns nothing; compare the exception class only
            self.emit('aset %s %s' % (enc(dom), opt(value)), None if r.startswith('ok') else r, op)
        elif k == 'rm':
            _, name, norm = op
            r = self.call(lambda: style.removeProperty(name, normalize=norm))
            self.emit('rm %s %d' % (enc(name), norm), r, op)
        elif k == 'deli':
            r = self.call(lambda: style.__delitem__(op[1]))
            self.emit('deli %s' % enc(op[1]), r, op)
        elif k == 'attrdel':
            _, dom, cssname = op
            r = self.call(lambda: delattr(style, dom))
            # `del style.x` returns nothing; compare the exception class only
            self.emit('adel %s' % enc(dom), None if r.startswith('ok') else r, op)
        elif k == 'text':
            items = op[1]
            words = []
            for it in items:
                if it[0] == 'D':
                    fr.tok(it[1])
                    fr.tok(it[2])
                    fr.val(it[2])
                    if it[3]:
                        fr.tok(it[3])
                        fr.prio('')
                    words.append('D:%s:%s:%s' % (enc(it[1]), enc(it[2]), enc(it[3])))
                elif it[0] == 'M':
                    words.append('M:%s' % enc(it[1]))
                else:
                    words.append('S')
            text = G.render_items(items)
            r = self.call(lambda: setattr(style, 'cssText', text))
            self.emit(' '.join(['text'] + words), r, ('text', text))
        else:
            raise ValueError(op)
        if spec:
            spec.after(style, op, r, self)
        # observation after every op
        self.emit('obs', obs_impl(style), ('obs after', op))
        # point queries
        for q in G.queries_for(op, self.rng):
            self.query(style, q)
        # a listed (normalised) name looked up by a literal spelling of it (`requote`)
        for kname in style.keys()[:2]:
            self.emit('rq %s' % enc(kname), enc(G.requote(kname)), ('requote', kname))
            self.emit('gvq %s' % enc(kname), enc(style.getPropertyValue(G.requote(kname))), ('listed name', kname))

    def query(self, style, q):
        k = q[0]
        if k == 'gp':
            self.emit('gp %s %d' % (enc(q[1]), q[2]), show_prop(style.getProperty(q[1], normalize=q[2])), q)
        elif k == 'gv':
            self.emit('gv %s %d' % (enc(q[1]), q[2]), enc(style.getPropertyValue(q[1], normalize=q[2])), q)
            if q[2]:
                self.emit('gv %s 1' % enc(q[1]), enc(style[q[1]]), ('getitem', q[1]))
        elif k == 'gpr':
            self.emit('gpr %s %d' % (enc(q[1]), q[2]), enc(style.getPropertyPriority(q[1], normalize=q[2])), q)
        elif k == 'gps':
            self.emit('gps %s %d' % (enc(q[1]), q[2]),
                      show_list([show_prop(p) for p in style.getProperties(q[1] or None, all=q[2])]), q)
        elif k == 'has':
            self.emit('has %s' % enc(q[1]), '1' if q[1] in style else '0', q)
        elif k == 'attrget':
            try:
                got = enc(getattr(style, q[1]))
            except AttributeError:
                got = 'err crash:AttributeError'
            self.emit('aget %s' % enc(q[1]), got, q)

    # -- variables ops ------------------------------------------------------------------------------
    def run_vars(self, ops):
        from cssutils.css import CSSVariablesDeclaration
        cu, fr = self.cu, self.front
        self.emit('vnew', 'ok', 'vnew')
        self.emit('mode 1', 'ok', 'mode')
        v = CSSVariablesDeclaration()
        cu.log.raiseExceptions = True
        try:
            for op in ops:
                k = op[0]
                if k == 'mode':
                    cu.log.raiseExceptions = bool(op[1])
                    self.emit('mode %d' % op[1], 'ok', op)
                    continue
                if k == 'ro':
                    v._readonly = bool(op[1])
                    self.emit('vro %d' % op[1], 'ok', op)
                    continue
                if k == 'vset':
                    fr.idn(op[1])
                    fr.tok(op[1])
                    fr.val(op[2])
                    r = self.call(lambda: v.setVariable(op[1], op[2]))
                    self.emit('vset %s %s' % (enc(op[1]), enc(op[2])), r, op)
                elif k == 'vseti':
                    fr.idn(op[1])
                    fr.tok(op[1])
                    fr.val(op[2])
                    r = self.call(lambda: v.__setitem__(op[1], op[2]))
                    self.emit('vset %s %s' % (enc(op[1]), enc(op[2])), r, op)
                elif k == 'vrm':
                    r = self.call(lambda: v.removeVariable(op[1]))
                    self.emit('vrm %s' % enc(op[1]), r, op)
                elif k == 'vdeli':
                    r = self.call(lambda: v.__delitem__(op[1]))
                    self.emit('vrm %s' % enc(op[1]), r, op)
                elif k == 'vtext':
                    words = []
                    for it in op[1]:
                        if it[0] == 'V':
                            pv = fr.val(it[2])
                            if pv is None:
                                # a value the stand-alone PropertyValue(text) refuses but the token path of the
                                # block parser accepts (an identifier ending in an escaped blank before `;`)
                                pv = G.value_via_block(cu, it[2])
                            idents = [b for a, b in fr.tok(it[1]) if a == 'IDENT']
                            words.append('I:%s' % enc(idents[0]))
                            words.append('V:%s:%s' % (enc(pv[0]), enc(pv[1])))
                        else:
                            words.append('O:%s' % enc(it[1]))
                    text = G.render_vitems(op[1])
                    r = self.call(lambda: setattr(v, 'cssText', text))
                    self.emit(' '.join(['vtext'] + words), r, ('vtext', text))
                self.emit('vobs', vobs_impl(v), ('vobs after', op))
                for nm in G.var_probe_names(op):
                    self.emit('vget %s' % enc(nm), enc(v.getVariableValue(nm)), ('vget', nm))
                    self.emit('vget %s' % enc(nm), enc(v[nm]), ('v[]', nm))
                    self.emit('vhas %s' % enc(nm), '1' if nm in v else '0', ('vhas', nm))
                self.oracle_vars(v, op)
                if self.rng.random() < 0.15:
                    self.probe_prefs_vars(v, G.gen_prefs(self.rng))
            self.probe_prefs_vars(v, G.gen_prefs(self.rng))
            self.probe_prefs_vars(v, G.gen_prefs(self.rng, single=True))
        finally:
            cu.log.raiseExceptions = True
            cu.ser.prefs.useDefaults()
        return v

    def probe_prefs_vars(self, v, pf):
        cu = self.cu
        vals = [it.value[1] for it in v.seq if it.type == 'var']
        keys = [x.cssText for x in vals]
        old = cu.log.raiseExceptions
        cu.log.raiseExceptions = False
        try:
            with Prefs(cu, pf):
                with time_limit(20):
                    vts = [x.cssText for x in vals]
                    text = v.cssText
        finally:
            cu.log.raiseExceptions = old
        self.emit(prefs_line(pf), 'ok', ('prefs', pf))
        seen = set()
        for k, t in zip(keys, vts):
            if k not in seen:
                seen.add(k)
                self.emit('vt %s %s' % (enc(k), enc(t)), 'ok', 'vt')
        self.emit('vptext', enc(text), ('variables cssText under', pf))
        self.ctx.count('prefs-probe:vars')
        # reparse with the real parser: the items of the written text vs `vWritten` of the model (names and kinds;
        # the value texts as well when the value serializer runs with its default preferences), and oracle:
        # the reparsed block reports the same variables
        from cssutils.css import CSSVariablesDeclaration
        stable = all(G.py_normalize(k) == k for k in v.keys())
        escblank = any(G.ends_escaped_blank(t) for t in vts)
        if text and not escblank:
            cu.log.raiseExceptions = False
            try:
                with time_limit(20):
                    back = CSSVariablesDeclaration(cssText=text)
                    bitems = [('var', it.value[0], it.value[1].cssText) if it.type == 'var'
                              else ('other', getattr(it.value, 'cssText', it.value), None) for it in back.seq]
                    breport = [(k, back.getVariableValue(G.requote(k))) for k in back.keys()]
            finally:
                cu.log.raiseExceptions = old
            valdefaults = all(pf[k] == G.PREF_DEFAULTS[k] for k in ('keepComments', 'spacer', 'listItemSpacer'))
            # known finding C10-vars-trailing-comment: the grammar of `cssText =` refuses a comment after the last
            # declaration, so a block whose last written item is a comment does not reparse
            trailing = pf['keepComments'] and len(v.seq) > 0 and v.seq[-1].type != 'var' and any(
                it.type == 'var' for it in v.seq)
            if valdefaults and not trailing:
                self.emit('vpsrc', show_list(['var/%s/%s' % (enc(a), enc(b)) if k == 'var' else 'other/%s' % enc(a)
                                              for k, a, b in bitems]), ('items of the reparsed variables text', pf))
            want = [(k, v.getVariableValue(G.requote(k))) for k in v.keys()]
            if (stable or not pf['normalizedVarNames']) and valdefaults and breport != want:
                self.ctx.violate('variables block: cssText reparses to the variables the API reports',
                                 {'ops': self.history, 'prefs': {k: x for k, x in pf.items() if x != G.PREF_DEFAULTS[k]},
                                  'cssText': text}, {'api': want, 'reparsed': breport},
                                 known='C10-vars-trailing-comment' if trailing else None)
        # oracle (the statement of T10.8 on the implementation): up to layout white space the text is exactly the
        # entries, `name:value;` each (last `;` as omitLastSemicolon says), comments in between
        content, n = [], len(v.seq)
        vi = 0
        for i, it in enumerate(v.seq):
            if it.type == 'var':
                nm = G.py_normalize(it.value[0]) if pf['normalizedVarNames'] else it.value[0]
                content.append(nm + ':' + vts[vi] + (';' if (i < n - 1 or not pf['omitLastSemicolon']) else ''))
                vi += 1
            elif pf['keepComments']:
                content.append(getattr(it.value, 'cssText', it.value))
        if v.seq and v.seq[-1].type == 'var' and G.ends_escaped_blank(vts[-1]) \
                and not (text.endswith(vts[-1]) or text.endswith(vts[-1] + ';')):
            self.ctx.violate('variables block: an escaped blank that ends the last value is part of the value and stays',
                             {'ops': self.history, 'prefs': {k: x for k, x in pf.items() if x != G.PREF_DEFAULTS[k]}},
                             {'cssText': text, 'last value': vts[-1]})
        if G.strip_ws(text) != G.strip_ws(''.join(content)):
            self.ctx.violate('variables block: up to layout white space cssText is exactly its entries',
                             {'ops': self.history, 'prefs': {k: x for k, x in pf.items() if x != G.PREF_DEFAULTS[k]}},
                             {'cssText': text, 'entries': content})

    def oracle_vars(self, v, op):
        """the serialisation lists exactly the variables the API reports (checked by reparsing the text)"""
        from cssutils.css import CSSVariablesDeclaration
        ctx = self.ctx
        # look a listed key up by a literal spelling of it (the API normalises its argument; a listed key is already
        # normalised and normalising is not idempotent, so the key is re-quoted first)
        reported = [(k, v.getVariableValue(G.requote(k))) for k in v.keys()]
        if len(set(k for k, _ in reported)) != len(reported) or v.length != len(reported):
            ctx.violate('variables block: keys are distinct and length counts them', {'ops': self.history},
                        {'reported': reported, 'length': v.length})
        if list(v) != v.keys() or [v.item(i) for i in range(v.length)] != v.keys():
            ctx.violate('variables block: iteration and item() enumerate keys()', {'ops': self.history}, None)
        if any(G.requote(k) not in v for k in v.keys()):
            ctx.violate('variables block: every listed key is a member', {'ops': self.history}, {'keys': v.keys()})
        text = v.cssText
        if v.seq and v.seq[-1].type == 'var':
            lastv = v.seq[-1].value[1].cssText
            if G.ends_escaped_blank(lastv) and not text.endswith(lastv):
                ctx.violate('variables block: an escaped blank that ends the last value is part of the value and stays',
                            {'ops': self.history}, {'cssText': text, 'last value': lastv})
        listed = G.list_variables(text)
        want = [(k, G.strip_comments(val)) for k, val in reported]
        if listed != want:
            ctx.violate('variables block: the serialisation lists exactly the variables the API reports',
                        {'ops': self.history, 'cssText': text}, {'api': want, 'text_lists': listed})


class C10(Check):
    id = 'C10'
    props_module = 'CssVerif.Props.C10'
    driver_exe = 'drv_c10'
    sources = ('cssutils/css/cssstyledeclaration.py', 'cssutils/css/property.py', 'cssutils/css/cssproperties.py',
               'cssutils/css/cssvariablesdeclaration.py', 'cssutils/serialize.py', 'cssutils/helper.py',
               'cssutils/profiles.py')
    trusted_base = (
        'hand-written model lean/CssVerif/Model/Decl.lean of CSSStyleDeclaration / Property (name, priority) / '
        'CSSVariablesDeclaration / helper.normalize / the DOM-name converters, and Model/DeclText.lean of do_Property / '
        'do_css_CSSStyleDeclaration / do_css_CSSVariablesDeclaration with Out.append / Out.value under every serializer '
        'preference they read, tied to the code by the lock-step correspondence of this run (observation after every '
        'operation) and by preference probes (cssText, getCssText(sep), source items, reparse under random preferences)',
        'the value text under non-default preferences and property.valid are PARAMETERS of the rendering model '
        '(REnv.vtext, REnv.valid), tabulated from the implementation in the probes',
        'the tokenizer and the value grammar are PARAMETERS of the model (Env.tokenize, Env.parseValue, Env.isIdent): '
        'theorems hold for every instance; in the correspondence they are tabulated from the real Tokenizer / '
        'PropertyValue / ProdParser',
        'generated table lean/CssVerif/Gen/C10Names.lean (tools/gen/c10_names.py, ast of cssutils/profiles.py), '
        'cross-checked against CSS2Properties._properties each run',
    )
    assumptions = (
        'str.lower() is the ASCII fold on the generated names (no non-ASCII cased letters are generated; a few uncased '
        'non-ASCII code points are)',
        'PropertyValue(tokens) equals PropertyValue(text) for the value text of a declaration rendered by the generator',
        'property names passed as Property objects, _mediaQuery properties and ATKEYWORD tokens inside a name or '
        'priority are not modelled (the driver answers "unmodelled"; none are generated)',
    )
    rule = ('op sequences of length 4..14 over 3-4 base names per sequence (known property names + unknown ones), each '
            'spelled with random case, simple escapes, hex escapes, rarely surrounding white space/comments or malformed; '
            'values from a vocabulary of 40 valid/invalid texts; priorities \'\', important, !important in any case, with '
            'white space, comments, escapes, and invalid ones; ops: setProperty (normalize/replace flags), '
            'removeProperty, []=, del [], camel-case attribute set/get/del, cssText replacement from rendered items, '
            'error-mode switches (raise/log), read-only switches; variables: setVariable, removeVariable, []=, del, '
            'cssText (values incl. ones ending in an escaped blank). serializer preferences: after 12-15% of the '
            'operations and twice per history all 14 preferences at random (bool flipped with p=0.4, validOnly 0.15; '
            'strings from 2-5 choices each) or exactly one preference off its default; getCssText separators '
            'newline, empty, blank, semicolon, newline+indent. non-trivial = a sequence whose final block holds at least two entries with the same normalised '
            'name, or whose ops include an update of an existing name, a removal of a present name or a rejected op')

    def translate(self, ctx):
        import gen.c10_names as T
        text, flat, regs = T.generate(ctx.repo)
        self._names = flat
        return {'CssVerif/Gen/C10Names.lean': text}

    @staticmethod
    def size(ctx, quick, thorough, search):
        return search if ctx.tier_counts == 'search' else ctx.n(quick, thorough)

    def names(self, ctx):
        if not hasattr(self, '_names'):
            import gen.c10_names as T
            self._names = T.generate(ctx.repo)[1]
        return self._names

    # ------------------------------------------------------------------------------------------------
    def run(self, ctx):
        cu = _impl()
        names = self.names(ctx)
        for part in (self.check_names_live, self.check_pref_defaults):
            ctx.phase(part, ctx, names)
        for part in (self.run_corpus, self.corr_dom, self.oracle_attr, self.corr_decl, self.corr_vars):
            ctx.phase(part, ctx, cu, names)

    def check_names_live(self, ctx, names):
        from cssutils.css.cssproperties import CSS2Properties, _toDOMname
        live = list(CSS2Properties._properties)
        if live != [_toDOMname(n) for n in names]:
            ctx.disagree('translator: Gen.C10.propertyNames vs CSS2Properties._properties',
                         'profiles.py', live[:5], names[:5])
        ctx.notes['property_names'] = len(names)

    def check_pref_defaults(self, ctx, names):
        """`SPrefs.default` of the model against a fresh `Preferences()`"""
        from cssutils.serialize import Preferences
        if not ctx.model_ok:
            return
        live = Preferences()
        want = prefs_line({k: getattr(live, k) for k in G.PREF_BOOLS + G.PREF_STRS})[len('prefs '):]
        got = ctx.driver(['pdef'])[0]
        if got != want:
            ctx.disagree('default serializer preferences (SPrefs.default vs Preferences.useDefaults)', 'pdef', want, got)
        live.useMinified()
        want = prefs_line({k: getattr(live, k) for k in G.PREF_BOOLS + G.PREF_STRS})[len('prefs '):]
        got = ctx.driver(['pmin'])[0]
        if got != want:
            ctx.disagree('minifying serializer preferences (minifiedPrefs vs Preferences.useMinified)', 'pmin', want, got)
        live.useDefaults()
        for k in G.PREF_BOOLS + G.PREF_STRS:
            if getattr(live, k) != G.PREF_DEFAULTS[k]:
                ctx.disagree('default serializer preferences (generator table)', k, getattr(live, k), G.PREF_DEFAULTS[k])

    # -- DOM names ------------------------------------------------------------------------------------
    def corr_dom(self, ctx, cu, names):
        from cssutils.css.cssproperties import _toCSSname, _toDOMname
        rng = ctx.sub_rng('dom')
        cases = []
        for n in names:
            cases.append(('dom', n))
            cases.append(('css', _toDOMname(n)))
            cases.append(('css', n))
            cases.append(('dom', _toDOMname(n)))
        for _ in range(self.size(ctx, 3000, 60000, 10000)):
            s = G.random_name(rng)
            cases.append(('dom', s))
            cases.append(('css', s))
            cases.append(('css', _toDOMname(s)))
        # all strings of length <= 4 over a small alphabet (exhaustive)
        import itertools
        for k in range(0, 5):
            for t in itertools.product('aZ-b', repeat=k):
                s = ''.join(t)
                cases.append(('dom', s))
                cases.append(('css', s))
        for t in itertools.product('aAbB-1', repeat=self.size(ctx, 5, 6, 5)):
            s = ''.join(t)
            cases.append(('dom', s))
            cases.append(('css', s))
        lines = ['%s %s' % (k, enc(s)) for k, s in cases]
        out = ctx.driver(lines) if ctx.model_ok else [None] * len(lines)
        for (k, s), m in zip(cases, out):
            got = enc(_toDOMname(s) if k == 'dom' else _toCSSname(s))
            ctx.case(key=(k, s), nontrivial=(got != enc(s)), kind='dom:' + k,
                     sample={'call': '_toDOMname' if k == 'dom' else '_toCSSname', 'arg': s, 'impl': got})
            if m is not None and m != got:
                ctx.disagree('_toDOMname' if k == 'dom' else '_toCSSname', s, got, m)
        # oracle: round trip on every known name (the property's exhaustive clause)
        for n in names:
            if _toCSSname(_toDOMname(n)) != n:
                ctx.violate('DOM name of a known property maps back to its CSS name', {'name': n},
                            {'dom': _toDOMname(n), 'back': _toCSSname(_toDOMname(n))})

    def oracle_attr(self, ctx, cu, names):
        """every known property through its camel-case attribute: get/set/del == by CSS name (exhaustive)"""
        from cssutils.css import CSSStyleDeclaration
        for n in names:
            dom = G.camel(n)           # independent of cssproperties._toDOMname
            w = {'property': n, 'attribute': dom}
            if not isinstance(getattr(CSSStyleDeclaration, dom, None), property):
                ctx.violate('every known property has a camel-case attribute', w, None)
                continue
            ctx.case(key=('attr', n), nontrivial=('-' in n), kind='attr')
            a = CSSStyleDeclaration(validating=False)
            b = CSSStyleDeclaration(validating=False)
            try:
                with time_limit(20):
                    setattr(a, dom, 'inherit')
                    b.setProperty(n, 'inherit')
                    if a.cssText != b.cssText or a.cssText != '%s: inherit' % n:
                        ctx.violate('attribute set == setProperty(CSS name)', w, {'attr': a.cssText, 'byname': b.cssText})
                    b.setProperty(n, 'initial', 'important')
                    a.cssText = b.cssText
                    if getattr(a, dom) != 'initial' or getattr(a, dom) != a.getPropertyValue(n):
                        ctx.violate('attribute get == getPropertyValue(CSS name)', w, {'attr': getattr(a, dom)})
                    delattr(a, dom)
                    if a.cssText != '' or a.length != 0:
                        ctx.violate('attribute del == removeProperty(CSS name)', w, {'left': a.cssText})
            except Exception as e:  # noqa: BLE001 - any exception here is a failure of the clause
                ctx.violate('attribute access by DOM name works for every known property', w, repr(e))

    # -- declaration block --------------------------------------------------------------------------
    def corr_decl(self, ctx, cu, names):
        rng = ctx.sub_rng('decl')
        nseq = self.size(ctx, 1500, 30000, 6000)
        batch = []
        for i in range(nseq):
            ops = G.gen_decl_ops(rng, names)
            batch.append(ops)
            if len(batch) >= 250:
                self.run_decl_batch(ctx, cu, batch, rng)
                batch = []
        if batch:
            self.run_decl_batch(ctx, cu, batch, rng)

    def run_decl_batch(self, ctx, cu, batch, rng, kind='decl'):
        front = Front(cu)
        lines, expect, owners = ['reset'], [('ok', 'reset')], [None]
        for ops in batch:
            s = Session(cu, front)
            s.ctx, s.rng, s.history = ctx, rng, ops
            spec = G.Spec(cu, ctx, ops)
            style = s.run_decl(ops, spec)
            lines.extend(s.lines)
            expect.extend(s.expect)
            owners.extend([ops] * len(s.lines))
            nt = G.nontrivial_decl(ops, style, spec)
            ctx.case(key=('decl', repr(ops)), nontrivial=nt, kind=kind,
                     sample={'ops': G.show_ops(ops), 'final': style.cssText})
            for op in ops:
                ctx.count('op:' + op[0])
            for k, c in spec.stats.items():
                ctx.count('decl:' + k, c)
        if front.mode_dependent:
            ctx.notes['values_whose_wellformedness_depends_on_error_mode'] = sorted(front.mode_dependent)[:10]
        self.compare(ctx, lines, expect, owners, 'declaration block')

    def compare(self, ctx, lines, expect, owners, what):
        if not ctx.model_ok:
            return
        out = ctx.driver(lines)
        reported = set()
        for line, (exp, desc), m, ops in zip(lines, expect, out, owners):
            if exp is None:
                if m.startswith('err') or m in ('missing', 'bad-op'):
                    pass_ = False
                else:
                    pass_ = True
            else:
                pass_ = (m == exp)
            if not pass_ and id(ops) not in reported:
                reported.add(id(ops))
                ctx.disagree(what, {'ops': G.show_ops(ops) if ops else None, 'at': repr(desc), 'line': line},
                             exp if exp is None or len(exp) < 1500 else G.explain(exp, m)[0],
                             m if len(m) < 1500 else G.explain(exp, m)[1])

    # -- variables block ----------------------------------------------------------------------------
    def corr_vars(self, ctx, cu, names):
        rng = ctx.sub_rng('vars')
        nseq = self.size(ctx, 800, 15000, 3000)
        batch = []
        for i in range(nseq):
            batch.append(G.gen_var_ops(rng))
            if len(batch) >= 250:
                self.run_vars_batch(ctx, cu, batch, rng)
                batch = []
        if batch:
            self.run_vars_batch(ctx, cu, batch, rng)

    def run_vars_batch(self, ctx, cu, batch, rng):
        front = Front(cu)
        lines, expect, owners = ['reset'], [('ok', 'reset')], [None]
        for ops in batch:
            s = Session(cu, front)
            s.ctx, s.rng, s.history = ctx, rng, G.show_ops(ops)
            v = s.run_vars(ops)
            lines.extend(s.lines)
            expect.extend(s.expect)
            owners.extend([ops] * len(s.lines))
            ctx.case(key=('vars', repr(ops)), nontrivial=G.nontrivial_vars(ops), kind='vars',
                     sample={'ops': G.show_ops(ops), 'final': v.cssText})
            for op in ops:
                ctx.count('op:' + op[0])
        self.compare(ctx, lines, expect, owners, 'variables block')

    # -- corpus -------------------------------------------------------------------------------------
    def run_corpus(self, ctx, cu, names):
        import json
        d = os.path.join(ctx.verif, 'tools', 'corpus', 'C10')
        if not os.path.isdir(d):
            return
        rng = ctx.sub_rng('corpus')
        for fn in sorted(os.listdir(d)):
            if not fn.endswith('.json'):
                continue
            data = json.load(open(os.path.join(d, fn)))
            for entry in data.get('cases', []):
                ops = G.ops_from_json(entry['ops'])
                if entry.get('kind') == 'vars':
                    self.run_vars_batch(ctx, cu, [ops], rng)
                else:
                    self.run_decl_batch(ctx, cu, [ops], rng, kind='corpus')

    def search(self, ctx):
        """an obligation or the correspondence broke: look for a concrete failing input with a larger sample"""
        ctx.search_mode = True
        ctx.tier_counts = 'search'
        self.run(ctx)

    # -- known findings / replay -------------------------------------------------------------------
    def known(self, ctx, finding):
        cu = _impl()
        w = finding['witness']['data']
        if finding['id'] == 'C10-var-name-not-bare-ident':
            from cssutils.css import CSSVariablesDeclaration
            v = CSSVariablesDeclaration()
            for name, value in w['setVariable']:
                v.setVariable(name, value)
            back = CSSVariablesDeclaration(cssText=v.cssText)
            return back.keys() != v.keys()
        if finding['id'] == 'C10-vars-trailing-comment':
            from cssutils.css import CSSVariablesDeclaration
            cu.log.raiseExceptions = False
            try:
                v = CSSVariablesDeclaration(cssText=w['cssText'])
                v.removeVariable(w['removeVariable'])
                back = CSSVariablesDeclaration(cssText=v.cssText)
                return v.keys() == w['keys'] and back.keys() != v.keys()
            finally:
                cu.log.raiseExceptions = True
        if finding['id'] == 'C10-escaped-backslash-name':
            from cssutils.css import CSSStyleDeclaration
            s = CSSStyleDeclaration()
            for op in w['ops']:
                s.setProperty(op[1], op[2], op[3])
            return None in list(s) and len(s.keys()) == 1
        return True

    def replay(self, ctx, data):
        cu = _impl()
        w = data.get('witness') or {}
        ops = None
        if isinstance(w, dict) and w.get('ops'):
            ops = w['ops']
        for b in data.get('broken', []):
            if isinstance(b.get('input'), dict) and b['input'].get('ops'):
                ops = ops or b['input']['ops']
        if ops is None:
            self.run(ctx)
            return
        ops = G.ops_from_json(ops)
        rng = ctx.sub_rng('replay')
        if ops and ops[0][0].startswith('v') and ops[0][0] not in ('vtext',) or (ops and ops[0][0] == 'vtext'):
            self.run_vars_batch(ctx, cu, [ops], rng)
        else:
            self.run_decl_batch(ctx, cu, [ops], rng)


CHECK = C10()
