"""C12 worker: runs ONE history of ops in a fresh Python process and prints what it observed (JSON on stdout).

usage: python c12_worker.py < request.json ; request = {"mode": "history" | "calibrate" | "memo" | "lazy", "ops": [...], "snapshot": bool}
"""
import json
import os
import sys

sys.path.insert(0, os.path.dirname(os.path.dirname(os.path.abspath(__file__))))
from harness import c12_ops, c12_snapshot, c12_memo  # noqa: E402
from lib.framework import time_limit, TimeLimit  # noqa: E402


def run_history(req):
    runner = c12_ops.Runner()
    results = []
    for op in req['ops']:
        if op['op'] == 'battery':
            with time_limit(600):       # a time-out here is an infrastructure problem (exit 3), never a finding
                fn = c12_ops.battery_isolated if req.get('isolated') else c12_ops.battery
                results.append({'battery': fn(runner), 'state': runner.state()})
            continue
        before = c12_snapshot.snapshot() if req.get('snapshot') else None
        with time_limit(300):
            res = runner.execute(op)
        res['state'] = runner.state()
        if before is not None:
            res['snapdiff'] = c12_snapshot.diff(before, c12_snapshot.snapshot())[:12]
        results.append(res)
    return results


def calibrate(req):
    """the sequence of log calls (their neverraise flags) every catalogue entry makes, measured with a wrapped handler.
    This process is used for nothing else."""
    import xml.dom
    import cssutils
    cssutils.log.setLevel(100)
    cssutils.log.raiseExceptions = False
    H = cssutils.errorhandler._ErrorHandler
    orig = H._ErrorHandler__handle
    calls = []

    def wrapped(self, msg='', token=None, error=xml.dom.SyntaxErr, neverraise=False, args=None):
        calls.append('1' if neverraise else '0')
        return orig(self, msg, token, error, neverraise, args)
    H._ErrorHandler__handle = wrapped
    runner = c12_ops.Runner()
    out = {'sheets': {}, 'styles': {}, 'direct': {}, 'imported': {}}
    p = cssutils.CSSParser()
    def measure(f):
        del calls[:]
        try:
            f()
        except Exception as e:      # noqa: B902 -- in log mode nothing should raise; report what did
            return 'EXC:%s' % type(e).__name__
        return ''.join(calls)
    for t in c12_ops.SHEETS:
        out['sheets'][t] = measure(lambda: p.parseString(t))
    for t in c12_ops.STYLES:
        out['styles'][t] = measure(lambda: p.parseStyle(t))
    for name, (expr, _) in c12_ops.DIRECT.items():
        try:
            sheet = runner._edit_sheet()
        except Exception:           # noqa: B902
            sheet = None
        out['direct'][name] = measure(lambda: eval(expr, {'cssutils': cssutils, '_SHEET': sheet}))
        runner.sheet = None
    for kind in c12_ops.IMPORTED:
        pf = cssutils.CSSParser(fetcher=runner.fetcher(kind))
        out['imported'][kind] = measure(lambda: pf.parseString('@import "u.css";', href='http://c12.invalid/base/'))
    return out


def main():
    req = json.load(sys.stdin)
    try:
        if req['mode'] == 'calibrate':
            json.dump(calibrate(req), sys.stdout)
        elif req['mode'] == 'capture':
            json.dump(c12_memo.run_capture(req), sys.stdout)
        elif req['mode'] == 'memo':
            with time_limit(300):
                json.dump(c12_memo.run_memo(req), sys.stdout)
        elif req['mode'] == 'lazy':
            with time_limit(300):
                json.dump(c12_memo.run_lazy(req), sys.stdout)
        else:
            json.dump(run_history(req), sys.stdout)
    except TimeLimit:
        sys.stderr.write('C12-WORKER-TIMEOUT\n')
        sys.exit(3)


if __name__ == '__main__':
    main()
