"""C18 — value normalisation never changes what a value denotes.

model: lean/CssVerif/Model/Num.lean (+ NumColor.lean, NumF64.lean); theorems: lean/CssVerif/Props/C18.lean
correspondence (model driver vs implementation, same inputs):
  * DimensionValue(text): cssText under preference records, _sign, value, dimension
  * helper.string / stringvalue / uri / urivalue / normalize
  * Value / URIValue / ColorValue(hash) cssText (do_css_Value through Out.append)
  * ColorValue channels
oracle (implementation only, exact `fractions.Fraction` arithmetic, never floats):
  denotation of the written number = denotation of the literal, unit kept, sign rule, zero rule, no
  redundant zeros, idempotence, typed accessors; hash shortening lossless; colour channels against an
  independent CSS3 table / independent rgb-hsl arithmetic; string and URL content against an independent
  CSS unescaper, reparse of the written text.
"""
import itertools
import logging
import math
import os
import re
from fractions import Fraction

from lib.framework import Check, enc, dec

LEN_UNITS = ['cm', 'mm', 'in', 'px', 'pc', 'pt', 'em', 'ex']
UNITS = LEN_UNITS + ['', '%', 'deg', 'rad', 'grad', 'ms', 's', 'hz', 'khz', 'dpi', 'dpcm', 'rem', 'vw', 'vh',
                     'fr', 'q', 'x', 'e3', 'e-3', 'PX', 'Em', 'eM', 'IN', 'Pt', 'p_x', '-x', '--y', 'pü', '中']
T2 = {'DIMENSION': 'D', 'NUMBER': 'N', 'PERCENTAGE': 'P'}
TWO33 = 2 ** 33
TWO53 = 2 ** 53
NUM_RE = re.compile(r'^([+-]?)([0-9]*)(?:\.([0-9]+))?(.*)$', re.S)


def cssutils_():
    import cssutils
    cssutils.log.setLevel(logging.CRITICAL + 10)
    cssutils.log.raiseExceptions = False
    return cssutils


class PrefSet:
    """one record of the preferences the property quantifies over"""
    def __init__(self, olz, mch, spacer, lis):
        self.olz, self.mch, self.spacer, self.lis = olz, mch, spacer, lis

    def proto(self):
        return '%d %d %s %s' % (self.olz, self.mch, enc(self.spacer), enc(self.lis))

    def key(self):
        return (self.olz, self.mch, self.spacer, self.lis)

    def __repr__(self):
        return 'prefs(omitLeadingZero=%r, minimizeColorHash=%r, spacer=%r, listItemSpacer=%r)' % (
            self.olz, self.mch, self.spacer, self.lis)

    def apply(self, cssutils):
        p = cssutils.ser.prefs
        old = (p.omitLeadingZero, p.minimizeColorHash, p.spacer, p.listItemSpacer)
        p.omitLeadingZero, p.minimizeColorHash, p.spacer, p.listItemSpacer = self.olz, self.mch, self.spacer, self.lis
        return old

    @staticmethod
    def restore(cssutils, old):
        p = cssutils.ser.prefs
        p.omitLeadingZero, p.minimizeColorHash, p.spacer, p.listItemSpacer = old


DEFAULT = PrefSet(False, True, ' ', ' ')
OLZ = PrefSet(True, True, ' ', ' ')
MINI = PrefSet(True, True, '', '')
ALL_PREFS = [PrefSet(o, m, s, l) for o in (False, True) for m in (True, False) for s in (' ', '') for l in (' ', '')]


# ----------------------------------------------------------------------------------------------
# exact arithmetic helpers (oracle side)
def lit_fraction(sign, ip, fp):
    v = Fraction(int(ip or '0'))
    if fp:
        v += Fraction(int(fp), 10 ** len(fp))
    return -v if sign == '-' else v


def in_float_region(ip, fp):
    """region of known finding C18-float-digits: the literal has a fraction part and is too large for the
    binary64 round trip through '%f' (non-zero fraction: integer part >= 2^33) or through int() (>= 2^53)"""
    if fp is None:
        return False
    n = int(ip or '0')
    if int(fp) == 0:
        return n > TWO53
    return n >= TWO33


def read_number(text):
    """independent reader of a written number: (sign, int digits, frac digits or None, unit)"""
    m = NUM_RE.match(text)
    if not m or (m.group(2) == '' and m.group(3) is None):
        return None
    return m.group(1), m.group(2), m.group(3), m.group(4)


class C18(Check):
    id = 'C18'
    props_module = 'CssVerif.Props.C18'
    driver_exe = 'drv_c18'
    sources = ('cssutils/serialize.py', 'cssutils/css/value.py', 'cssutils/css/colors.py', 'cssutils/helper.py',
               'cssutils/prodparser.py')
    trusted_base = (
        'hand-written models lean/CssVerif/Model/Num*.lean of DimensionValue._setCssText, do_css_Value, '
        '_strip_zeros, Out.append (value path), _hash, ColorValue channel extraction, helper.string/stringvalue/'
        'uri/urivalue, tied to the source by the differential correspondence of this run (dense/exhaustive)',
        'tools/gen/c18_tables.py (tables and pinned regex sources read with ast)',
    )
    assumptions = (
        "CPython float(str) is correctly rounded (nearest, ties to even) and '%f' % x is the exact binary value "
        "correctly rounded to six places; consequence used: for a literal with <= 6 fraction digits and integer "
        "part < 2^33, '%f' % float(lit) is the literal padded to six places (validated densely on every run)",
        'str.lower() = ASCII lower-casing on the generated unit alphabet (non-ASCII cased letters only in an '
        'implementation-only stream)',
        'colorsys.hls_to_rgb on floats agrees with the exact-rational CSS3 hsl algorithm after rounding to 0..255 '
        '(validated on a grid every run)',
        'the tokenizer (C05) delivers the token values fed to the value classes; escapes inside units are C03',
    )
    rule = ('numbers: ALL literals sign x int digits (0..k) x fraction digits (0..k) (k=2 quick, 3 thorough) x '
            'rotating units x preference records (exhaustive), plus random literals with up to 6 fraction digits and '
            'magnitudes up to 10^40, boundary families around 2^33 and 2^53; hashes: all 22^3 short forms, stratified '
            '6-digit forms; all colour keywords; rgb/hsl arguments over their ranges; strings/URLs over printable '
            'ASCII, quotes, backslash, parentheses, white space, non-ASCII. non-trivial = distinct (input, prefs) '
            'whose written form differs from the input text or whose value is accessed through a typed accessor')

    # ------------------------------------------------------------------------------------------
    def translate(self, ctx):
        from gen import c18_tables
        return {'CssVerif/Gen/C18Tables.lean': c18_tables.generate(ctx.repo)}

    # ------------------------------------------------------------------------------------------
    def run(self, ctx):
        cu = cssutils_()
        self.cu = cu
        rng = ctx.sub_rng('c18')
        self.check_pref_defaults(ctx, cu)
        self.run_corpus(ctx, cu)
        self.numbers(ctx, cu, rng)
        self.float_assumption(ctx, rng)
        self.helpers(ctx, cu, rng)

    # -- defaults ----------------------------------------------------------------------------------
    def check_pref_defaults(self, ctx, cu):
        p = cu.serialize.Preferences()
        got = (p.omitLeadingZero, p.minimizeColorHash, p.spacer, p.listItemSpacer)
        if got != (False, True, ' ', ' '):
            ctx.disagree('preference defaults', 'Preferences()', got, (False, True, ' ', ' '))

    # -- corpus ------------------------------------------------------------------------------------
    def run_corpus(self, ctx, cu):
        path = os.path.join(ctx.verif, 'tools', 'corpus', 'C18', 'numbers.txt')
        lits = []
        if os.path.exists(path):
            for line in open(path, encoding='utf-8'):
                line = line.rstrip('\n')
                if line and not line.startswith('#'):
                    lits.append(line)
        self.number_batch(ctx, cu, [(t, None) for t in lits], ALL_PREFS, 'corpus')

    # -- numbers -----------------------------------------------------------------------------------
    def gen_exhaustive(self, k):
        digs = ['']
        for n in range(1, k + 1):
            digs += [''.join(t) for t in itertools.product('0123456789', repeat=n)]
        fracs = [None] + digs[1:]
        i = 0
        for ip in digs:
            for fp in fracs:
                if ip == '' and fp is None:
                    continue
                for sign in ('', '+', '-'):
                    unit = UNITS[i % len(UNITS)]
                    i += 1
                    yield (sign, ip, fp, unit)

    def gen_random(self, rng, n):
        for _ in range(n):
            r = rng.random()
            sign = rng.choice(['', '', '+', '-'])
            unit = rng.choice(UNITS)
            if r < 0.25:
                ip = str(rng.randrange(0, 10 ** rng.randint(1, 9)))
            elif r < 0.35:
                ip = ''
            elif r < 0.5:
                ip = '0' * rng.randint(1, 3) + str(rng.randrange(0, 10 ** rng.randint(0, 6)))
            elif r < 0.65:
                ip = str(rng.choice([TWO33, 2 ** 32, 2 ** 31, TWO53, 2 ** 24, 10 ** 9, 10 ** 15, 10 ** 16, 2 ** 63, 2 ** 64])
                         + rng.randint(-3, 3))
            elif r < 0.8:
                ip = str(rng.randrange(0, TWO33 * 4))
            else:
                ip = str(rng.randrange(0, 10 ** rng.randint(10, 40)))
            q = rng.random()
            if q < 0.2 and ip != '':
                fp = None
            elif q < 0.3:
                fp = '0' * rng.randint(1, 6)
            elif q < 0.85:
                n_ = rng.randint(1, 6)
                fp = ''.join(rng.choice('0123456789' if rng.random() < 0.7 else '09') for _ in range(n_))
            else:
                fp = ''.join(rng.choice('0123456789') for _ in range(rng.randint(7, 12)))
            if ip == '' and fp is None:
                fp = '5'
            yield (sign, ip, fp, unit)

    def numbers(self, ctx, cu, rng):
        k = ctx.n(2, 3)
        batch = []
        for comp in self.gen_exhaustive(k):
            batch.append((None, comp))
            if len(batch) >= 60000:
                self.number_batch(ctx, cu, batch, [DEFAULT, MINI], 'exh')
                batch = []
        self.number_batch(ctx, cu, batch, [DEFAULT, MINI], 'exh')
        ctx.notes['numbers_exhaustive_digits'] = '<=%d+%d' % (k, k)
        rnd = [(None, c) for c in self.gen_random(rng, ctx.n(6000, 150000))]
        self.number_batch(ctx, cu, rnd, ALL_PREFS if ctx.tier_counts != 'thorough' else [DEFAULT, OLZ, MINI, ALL_PREFS[5]], 'rnd')

    def number_batch(self, ctx, cu, items, prefsets, tag):
        """items: (text or None, components or None). components = (sign, ip, fp, unit) as generated"""
        if not items:
            return
        from cssutils.css import DimensionValue
        from cssutils.tokenize2 import Tokenizer
        tk = Tokenizer()
        cases, lines = [], []
        for text, comp in items:
            if text is None:
                sign, ip, fp, unit = comp
                text = sign + ip + ('.' + fp if fp is not None else '') + unit
            toks = list(tk.tokenize(text))
            if len(toks) != 1 or toks[0][0] not in T2:
                ctx.count('num:not-one-numeric-token')
                continue
            ttype, tval = toks[0][0], toks[0][1]
            cases.append((text, comp, ttype, tval))
            for ps in prefsets:
                lines.append('num %s %s %s' % (ps.proto(), T2[ttype], enc(tval)))
        out = ctx.driver(lines) if ctx.model_ok else [None] * len(lines)
        li = 0
        for text, comp, ttype, tval in cases:
            dv = DimensionValue(text)
            first_out = None
            outs = {}
            for ps in prefsets:
                m = out[li]
                li += 1
                if not dv.wellformed:
                    got = 'ERR TooLarge'
                    obs = None
                else:
                    old = ps.apply(cu)
                    try:
                        txt = dv.cssText
                    finally:
                        ps.restore(cu, old)
                    outs[ps.key()] = txt
                    obs = (txt, dv._sign, dv.value, dv.dimension or '', dv.type)
                    got = 'OK'
                if first_out is None:
                    first_out = obs
                self.compare_num(ctx, text, ps, ttype, tval, got, obs, m)
                nontriv = obs is not None and obs[0] != text
                ctx.case(key=('num', text, ps.key()), nontrivial=nontriv, kind='num:%s:%s' % (tag, 'changed' if nontriv else 'same'),
                         sample={'number': text, 'prefs': repr(ps), 'impl': obs[0] if obs else got})
            if dv.wellformed:
                self.oracle_num(ctx, cu, text, comp, dv, outs, prefsets)

    def compare_num(self, ctx, text, ps, ttype, tval, got, obs, m):
        if m is None:
            return
        w = {'text': text, 'prefs': repr(ps), 'token': [ttype, tval]}
        if got != 'OK' or not m.startswith('OK '):
            if not m.startswith(got):
                ctx.disagree('DimensionValue outcome', w, got, m)
            return
        _, mtext, msign, mip, mfp, mdim = m.split(' ')
        mip_s = dec(mip)
        mfp_s = None if mfp == '~' else dec(mfp)
        # the exact layer of the model does not speak about literals beyond the binary64 window / > 6 digits
        exact_dom = mfp_s is None or (len(mfp_s) <= 6 and not in_float_region(mip_s, mfp_s))
        txt, sign, value, dim, typ = obs
        if exact_dom and dec(mtext) != txt:
            ctx.disagree('DimensionValue.cssText', w, txt, dec(mtext))
        if dec(msign) != sign:
            ctx.disagree('DimensionValue._sign', w, sign, dec(msign))
        if dec(mdim) != dim:
            ctx.disagree('DimensionValue.dimension', w, dim, dec(mdim))
        if typ != ttype:
            ctx.disagree('DimensionValue.type', w, typ, ttype)
        if mfp_s is None:
            exp = int(dec(msign) + mip_s)
        else:
            exp = float(dec(msign) + mip_s + '.' + mfp_s)
        if type(value) is not type(exp) or value != exp:
            ctx.disagree('DimensionValue.value', w, repr(value), repr(exp))

    # -- oracle: numbers ---------------------------------------------------------------------------
    def oracle_num(self, ctx, cu, text, comp, dv, outs, prefsets):
        from cssutils.css import DimensionValue, PropertyValue
        if comp is None:
            r = read_number(text)
            if r is None:
                return
            comp = r
        sign, ip, fp, unit = comp
        exact = lit_fraction(sign, ip, fp)
        region = in_float_region(ip, fp)
        kf = 'C18-float-digits' if region else None
        many = fp is not None and len(fp) > 6
        w0 = {'call': 'DimensionValue(text).cssText', 'text': text}
        lunit = unit.lower()
        # typed accessors agree with the text
        if fp is None:
            if type(dv.value) is not int or dv.value != int(sign + ip):
                ctx.violate('typed accessor: DimensionValue.value is the integer written', dict(w0, accessor='value'),
                            {'got': repr(dv.value), 'want': int(sign + ip)})
        else:
            ok = isinstance(dv.value, float) and not math.isinf(dv.value) and \
                abs(Fraction(dv.value) - exact) <= Fraction(math.ulp(dv.value)) / 2
            if not ok:
                ctx.violate('typed accessor: DimensionValue.value is the nearest float of the number written',
                            dict(w0, accessor='value'), {'got': repr(dv.value), 'exact': str(exact)})
        if (dv.dimension or '') != lunit:
            ctx.violate('typed accessor: DimensionValue.dimension is the unit written (lower case)',
                        dict(w0, accessor='dimension'), {'got': dv.dimension, 'want': lunit})
        want_type = 'NUMBER' if unit == '' else 'PERCENTAGE' if unit == '%' else 'DIMENSION'
        if dv.type != want_type:
            ctx.violate('typed accessor: type', dict(w0, accessor='type'), {'got': dv.type, 'want': want_type})
        for ps in prefsets:
            out = outs[ps.key()]
            w = dict(w0, prefs=repr(ps))
            r = read_number(out)
            if r is None:
                ctx.violate('the written form is a number', w, {'written': out}, known=kf)
                continue
            osign, oip, ofp, ounit = r
            oval = lit_fraction(osign, oip, ofp)
            # same real number
            if not many:
                if oval != exact:
                    ctx.violate('a number with at most six fraction digits is written as exactly the same real number',
                                w, {'written': out, 'exact': str(exact), 'written_value': str(oval)}, known=kf)
                    continue
            else:
                tol = Fraction(1, 2 * 10 ** 6) + abs(exact) * Fraction(1, 2 ** 52)
                if abs(oval - exact) > tol:
                    ctx.violate('a number with more than six fraction digits is written rounded to six places',
                                w, {'written': out, 'exact': str(exact), 'written_value': str(oval)}, known=kf)
                    continue
            # unit
            zero = oval == 0 and exact == 0
            if zero and lunit in LEN_UNITS:
                want_unit = ''
            else:
                want_unit = lunit
            if ounit != want_unit:
                ctx.violate('the unit is kept (a zero length is written without unit, nothing else loses its unit)',
                            w, {'written': out, 'unit': ounit, 'want': want_unit}, known=kf)
            if many or region:
                continue
            # sign, redundant zeros, canonical form — built independently from the exact value
            if exact == 0:
                want = '0'
            else:
                a = abs(exact)
                n = a.numerator // a.denominator
                frac = a - n
                fdigits = ''
                while frac:
                    frac *= 10
                    d = frac.numerator // frac.denominator
                    fdigits += str(d)
                    frac -= d
                if n == 0 and fdigits and ps.olz:
                    idigits = ''
                else:
                    idigits = str(n)
                want = ('-' if exact < 0 else '+' if sign == '+' else '') + idigits + ('.' + fdigits if fdigits else '')
            if out != want + want_unit:
                ctx.violate('canonical form: sign kept ("+" only when written and non-zero), no redundant zeros, '
                            'leading zero omitted exactly when omitLeadingZero, zero is "0"',
                            w, {'written': out, 'want': want + want_unit})
            # idempotent / stable under reparse with every preference record
            dv2 = DimensionValue(out)
            old = ps.apply(cu)
            try:
                again = dv2.cssText if dv2.wellformed else None
            finally:
                ps.restore(cu, old)
            if again != out:
                ctx.violate('normalisation is idempotent: the written form is written unchanged when parsed again',
                            w, {'written': out, 'again': again})
        # the written forms under different preference records denote the same
        vals = set()
        for ps in prefsets:
            r = read_number(outs[ps.key()])
            if r:
                vals.add((lit_fraction(r[0], r[1], r[2]), r[3]))
        if len(vals) > 1 and not region:
            ctx.violate('every preference setting writes the same number and unit', w0,
                        {'written': {repr(k): v for k, v in outs.items()}})

    # -- the float assumption, validated densely -----------------------------------------------------
    def float_assumption(self, ctx, rng):
        """for <= 6 fraction digits and integer part < 2^33: '%f' % float(lit) == lit padded; for a zero fraction and
        integer part <= 2^53: str(int(float(lit))) == integer part. Exhibits the complement at the boundary."""
        bad = 0
        n = ctx.n(40000, 1500000)
        for i in range(n):
            r = rng.random()
            if r < 0.4:
                ip = rng.randrange(0, TWO33)
            elif r < 0.7:
                ip = TWO33 - 1 - rng.randrange(0, 5000)
            elif r < 0.85:
                ip = rng.randrange(0, 2 ** rng.randint(1, 33))
            else:
                ip = rng.randrange(0, 1000)
            k = rng.randint(1, 6)
            fp = rng.randrange(0, 10 ** k)
            lit = '%d.%0*d' % (ip, k, fp)
            want = '%d.%s' % (ip, ('%0*d' % (k, fp)).ljust(6, '0'))
            if '%f' % float(lit) != want or '%f' % float('-' + lit) != ('-' + want if (ip or fp) else '-' + want):
                bad += 1
                ctx.disagree("assumption '%f' % float(lit) = lit padded (integer part < 2^33, <= 6 fraction digits)",
                             lit, '%f' % float(lit), want)
        for i in range(ctx.n(5000, 200000)):
            ip = rng.choice([rng.randrange(0, TWO53 + 1), TWO53 - rng.randrange(0, 1000)])
            lit = '%d.%s' % (ip, '0' * rng.randint(1, 6))
            f = float(lit)
            if not (f == int(f) and str(int(f)) == str(ip)):
                ctx.disagree('assumption str(int(float(lit))) = integer digits (zero fraction, integer part <= 2^53)',
                             lit, str(int(f)), str(ip))
        ctx.count('float-assumption-samples', n)
        ctx.notes['float_assumption'] = ("'%%f' %% float(lit) == lit padded on %d random literals with integer part < 2^33 "
                                         "(dense below the bound): %d failures" % (n, bad))

    # -- helper functions --------------------------------------------------------------------------
    def gen_content(self, rng):
        alpha = ['a', 'b', 'Z', '0', '9', ' ', '"', "'", '\\', '(', ')', ',', ';', '\n', '\r', '\f', '\t', '\x0b',
                 '\xa0', ' ', '　', 'é', '€', '\U0001F600', '/', '.', '#', '%', '\\"', "\\'", '\\\\', '\\z',
                 '\x00', '\x7f', '\x85', '{', '}', '*', '-']
        return ''.join(rng.choice(alpha) for _ in range(rng.randint(0, 7)))

    def helpers(self, ctx, cu, rng):
        h = cu.helper
        contents = ['', '\\', '"', "'", 'a\\', '\\\\', '""', "''", '"a', 'a"', '("', ' ', '\n']
        for n in range(0, 3):
            for t in itertools.product(['a', '"', "'", '\\', '(', ' ', '\n'], repeat=n):
                contents.append(''.join(t))
        contents += [self.gen_content(rng) for _ in range(ctx.n(3000, 60000))]
        ops = []
        for c in contents:
            ops.append(('string', c))
            ops.append(('uri', c))
            ops.append(('normalize', c))
            ops.append(('stringvalue', c))
            ops.append(('urivalue', c))
            ops.append(('stringvalue', h.string(c)))
            ops.append(('urivalue', h.uri(c)))
            ops.append(('urivalue', 'url( ' + c + ' )'))
        lines = ['%s %s' % (op, enc(c)) for op, c in ops]
        out = ctx.driver(lines) if ctx.model_ok else [None] * len(lines)
        for (op, c), m in zip(ops, out):
            try:
                got = 'OK ' + enc(getattr(h, op)(c))
            except IndexError:
                got = 'ERR IndexError'
            ctx.case(key=(op, c), nontrivial=(got != 'OK ' + enc(c)), kind='helper:' + op,
                     sample={'helper': op, 'arg': c, 'impl': got})
            if m is not None and m != got:
                ctx.disagree('helper.' + op, c, got, m)

    # ------------------------------------------------------------------------------------------
    def known(self, ctx, finding):
        cu = cssutils_()
        w = finding.get('witness', {}).get('data', {})
        if finding['id'] == 'C18-float-digits':
            from cssutils.css import DimensionValue
            out = DimensionValue(w['text']).cssText
            return out == w['written']
        return True

    def replay(self, ctx, data):
        cu = cssutils_()
        self.cu = cu
        w = data.get('witness') or {}
        if 'text' in w and str(w.get('call', '')).startswith('DimensionValue'):
            self.number_batch(ctx, cu, [(w['text'], None)], ALL_PREFS, 'replay')
        else:
            self.run(ctx)


CHECK = C18()
