"""C18 — value normalisation never changes what a value denotes.

model: lean/CssVerif/Model/Num.lean (+ NumColor.lean, NumF64.lean); theorems: lean/CssVerif/Props/C18.lean
correspondence (model driver vs implementation, same inputs):
  * DimensionValue(text): cssText under preference records, _sign, value, dimension
  * helper.string / stringvalue / uri / urivalue / normalize
  * Value / URIValue / ColorValue(hash) cssText (do_css_Value through Out.append)
  * ColorValue channels
oracle (implementation only, exact `fractions.Fraction` arithmetic, never floats):
  denotation of the written number = denotation of the literal, unit kept, sign rule, zero rule, no
  redundant zeros, idempotence, typed accessors; hash shortening lossless; colour channels against an
  independent CSS3 table / independent rgb-hsl arithmetic; string and URL content against an independent
  CSS unescaper, reparse of the written text.
"""
import itertools
import logging
import math
import os
import re
from fractions import Fraction

import collections
import hashlib
import multiprocessing
import subprocess

from lib.framework import Check, enc, dec, LEAN

LEN_UNITS = ['cm', 'mm', 'in', 'px', 'pc', 'pt', 'em', 'ex']
UNITS = LEN_UNITS + ['', '%', 'deg', 'rad', 'grad', 'ms', 's', 'hz', 'khz', 'dpi', 'dpcm', 'rem', 'vw', 'vh',
                     'fr', 'q', 'x', 'e3', 'e-3', 'PX', 'Em', 'eM', 'IN', 'Pt', 'p_x', '-x', '--y', 'pü', '中']
T2 = {'DIMENSION': 'D', 'NUMBER': 'N', 'PERCENTAGE': 'P'}
TWO33 = 2 ** 33
TWO53 = 2 ** 53
NUM_RE = re.compile(r'^([+-]?)([0-9]*)(?:\.([0-9]+))?(.*)$', re.S)


def cssutils_():
    import cssutils
    cssutils.log.setLevel(logging.CRITICAL + 10)
    cssutils.log.raiseExceptions = False
    return cssutils


class PrefSet:
    """one record of the preferences the property quantifies over"""
    def __init__(self, olz, mch, spacer, lis):
        self.olz, self.mch, self.spacer, self.lis = olz, mch, spacer, lis

    def proto(self):
        return '%d %d %s %s' % (self.olz, self.mch, enc(self.spacer), enc(self.lis))

    def key(self):
        return (self.olz, self.mch, self.spacer, self.lis)

    def __repr__(self):
        return 'prefs(omitLeadingZero=%r, minimizeColorHash=%r, spacer=%r, listItemSpacer=%r)' % (
            self.olz, self.mch, self.spacer, self.lis)

    def apply(self, cssutils):
        p = cssutils.ser.prefs
        old = (p.omitLeadingZero, p.minimizeColorHash, p.spacer, p.listItemSpacer)
        p.omitLeadingZero, p.minimizeColorHash, p.spacer, p.listItemSpacer = self.olz, self.mch, self.spacer, self.lis
        return old

    @staticmethod
    def restore(cssutils, old):
        p = cssutils.ser.prefs
        p.omitLeadingZero, p.minimizeColorHash, p.spacer, p.listItemSpacer = old


DEFAULT = PrefSet(False, True, ' ', ' ')
OLZ = PrefSet(True, True, ' ', ' ')
MINI = PrefSet(True, True, '', '')
ALL_PREFS = [PrefSet(o, m, s, l) for o in (False, True) for m in (True, False) for s in (' ', '') for l in (' ', '')]


# ----------------------------------------------------------------------------------------------
# exact arithmetic helpers (oracle side)
def lit_fraction(sign, ip, fp):
    v = Fraction(int(ip or '0'))
    if fp:
        v += Fraction(int(fp), 10 ** len(fp))
    return -v if sign == '-' else v


def in_float_region(ip, fp):
    """region of known finding C18-float-digits: the literal has a fraction part and is too large for the
    binary64 round trip through '%f' (non-zero fraction: integer part >= 2^33) or through int() (>= 2^53)"""
    if fp is None:
        return False
    n = int(ip or '0')
    if int(fp) == 0:
        return n > TWO53
    return n >= TWO33


def read_number(text):
    """independent reader of a written number: (sign, int digits, frac digits or None, unit)"""
    m = NUM_RE.match(text)
    if not m or (m.group(2) == '' and m.group(3) is None):
        return None
    return m.group(1), m.group(2), m.group(3), m.group(4)


class Collector:
    """stands in for the framework's Ctx inside a worker process; merged into the real one by the parent"""
    def __init__(self, model_ok, verif, tier_counts):
        self.model_ok, self.verif, self.tier_counts = model_ok, verif, tier_counts
        self.evaluations = 0
        self.keys = set()
        self.dist = collections.Counter()
        self.disagreements, self.violations, self.samples = [], [], []
        self.known_hits = collections.Counter()
        self.traces = 0
        self.notes = {}
        self.harness_errors = []
        self.search_mode = False

    def phase(self, fn, *args, **kw):
        import traceback
        try:
            return fn(*args, **kw)
        except Exception as e:
            traceback.print_exc()
            self.harness_errors.append('%s: %r' % (getattr(fn, '__name__', 'phase'), e))
            return None

    def n(self, quick, thorough):
        return thorough if self.tier_counts == 'thorough' else quick

    def case(self, key=None, nontrivial=True, sample=None, kind=None):
        self.evaluations += 1
        if nontrivial and key is not None:
            self.keys.add(hashlib.blake2b(repr(key).encode('utf-8', 'surrogatepass'), digest_size=8).digest())
        if kind:
            self.dist[kind] += 1
        if sample is not None and len(self.samples) < 2:
            self.samples.append(sample)

    def count(self, kind, k=1):
        self.dist[kind] += k

    def disagree(self, what, inp, impl, model):
        if len(self.disagreements) < 20:
            self.disagreements.append((what, inp, impl, model))

    def violate(self, clause, witness, detail=None, known=None):
        if known:
            self.known_hits[known] += 1
        elif len(self.violations) < 20:
            self.violations.append((clause, witness, detail))

    def driver(self, lines):
        if not lines:
            return []
        path = os.path.join(LEAN, '.lake', 'build', 'bin', 'drv_c18')
        p = subprocess.run([path], input=('\n'.join(lines) + '\n').encode('ascii'), stdout=subprocess.PIPE, timeout=900)
        out = p.stdout.decode('ascii', 'replace').split('\n')
        if out and out[-1] == '':
            out.pop()
        if p.returncode != 0 or len(out) != len(lines):
            raise RuntimeError('driver drv_c18: rc=%s, %d lines in, %d out' % (p.returncode, len(lines), len(out)))
        self.traces += len(lines)
        return out

    def merge_into(self, ctx):
        ctx.evaluations += self.evaluations
        if len(ctx.nontrivial) < 2_000_000:
            ctx.nontrivial |= self.keys
        ctx.dist.update(self.dist)
        ctx.known_hits.update(self.known_hits)
        ctx.traces += self.traces
        ctx.notes.update(self.notes)
        ctx.harness_errors.extend(self.harness_errors)
        for d in self.disagreements:
            ctx.disagree(*d)
        for v in self.violations:
            ctx.violate(*v)
        for smp in self.samples:
            if len(ctx.samples) < 12:
                ctx.samples.append(smp)


def _exh_worker(args):
    k, part, parts, model_ok, verif, tier_counts = args
    col = Collector(model_ok, verif, tier_counts)
    chk = C18()
    cu = cssutils_()
    chk.cu = cu
    batch = []
    for i, comp in enumerate(chk.gen_exhaustive(k)):
        if i % parts != part:
            continue
        batch.append((None, comp))
        if len(batch) >= 20000:
            chk.number_batch(col, cu, batch, [DEFAULT, MINI], 'exh')
            batch = []
    chk.number_batch(col, cu, batch, [DEFAULT, MINI], 'exh')
    return col


def _group_worker(args):
    group, phases, seed, search_pass, model_ok, verif, tier_counts = args
    col = Collector(model_ok, verif, tier_counts)
    col.search_mode = bool(search_pass)
    chk = C18()
    chk.search_pass = search_pass
    times = chk.run_group(col, phases, seed, search_pass)
    return col, times


class C18(Check):
    id = 'C18'
    props_module = 'CssVerif.Props.C18'
    driver_exe = 'drv_c18'
    sources = ('cssutils/serialize.py', 'cssutils/css/value.py', 'cssutils/css/colors.py', 'cssutils/helper.py',
               'cssutils/prodparser.py')
    trusted_base = (
        'hand-written models lean/CssVerif/Model/Num*.lean of DimensionValue._setCssText, do_css_Value, '
        '_strip_zeros, Out.append (value path), _hash, ColorValue channel extraction, helper.string/stringvalue/'
        'uri/urivalue, tied to the source by the differential correspondence of this run (dense/exhaustive)',
        'tools/gen/c18_tables.py (tables and pinned regex sources read with ast)',
    )
    assumptions = (
        "CPython float(str) is correctly rounded (nearest, ties to even) and '%f' % x is the exact binary value "
        "correctly rounded to six places; consequence used: for a literal with <= 6 fraction digits and integer "
        "part < 2^33, '%f' % float(lit) is the literal padded to six places (validated densely on every run)",
        'str.lower() = ASCII lower-casing on the generated unit alphabet (non-ASCII cased letters only in an '
        'implementation-only stream)',
        'colorsys.hls_to_rgb on floats agrees with the exact-rational CSS3 hsl algorithm after rounding to 0..255 '
        '(validated on a grid every run)',
        'the tokenizer (C05) delivers the token values fed to the value classes; escapes inside units are C03',
    )
    rule = ('numbers: ALL literals sign x int digits (0..k) x fraction digits (0..k) (k=2 quick, 3 thorough) x '
            'rotating units x preference records (exhaustive), plus random literals with up to 6 fraction digits and '
            'magnitudes up to 10^40, boundary families around 2^33 and 2^53; hashes: all 22^3 short forms, stratified '
            '6-digit forms; all colour keywords; rgb/hsl arguments over their ranges; strings/URLs over printable '
            'ASCII, quotes, backslash, parentheses, white space, non-ASCII. non-trivial = distinct (input, prefs) '
            'whose written form differs from the input text or whose value is accessed through a typed accessor')

    # ------------------------------------------------------------------------------------------
    def search(self, ctx):
        """an obligation or the correspondence broke and the first pass found no failing input: look harder with
        three more passes over fresh random streams (the exhaustive parts have been run already)"""
        ctx.search_mode = True
        for i in range(3):
            self.search_pass = i + 1
            self.run(ctx)
            if ctx.violations:
                return

    def translate(self, ctx):
        from gen import c18_tables
        return {'CssVerif/Gen/C18Tables.lean': c18_tables.generate(ctx.repo)}

    # ------------------------------------------------------------------------------------------
    # the phases of one pass, grouped for the process pool: (phase name, arguments besides ctx); the phases of one
    # group run in this order in one worker (strings / urls fill `src_cases` for token_values)
    GROUPS = (
        ('numbers-exh-0', (('numbers_exhaustive', ('c', 0, 3)),)),
        ('numbers-exh-1', (('numbers_exhaustive', ('c', 1, 3)),)),
        ('numbers-exh-2', (('numbers_exhaustive', ('c', 2, 3)),)),
        ('numbers-rnd', (('check_pref_defaults', 'c'), ('run_corpus', 'c'), ('numbers', 'cr'))),
        ('float', (('float_assumption', 'r'), ('too_large', 'c'), ('keywords', 'cr'), ('calc_correspondence', 'cr'))),
        ('colour', (('colorfuncs', 'cr'), ('hashes', 'cr'))),
        ('strings', (('strings', 'cr'), ('urls', 'cr'), ('token_values', 'c'))),
        ('lists', (('helpers', 'cr'), ('separators', 'cr'), ('out_append_direct', 'cr'), ('pv_correspondence', 'cr'))),
        ('order', (('order_and_separators', 'cr'),)),
    )

    def run_group(self, ctx, phases, seed, search_pass):
        """the phases of one group, in order, each with its own random stream derived from VERIF_SEED"""
        import time
        cu = cssutils_()
        self.cu = cu
        self.src_cases = []
        times = {}
        for name, args in phases:
            tag = 'c18/%s%s' % (name, '/search%d' % search_pass if search_pass else '')
            rng = __import__('random').Random('%s/%s/%s' % (seed, self.id, tag))
            av = [ctx] + [cu if a == 'c' else rng if a == 'r' else a for a in args]
            t0 = time.time()
            ctx.phase(getattr(self, name), *av)
            key = name + ''.join('.%s' % a for a in args if not isinstance(a, str))
            times[key] = round(time.time() - t0, 1)
        return times

    def run(self, ctx):
        search_pass = getattr(self, 'search_pass', 0) if getattr(ctx, 'search_mode', False) else 0
        jobs = [(g, phases, ctx.seed, search_pass, ctx.model_ok, ctx.verif, ctx.tier_counts) for g, phases in self.GROUPS]
        times = {}
        if os.environ.get('C18_SERIAL'):
            for g, phases, *_ in jobs:
                times.update(self.run_group(ctx, phases, ctx.seed, search_pass))
        else:
            # implementation streams in a process pool (fork: cssutils and the driver path are inherited); every worker
            # reports through a Collector that is merged here, nothing is cached across runs
            with multiprocessing.get_context('fork').Pool(min(len(jobs), max(2, (os.cpu_count() or 4) - 2))) as pool:
                for col, tms in pool.imap_unordered(_group_worker, jobs):
                    col.merge_into(ctx)
                    times.update(tms)
        if ctx.n(2, 3) == 3 and not search_pass:
            ctx.phase(self.numbers_exhaustive_pool, ctx, 3)
        ctx.notes['phase_seconds'] = times

    # -- defaults ----------------------------------------------------------------------------------
    def check_pref_defaults(self, ctx, cu):
        p = cu.serialize.Preferences()
        got = (p.omitLeadingZero, p.minimizeColorHash, p.spacer, p.listItemSpacer)
        if got != (False, True, ' ', ' '):
            ctx.disagree('preference defaults', 'Preferences()', got, (False, True, ' ', ' '))

    # -- corpus ------------------------------------------------------------------------------------
    def run_corpus(self, ctx, cu):
        path = os.path.join(ctx.verif, 'tools', 'corpus', 'C18', 'numbers.txt')
        lits = []
        if os.path.exists(path):
            for line in open(path, encoding='utf-8'):
                line = line.rstrip('\n')
                if line and not line.startswith('#'):
                    lits.append(line)
        self.number_batch(ctx, cu, [(t, None) for t in lits], ALL_PREFS, 'corpus')

    # -- numbers -----------------------------------------------------------------------------------
    def gen_exhaustive(self, k):
        digs = ['']
        for n in range(1, k + 1):
            digs += [''.join(t) for t in itertools.product('0123456789', repeat=n)]
        fracs = [None] + digs[1:]
        i = 0
        for ip in digs:
            for fp in fracs:
                if ip == '' and fp is None:
                    continue
                for sign in ('', '+', '-'):
                    unit = UNITS[i % len(UNITS)]
                    i += 1
                    yield (sign, ip, fp, unit)

    def gen_random(self, rng, n):
        for _ in range(n):
            r = rng.random()
            sign = rng.choice(['', '', '+', '-'])
            unit = rng.choice(UNITS)
            if r < 0.25:
                ip = str(rng.randrange(0, 10 ** rng.randint(1, 9)))
            elif r < 0.35:
                ip = ''
            elif r < 0.5:
                ip = '0' * rng.randint(1, 3) + str(rng.randrange(0, 10 ** rng.randint(0, 6)))
            elif r < 0.65:
                ip = str(rng.choice([TWO33, 2 ** 32, 2 ** 31, TWO53, 2 ** 24, 10 ** 9, 10 ** 15, 10 ** 16, 2 ** 63, 2 ** 64])
                         + rng.randint(-3, 3))
            elif r < 0.8:
                ip = str(rng.randrange(0, TWO33 * 4))
            else:
                ip = str(rng.randrange(0, 10 ** rng.randint(10, 40)))
            q = rng.random()
            if q < 0.2 and ip != '':
                fp = None
            elif q < 0.3:
                fp = '0' * rng.randint(1, 6)
            elif q < 0.85:
                n_ = rng.randint(1, 6)
                fp = ''.join(rng.choice('0123456789' if rng.random() < 0.7 else '09') for _ in range(n_))
            else:
                fp = ''.join(rng.choice('0123456789') for _ in range(rng.randint(7, 12)))
            if ip == '' and fp is None:
                fp = '5'
            yield (sign, ip, fp, unit)

    def numbers_exhaustive(self, ctx, cu, part, parts):
        """quick tier: ALL literals with <= 2 + 2 digits, one third per worker"""
        if ctx.n(2, 3) == 3 and not getattr(ctx, 'search_mode', False):
            return      # thorough tier: `numbers_exhaustive_pool` (<= 3 + 3 digits), run by the parent after the groups
        batch = [(None, comp) for i, comp in enumerate(self.gen_exhaustive(2)) if i % parts == part]
        self.number_batch(ctx, cu, batch, [DEFAULT, MINI], 'exh')
        ctx.notes['numbers_exhaustive_digits'] = '<=2+2'

    def numbers(self, ctx, cu, rng):
        rnd = [(None, c) for c in self.gen_random(rng, ctx.n(6000, 150000))]
        self.number_batch(ctx, cu, rnd, ALL_PREFS if ctx.tier_counts != 'thorough' else [DEFAULT, OLZ, MINI, ALL_PREFS[5]], 'rnd')

    def numbers_exhaustive_pool(self, ctx, k):
        """3.7 million literals: split over worker processes, each with its own model driver"""
        parts = max(2, min(14, (os.cpu_count() or 4) - 2))
        with multiprocessing.get_context('fork').Pool(parts) as pool:
            for col in pool.imap_unordered(_exh_worker, [(k, i, parts, ctx.model_ok, ctx.verif, ctx.tier_counts)
                                                         for i in range(parts)]):
                col.merge_into(ctx)
        ctx.notes['numbers_exhaustive_digits'] = '<=%d+%d' % (k, k)

    def number_batch(self, ctx, cu, items, prefsets, tag):
        """items: (text or None, components or None). components = (sign, ip, fp, unit) as generated"""
        if not items:
            return
        from cssutils.css import DimensionValue
        from cssutils.tokenize2 import Tokenizer
        tk = Tokenizer()
        cases, lines = [], []
        for text, comp in items:
            if text is None:
                sign, ip, fp, unit = comp
                text = sign + ip + ('.' + fp if fp is not None else '') + unit
            toks = list(tk.tokenize(text))
            if len(toks) != 1 or toks[0][0] not in T2:
                ctx.count('num:not-one-numeric-token')
                continue
            ttype, tval = toks[0][0], toks[0][1]
            cases.append((text, comp, ttype, tval))
            for ps in prefsets:
                lines.append('num %s %s %s' % (ps.proto(), T2[ttype], enc(tval)))
        out = ctx.driver(lines) if ctx.model_ok else [None] * len(lines)
        li = 0
        for text, comp, ttype, tval in cases:
            dv = DimensionValue(text)
            first_out = None
            outs = {}
            for ps in prefsets:
                m = out[li]
                li += 1
                if not dv.wellformed:
                    got = 'ERR TooLarge'
                    obs = None
                else:
                    old = ps.apply(cu)
                    try:
                        txt = dv.cssText
                    finally:
                        ps.restore(cu, old)
                    outs[ps.key()] = txt
                    obs = (txt, dv._sign, dv.value, dv.dimension or '', dv.type)
                    got = 'OK'
                if first_out is None:
                    first_out = obs
                self.compare_num(ctx, text, ps, ttype, tval, got, obs, m)
                nontriv = obs is not None and obs[0] != text
                ctx.case(key=('num', text, ps.key()), nontrivial=nontriv, kind='num:%s:%s' % (tag, 'changed' if nontriv else 'same'),
                         sample={'number': text, 'prefs': repr(ps), 'impl': obs[0] if obs else got})
            if dv.wellformed:
                self.oracle_num(ctx, cu, text, comp, dv, outs, prefsets)

    def compare_num(self, ctx, text, ps, ttype, tval, got, obs, m):
        if m is None:
            return
        w = {'text': text, 'prefs': repr(ps), 'token': [ttype, tval]}
        if got != 'OK' or not m.startswith('OK '):
            if not m.startswith(got):
                ctx.disagree('DimensionValue outcome', w, got, m)
            return
        _, mtext, msign, mip, mfp, mdim, mexact = m.split(' ')
        mip_s = dec(mip)
        mfp_s = None if mfp == '~' else dec(mfp)
        txt, sign, value, dim, typ = obs
        # the binary64 layer of the model is what the implementation computes: every literal
        if dec(mtext) != txt:
            ctx.disagree('DimensionValue.cssText', w, txt, dec(mtext))
        # bridge: on its domain the exact layer (which the theorems are about) agrees with the binary64 layer
        exact_dom = mfp_s is None or (len(mfp_s) <= 6 and not in_float_region(mip_s, mfp_s))
        if exact_dom and mexact != '=':
            ctx.disagree('model: exact layer = binary64 layer on literals with <= 6 fraction digits below 2^33 / 2^53',
                         w, dec(mtext), dec(mexact))
        ctx.count('bridge:in-domain' if exact_dom else 'bridge:outside-%s' % ('same' if mexact == '=' else 'differs'))
        if dec(msign) != sign:
            ctx.disagree('DimensionValue._sign', w, sign, dec(msign))
        if dec(mdim) != dim:
            ctx.disagree('DimensionValue.dimension', w, dim, dec(mdim))
        if typ != ttype:
            ctx.disagree('DimensionValue.type', w, typ, ttype)
        if mfp_s is None:
            exp = int(dec(msign) + mip_s)
        else:
            exp = float(dec(msign) + mip_s + '.' + mfp_s)
        if type(value) is not type(exp) or value != exp:
            ctx.disagree('DimensionValue.value', w, repr(value), repr(exp))

    # -- oracle: numbers ---------------------------------------------------------------------------
    def oracle_num(self, ctx, cu, text, comp, dv, outs, prefsets):
        from cssutils.css import DimensionValue, PropertyValue
        if comp is None:
            r = read_number(text)
            if r is None:
                return
            comp = r
        sign, ip, fp, unit = comp
        exact = lit_fraction(sign, ip, fp)
        region = in_float_region(ip, fp)
        kf = 'C18-float-digits' if region else None
        many = fp is not None and len(fp) > 6
        w0 = {'call': 'DimensionValue(text).cssText', 'text': text}
        lunit = unit.lower()
        # typed accessors agree with the text
        if fp is None:
            if type(dv.value) is not int or dv.value != int(sign + ip):
                ctx.violate('typed accessor: DimensionValue.value is the integer written', dict(w0, accessor='value'),
                            {'got': repr(dv.value), 'want': int(sign + ip)})
        else:
            ok = isinstance(dv.value, float) and not math.isinf(dv.value) and \
                abs(Fraction(dv.value) - exact) <= Fraction(math.ulp(dv.value)) / 2
            if not ok:
                ctx.violate('typed accessor: DimensionValue.value is the nearest float of the number written',
                            dict(w0, accessor='value'), {'got': repr(dv.value), 'exact': str(exact)})
        if (dv.dimension or '') != lunit:
            ctx.violate('typed accessor: DimensionValue.dimension is the unit written (lower case)',
                        dict(w0, accessor='dimension'), {'got': dv.dimension, 'want': lunit})
        want_type = 'NUMBER' if unit == '' else 'PERCENTAGE' if unit == '%' else 'DIMENSION'
        if dv.type != want_type:
            ctx.violate('typed accessor: type', dict(w0, accessor='type'), {'got': dv.type, 'want': want_type})
        for ps in prefsets:
            out = outs[ps.key()]
            w = dict(w0, prefs=repr(ps))
            r = read_number(out)
            if r is None:
                ctx.violate('the written form is a number', w, {'written': out}, known=kf)
                continue
            osign, oip, ofp, ounit = r
            oval = lit_fraction(osign, oip, ofp)
            # same real number
            if not many:
                if oval != exact:
                    ctx.violate('a number with at most six fraction digits is written as exactly the same real number',
                                w, {'written': out, 'exact': str(exact), 'written_value': str(oval)}, known=kf)
                    continue
            else:
                tol = Fraction(1, 2 * 10 ** 6) + abs(exact) * Fraction(1, 2 ** 52)
                if abs(oval - exact) > tol:
                    ctx.violate('a number with more than six fraction digits is written rounded to six places',
                                w, {'written': out, 'exact': str(exact), 'written_value': str(oval)}, known=kf)
                    continue
            # unit
            zero = oval == 0 and exact == 0
            if zero and lunit in LEN_UNITS:
                want_unit = ''
            else:
                want_unit = lunit
            if ounit != want_unit:
                ctx.violate('the unit is kept (a zero length is written without unit, nothing else loses its unit)',
                            w, {'written': out, 'unit': ounit, 'want': want_unit}, known=kf)
            if many or region:
                continue
            # sign, redundant zeros, canonical form — built independently from the exact value
            if exact == 0:
                want = '0'
            else:
                a = abs(exact)
                n = a.numerator // a.denominator
                frac = a - n
                fdigits = ''
                while frac:
                    frac *= 10
                    d = frac.numerator // frac.denominator
                    fdigits += str(d)
                    frac -= d
                if n == 0 and fdigits and ps.olz:
                    idigits = ''
                else:
                    idigits = str(n)
                want = ('-' if exact < 0 else '+' if sign == '+' else '') + idigits + ('.' + fdigits if fdigits else '')
            if out != want + want_unit:
                ctx.violate('canonical form: sign kept ("+" only when written and non-zero), no redundant zeros, '
                            'leading zero omitted exactly when omitLeadingZero, zero is "0"',
                            w, {'written': out, 'want': want + want_unit})
            # idempotent / stable under reparse with every preference record
            dv2 = DimensionValue(out)
            old = ps.apply(cu)
            try:
                again = dv2.cssText if dv2.wellformed else None
            finally:
                ps.restore(cu, old)
            if again != out:
                ctx.violate('normalisation is idempotent: the written form is written unchanged when parsed again',
                            w, {'written': out, 'again': again})
        # the written forms under different preference records denote the same
        vals = set()
        for ps in prefsets:
            r = read_number(outs[ps.key()])
            if r:
                vals.add((lit_fraction(r[0], r[1], r[2]), r[3]))
        if len(vals) > 1 and not region:
            ctx.violate('every preference setting writes the same number and unit', w0,
                        {'written': {repr(k): v for k, v in outs.items()}})

    # -- the float assumption, validated densely -----------------------------------------------------
    def float_assumption(self, ctx, rng):
        """for <= 6 fraction digits and integer part < 2^33: '%f' % float(lit) == lit padded; for a zero fraction and
        integer part <= 2^53: str(int(float(lit))) == integer part. Exhibits the complement at the boundary."""
        bad = 0
        n = ctx.n(40000, 1500000)
        for i in range(n):
            r = rng.random()
            if r < 0.4:
                ip = rng.randrange(0, TWO33)
            elif r < 0.7:
                ip = TWO33 - 1 - rng.randrange(0, 5000)
            elif r < 0.85:
                ip = rng.randrange(0, 2 ** rng.randint(1, 33))
            else:
                ip = rng.randrange(0, 1000)
            k = rng.randint(1, 6)
            fp = rng.randrange(0, 10 ** k)
            lit = '%d.%0*d' % (ip, k, fp)
            want = '%d.%s' % (ip, ('%0*d' % (k, fp)).ljust(6, '0'))
            if '%f' % float(lit) != want or '%f' % float('-' + lit) != ('-' + want if (ip or fp) else '-' + want):
                bad += 1
                ctx.disagree("assumption '%f' % float(lit) = lit padded (integer part < 2^33, <= 6 fraction digits)",
                             lit, '%f' % float(lit), want)
        for i in range(ctx.n(5000, 200000)):
            ip = rng.choice([rng.randrange(0, TWO53 + 1), TWO53 - rng.randrange(0, 1000)])
            lit = '%d.%s' % (ip, '0' * rng.randint(1, 6))
            f = float(lit)
            if not (f == int(f) and str(int(f)) == str(ip)):
                ctx.disagree('assumption str(int(float(lit))) = integer digits (zero fraction, integer part <= 2^53)',
                             lit, str(int(f)), str(ip))
        ctx.count('float-assumption-samples', n)
        ctx.notes['float_assumption'] = ("'%%f' %% float(lit) == lit padded on %d random literals with integer part < 2^33 "
                                         "(dense below the bound): %d failures" % (n, bad))

    # -- helper functions --------------------------------------------------------------------------
    def gen_content(self, rng):
        alpha = ['a', 'b', 'Z', '0', '9', ' ', '"', "'", '\\', '(', ')', ',', ';', '\n', '\r', '\f', '\t', '\x0b',
                 '\xa0', ' ', '　', 'é', '€', '\U0001F600', '/', '.', '#', '%', '\\"', "\\'", '\\\\', '\\z',
                 '\x00', '\x7f', '\x85', '{', '}', '*', '-']
        return ''.join(rng.choice(alpha) for _ in range(rng.randint(0, 7)))

    def helpers(self, ctx, cu, rng):
        h = cu.helper
        contents = ['', '\\', '"', "'", 'a\\', '\\\\', '""', "''", '"a', 'a"', '("', ' ', '\n']
        for n in range(0, 3):
            for t in itertools.product(['a', '"', "'", '\\', '(', ' ', '\n'], repeat=n):
                contents.append(''.join(t))
        contents += [self.gen_content(rng) for _ in range(ctx.n(3000, 60000))]
        ops = []
        for c in contents:
            ops.append(('string', c))
            ops.append(('uri', c))
            ops.append(('normalize', c))
            ops.append(('stringvalue', c))
            ops.append(('urivalue', c))
            ops.append(('stringvalue', h.string(c)))
            ops.append(('urivalue', h.uri(c)))
            ops.append(('urivalue', 'url( ' + c + ' )'))
        lines = ['%s %s' % (op, enc(c)) for op, c in ops]
        out = ctx.driver(lines) if ctx.model_ok else [None] * len(lines)
        for (op, c), m in zip(ops, out):
            try:
                got = 'OK ' + enc(getattr(h, op)(c))
            except IndexError:
                got = 'ERR IndexError'
            ctx.case(key=(op, c), nontrivial=(got != 'OK ' + enc(c)), kind='helper:' + op,
                     sample={'helper': op, 'arg': c, 'impl': got})
            if m is not None and m != got:
                ctx.disagree('helper.' + op, c, got, m)

    # -- numbers beyond what int()/float() take ------------------------------------------------------
    def too_large(self, ctx, cu):
        import sys
        lim = sys.get_int_max_str_digits()
        items = []
        for n in (lim - 1, lim, lim + 1, lim + 700):
            items.append(('1' * n + 'px', None))
            items.append(('0' * n, None))
            items.append(('-' + '0' * (n - 1) + '7em', None))
        for n in (300, 308, 309, 310, 400):
            items.append(('1' + '0' * n + '.5px', None))
            items.append(('1' + '0' * n + '.0', None))
            items.append(('-9' * 1 + '9' * n + '.9%', None))
        items.append(('179769313486231570814527423731704356798070567525844996598917476803157260780028538760589558632766878171540458953514382464234321326889464182768467546703537516986049910576551282076245490090389328944075868508455133942304583236903222948165808559332123348274797826204144723168738177180919299881250404026184124858368.0px', None))
        items.append(('179769313486231580793728971405303415079934132710037826936173778980444968292764750946649017977587207096330286416692887910946555547851940402630657488671505820681908902000708383676273854845817711531764475730270069855571366959622842914819860834936475292719074168444365510704342711559699508093042880177904174497791.9px', None))
        items.append(('179769313486231580793728971405303415079934132710037826936173778980444968292764750946649017977587207096330286416692887910946555547851940402630657488671505820681908902000708383676273854845817711531764475730270069855571366959622842914819860834936475292719074168444365510704342711559699508093042880177904174497792.0px', None))
        self.number_batch(ctx, cu, items, [DEFAULT, MINI], 'large')

    # -- strings and URLs through the value classes ----------------------------------------------------
    HEXD = '0123456789abcdefABCDEF'
    STR_ALPHA = ['a', 'b', 'z', 'Z', 'f', 'A', '0', '9', ' ', '"', "'", '\\', '(', ')', ',', ';', '\n', '\r', '\f', '\t',
                 'é', '€', '\U0001F600', '/', '.', '#', '%', '{', '}', '*', '-', ':', '~', '!', '@', '\x7f', '\xa0', '\u3000',
                 '\x0b', '\x01', '\x1b', '\x85']

    def render_string(self, rng, content, quote):
        """independent spelling choices for a CSS string with the given content (list of characters)"""
        out = []
        self.last_hexquote_after_bs = False
        self.last_linecont = False
        self.last_simple_dquote = False
        for i, c in enumerate(content):
            nxt = content[i + 1] if i + 1 < len(content) else ''
            r = rng.random()
            must = c in '\n\r\f\\' or c == quote
            if must or r < 0.25:
                k = rng.random()
                if c in '\n\r\f' or c in self.HEXD or k < 0.5:
                    h = '%x' % ord(c)
                    if rng.random() < 0.3:
                        h = h.upper()
                    if rng.random() < 0.3 and len(h) < 6:
                        h = h.rjust(6, '0')
                    # terminator: needed when the escape is shorter than six digits and a hex digit or white space follows
                    if len(h) == 6 and rng.random() < 0.5 and not (nxt and nxt in ' \t\n\r\f'):
                        term = ''
                    elif nxt and (nxt in self.HEXD or nxt in ' \t\n\r\f') or rng.random() < 0.5 or len(h) < 6 and nxt == '':
                        term = rng.choice([' ', ' ', '\n', '\t'])
                    else:
                        term = ''
                    out.append('\\' + h + term)
                    if c == quote and i > 0 and content[i - 1] == '\\':
                        self.last_hexquote_after_bs = True
                else:
                    out.append('\\' + c)          # simple escape
                    if c == '"' and quote != '"':
                        self.last_simple_dquote = True
            else:
                out.append(c)
            if rng.random() < 0.03:
                out.append('\\\n')              # line continuation denotes nothing
                self.last_linecont = True
        return quote + ''.join(out) + quote

    @staticmethod
    def css_string_denote(body):
        """CSS 2.1 string content (between the quotes) -> characters; independent of cssutils and of the model"""
        out, i, n = [], 0, len(body)
        while i < n:
            c = body[i]
            if c != '\\':
                out.append(c)
                i += 1
                continue
            i += 1
            if i >= n:
                out.append('\\')
                break
            c = body[i]
            if c in '0123456789abcdefABCDEF':
                j = i
                while j < n and j - i < 6 and body[j] in '0123456789abcdefABCDEF':
                    j += 1
                out.append(chr(int(body[i:j], 16)))
                if body[j:j + 2] == '\r\n':
                    j += 2
                elif j < n and body[j] in ' \t\n\r\f':
                    j += 1
                i = j
            elif c == '\n' or c == '\f':
                i += 1
            elif c == '\r':
                i += 2 if body[i:i + 2] == '\r\n' else 1
            else:
                out.append(c)
                i += 1
        return ''.join(out)

    @staticmethod
    def stored_denote(r):
        """what a stored value (simple escapes kept, hex escapes resolved) stands for"""
        out, i = [], 0
        while i < len(r):
            if r[i] == '\\' and i + 1 < len(r):
                out.append(r[i + 1])
                i += 2
            else:
                out.append(r[i])
                i += 1
        return ''.join(out)

    @staticmethod
    def has_escaped_dquote(r):
        """region of C18-escaped-dquote: a double quote preceded by an odd number of backslashes"""
        run = 0
        for c in r:
            if c == '\\':
                run += 1
            else:
                if c == '"' and run % 2 == 1:
                    return True
                run = 0
        return False

    def strings(self, ctx, cu, rng):
        from cssutils.css import PropertyValue
        fixed = [['a', '"', 'b'], ['a', "'", 'b'], ['\\'], ['a', '\\'], ['\\', '\\'], ['\n'], ['"'], ["'"], [], ['\\', '"'],
                 ['\\', "'"], ['4', '1'], ['\\', '4', '1'], ['(', ')'], [' ', 'a', ' ']]
        cases = []
        for content in fixed:
            for q in '"\'':
                for _ in range(4):
                    cases.append((content, q))
        for _ in range(ctx.n(4000, 80000)):
            content = [rng.choice(self.STR_ALPHA) for _ in range(rng.randint(0, 6))]
            cases.append((content, rng.choice('"\'')))
        lines, obs_l = [], []
        for content, q in cases:
            src = self.render_string(rng, content, q)
            hexq = self.last_hexquote_after_bs
            want = ''.join(content)
            w0 = {'call': 'PropertyValue(text)', 'text': src}
            if self.css_string_denote(src[1:-1]) != want:
                raise RuntimeError('generator/denotation mismatch on %r' % src)
            pv = PropertyValue(src)
            if not pv.wellformed or pv.length != 1 or pv[0].type != 'STRING':
                ctx.violate('a CSS string is one STRING value', w0, {'wellformed': pv.wellformed, 'length': pv.length})
                continue
            r = pv[0].value
            # regions are decided on the SOURCE spelling, never on what the implementation stored
            kf = 'C18-backslash-then-hex-escape' if hexq else 'C18-escaped-dquote' if self.last_simple_dquote else None
            nontriv = any(c in '"\'\\\n\r\f' or ord(c) > 126 for c in want) or '\\' in src
            ctx.case(key=('str', src), nontrivial=nontriv, kind='string:%s' % ('region' if kf else 'plain' if not nontriv else 'escapes'),
                     sample={'string': src, 'value': r, 'written': pv.cssText})
            if self.stored_denote(r) != want:
                ctx.violate('typed accessor: Value.value of a string stands for the characters written (simple escapes kept)',
                            w0, {'value': r, 'want': want}, known='C18-backslash-then-hex-escape' if hexq else None)
            for ps in (DEFAULT, MINI):
                old = ps.apply(cu)
                try:
                    out = pv.cssText
                finally:
                    ps.restore(cu, old)
                w = dict(w0, prefs=repr(ps), written=out)
                good = len(out) >= 2 and out[0] == '"' and out[-1] == '"' and self.terminates_only_at_end(out)
                if not good or self.css_string_denote(out[1:-1]) != want:
                    ctx.violate('a string is written as a string with exactly the same characters', w, {'want': want}, known=kf)
                    continue
                pv2 = PropertyValue(out)
                ok2 = pv2.wellformed and pv2.length == 1 and pv2[0].type == 'STRING' and pv2[0].value == r
                if ok2:
                    old = ps.apply(cu)
                    try:
                        ok2 = pv2.cssText == out
                    finally:
                        ps.restore(cu, old)
                if not ok2:
                    ctx.violate('the written string parses back to the same value and is written unchanged', w,
                                {'value': r, 'reparsed': pv2[0].value if pv2.length else None}, known=kf)
            self.src_cases.append(('S', src, r))
            # the model on the stored value: Value.cssText = fmtSimple STRING r
            for ps in (DEFAULT, MINI):
                lines.append('simple %s STRING %s' % (ps.proto(), enc(r)))
                old = ps.apply(cu)
                try:
                    obs_l.append((src, r, ps, pv[0].cssText))
                finally:
                    ps.restore(cu, old)
        out = ctx.driver(lines) if ctx.model_ok else []
        for (src, r, ps, txt), m in zip(obs_l, out):
            if m != 'OK ' + enc(txt):
                ctx.disagree('Value(STRING).cssText', {'text': src, 'value': r, 'prefs': repr(ps)}, txt, m)

    # -- order and separators of the components of a property value (T18.5, implementation side) -------
    COMPONENTS = [('10px', '10px'), ('+0.50em', '+0.5em'), ('-0.0pt', '0'), ('0%', '0%'), ('1.10', '1.1'), ('red', 'red'),
                  ('#aabbcc', '#abc'), ('#ABCDEF', '#ABCDEF'), ('"a b"', '"a b"'), ("'x'", '"x"'), ('url(a.png)', 'url(a.png)'),
                  ('rgb(1,2,3)', 'rgb(1, 2, 3)'), ('hsl(0, 0%, 0%)', 'hsl(0, 0%, 0%)'), ('bold', 'bold'), ('Arial', 'Arial'),
                  ('-5', '-5'), ('00.5', '0.5'), ('u+0-7f', 'u+0-7f'), ('inherit', 'inherit'), ('2E3', '2e3')]

    @staticmethod
    def split_top(text):
        """components and separators (' ', ',', '/') at nesting depth 0, outside strings; independent reader"""
        comps, seps, cur, depth, q, i = [], [], '', 0, None, 0
        while i < len(text):
            c = text[i]
            if q:
                cur += c
                if c == '\\':
                    cur += text[i + 1:i + 2]
                    i += 1
                elif c == q:
                    q = None
            elif c in '"\'':
                q = c
                cur += c
            elif c == '(':
                depth += 1
                cur += c
            elif c == ')':
                depth -= 1
                cur += c
            elif depth == 0 and c in ' ,/':
                j = i
                while j < len(text) and text[j] in ' ,/':
                    j += 1
                run = text[i:j].replace(' ', '')
                if len(run) > 1:
                    return None
                comps.append(cur)
                seps.append(run or ' ')
                cur = ''
                i = j
                continue
            else:
                cur += c
            i += 1
        comps.append(cur)
        return comps, seps

    def separators(self, ctx, cu, rng):
        from cssutils.css import PropertyValue
        for _ in range(ctx.n(2500, 40000)):
            n = rng.randint(1, 6)
            parts = [rng.choice(self.COMPONENTS) for _ in range(n)]
            seps = [rng.choice([' ', ' ', ',', '/']) for _ in range(n - 1)]
            src = parts[0][0]
            for sp, pt in zip(seps, parts[1:]):
                src += rng.choice(['', ' ', '  ']) + sp + rng.choice(['', ' ']) + pt[0] if sp != ' ' else rng.choice([' ', '  ', '\t', ' \n ']) + pt[0]
            pv = PropertyValue(src)
            w0 = {'call': 'PropertyValue(text).cssText', 'text': src}
            ctx.case(key=('sep', src), nontrivial=n > 1, kind='separators:%d' % n, sample={'value': src, 'written': pv.cssText})
            if not pv.wellformed or pv.length != n:
                ctx.violate('a list of n components separated by space, comma or slash is a value with n components',
                            w0, {'wellformed': pv.wellformed, 'length': pv.length, 'want': n})
                continue
            for ps in (DEFAULT, MINI):
                old = ps.apply(cu)
                try:
                    out = pv.cssText
                finally:
                    ps.restore(cu, old)
                got = self.split_top(out)
                want_comps = [p_[1] if not ps.olz else p_[1].replace('0.5', '.5') for p_ in parts]
                if ps.lis == '':
                    want_comps = [c.replace(', ', ',') for c in want_comps]
                if got is None or got[1] != seps or got[0] != want_comps:
                    ctx.violate('the components are written in the same order with the same separators (space, comma, slash)',
                                dict(w0, prefs=repr(ps), written=out), {'read_back': repr(got), 'want': repr((want_comps, seps))})

    # -- the tokenizer-side value function (Model/NumTok.lean) against the real tokenizer ---------------
    def token_values(self, ctx, cu):
        """for every generated string / url() source: the token value the tokenizer delivers = tokenValue, and
        Value.value / URIValue.uri = stringSourceValue / uriSourceValue (also inside the known regions: the model mirrors
        the code, findings included)"""
        from cssutils.tokenize2 import Tokenizer
        tk = Tokenizer()
        lines, cases = [], []
        for kind, src, r in self.src_cases:
            toks = list(tk.tokenize(src))
            if len(toks) != 1 or toks[0][0] != ('STRING' if kind == 'S' else 'URI'):
                ctx.count('tokval:not-one-token')
                continue
            lines.append('tokval %s %s' % (kind, enc(src)))
            cases.append(('token value', src, toks[0][1]))
            lines.append('srcvalue %s %s' % (kind, enc(src)))
            cases.append(('Value.value' if kind == 'S' else 'URIValue.uri', src, r))
        out = ctx.driver(lines) if ctx.model_ok else []
        for (what, src, got), m in zip(cases, out):
            ctx.case(key=('tokval', what, src), nontrivial=(got != src), kind='tokval:' + what.split('.')[0].replace(' ', '-'))
            if m != 'OK ' + enc(got):
                ctx.disagree(what + ' of a source string / url()', src, got, dec(m[3:]) if m.startswith('OK ') else m)

    # -- T18.5: order and separators under every spacer preference (values incl. calc()) ---------------
    SPACER_PREFS = ['spacer', 'listItemSpacer', 'propertyNameSpacer', 'paranthesisSpacer', 'selectorCombinatorSpacer',
                    'lineSeparator', 'indent']

    def spacer_records(self):
        """(label, function that changes a fresh default Preferences object)"""
        recs = []
        for name in self.SPACER_PREFS:
            recs.append((name + "=''", lambda p, name=name: setattr(p, name, '')))
        recs.append(("spacer='  '", lambda p: setattr(p, 'spacer', '  ')))
        recs.append(('all spacers empty', lambda p: [setattr(p, n, '') for n in self.SPACER_PREFS]))
        recs.append(('useMinified()', lambda p: p.useMinified()))
        recs.append(("useMinified(), omitLeadingZero=False", lambda p: (p.useMinified(), setattr(p, 'omitLeadingZero', False))))
        return recs

    def gen_calc_operand(self, rng, depth):
        r = rng.random()
        if depth < 2 and r < 0.15:
            return self.gen_calc(rng, depth + 1)
        sign = rng.choice(['', '', '', '-', '-', '+'])
        body = rng.choice(['1', '2', '10', '100', '0', '0.5', '.5', '1.50', '3', '007'])
        unit = rng.choice(['px', 'em', '%', '', '', 'PX', 'rem', 'deg'])
        return sign + body + unit

    def gen_calc(self, rng, depth=0):
        n = rng.randint(1, 4)
        out = self.gen_calc_operand(rng, depth)
        for _ in range(n - 1):
            op = rng.choice('+-*/')
            if op in '+-':
                l, r = rng.choice([' ', '  ', '\t']), rng.choice([' ', '  ', '\n'])
            else:
                l, r = rng.choice(['', ' ', ' ']), rng.choice(['', ' ', ' '])
                if l == '' and r != '' or l != '' and r == '':
                    l = r = ' '
            out += l + op + r + self.gen_calc_operand(rng, depth)
        name = rng.choice(['calc', 'calc', 'CALC', 'Calc'])
        return name + '(' + rng.choice(['', ' ']) + out + rng.choice(['', ' ']) + ')'

    def calc_words(self, calc):
        """the items of CSSCalc.seq in driver notation (nested calc() in brackets); None if an item is not modelled"""
        words = []
        for item in calc.seq:
            t, v = item.type, item.value
            if isinstance(v, str):
                if t == 'FUNCTION':
                    words.append('F:' + enc(v))
                elif t == 'S':
                    words.append('S')
                elif t == 'CHAR' and v == ')':
                    words.append('R')
                elif t == 'CHAR':
                    words.append('O:' + enc(v))
                else:
                    return None
            elif type(v).__name__ == 'CSSCalc':
                inner = self.calc_words(v)
                if inner is None:
                    return None
                words += ['['] + inner + [']']
            elif type(v).__name__ == 'DimensionValue' and v.type in T2 and len(v.seq) == 1:
                words.append(T2[v.type] + ':' + enc(v.seq[0].value))
            else:
                return None
        return words

    def calc_correspondence(self, ctx, cu, rng):
        """CSSCalc.cssText vs the model of do_css_CSSCalc / Out.append(alwaysS=True), under spacer preferences"""
        from cssutils.css import PropertyValue
        texts = ['calc(100% - 10px)', 'calc(1px - -2px)', 'calc(1px*-2)', 'Calc( 1px + calc(2PX*-3) )', 'calc(+.50em/2 - 0px)',
                 'calc(1px)', 'calc( 1px + calc( 2px - calc(3px * 4) ) )']
        texts += [self.gen_calc(rng) for _ in range(ctx.n(1500, 30000))]
        prefsets = [DEFAULT, MINI, PrefSet(False, True, '', ' '), PrefSet(True, True, ' ', ''), PrefSet(False, False, '  ', ' ')]
        lines, cases = [], []
        for t in texts:
            pv = PropertyValue(t)
            if not pv.wellformed or pv.length != 1 or type(pv[0]).__name__ != 'CSSCalc':
                ctx.count('calc:not-one-calc')
                continue
            words = self.calc_words(pv[0])
            if words is None:
                ctx.count('calc:not-modelled')
                continue
            for ps in prefsets:
                lines.append('calc %s %s' % (ps.proto(), ' '.join(words)))
                old = ps.apply(cu)
                try:
                    cases.append((t, ps, pv[0].cssText))
                finally:
                    ps.restore(cu, old)
        out = ctx.driver(lines) if ctx.model_ok else []
        for (t, ps, txt), m in zip(cases, out):
            ctx.case(key=('calc', t, ps.key()), nontrivial=(txt != t), kind='calc:corr',
                     sample={'calc': t, 'prefs': repr(ps), 'impl': txt})
            if m != 'OK ' + enc(txt):
                ctx.disagree('CSSCalc.cssText', {'text': t, 'prefs': repr(ps)}, txt, dec(m[3:]) if m.startswith('OK ') else m)

    # -- T18.5: do_css_PropertyValue / do_css_CSSFunction against the model (Model/NumPV.lean) -------------
    def comp_words(self, v):
        """a component object in the notation of the `pv` driver request; None if it is not modelled"""
        n = type(v).__name__
        if n == 'DimensionValue':
            if v.type in T2 and len(v.seq) == 1 and isinstance(v.seq[0].value, str):
                return [T2[v.type] + ':' + enc(v.seq[0].value)]
            return None
        if n == 'Value':
            k = {'IDENT': 'I', 'STRING': 'T', 'UNICODE-RANGE': 'R'}.get(v.type)
            return None if k is None or not isinstance(v.value, str) else [k + ':' + enc(v.value)]
        if n == 'URIValue':
            return ['U:' + enc(v.uri)]
        if n == 'CSSComment':
            return ['M:' + enc(v.cssText)]
        if n == 'CSSCalc':
            w = self.calc_words(v)
            return None if w is None else ['calc{'] + w + ['}']
        if n == 'ColorValue' and v.colorType in ('HASH', 'IDENT'):
            if len(v.seq) != 1 or not isinstance(v.seq[0].value, str):
                return None
            return [('H:' if v.colorType == 'HASH' else 'K:') + enc(v.seq[0].value)]
        if n == 'CSSFunction' or (n == 'ColorValue' and v.colorType == 'FUNCTION'):
            items = list(v.seq)
            if not items or items[0].type != 'FUNCTION' or not isinstance(items[0].value, str):
                return None
            words = ['F:' + enc(items[0].value)]
            for it in items[1:]:
                if isinstance(it.value, str):
                    if it.type == 'CHAR' and it.value == ',':
                        words.append('C')
                    elif it.type == 'CHAR' and it.value == ')':
                        words.append(')')
                    else:
                        return None
                else:
                    w = self.comp_words(it.value)
                    if w is None:
                        return None
                    words += w
            if words[-1] != ')' or words.count(')') < 1:
                return None
            return words
        return None

    OUT_PUNCT = '+>~,:{;)]/=}[('

    @classmethod
    def plain_word(cls, t):
        """`Plain` of Lemmas/NumPV.lean: the hypothesis of the T18.5 theorems on the text of every leaf"""
        return (any(c not in cls.OUT_PUNCT and not c.isspace() for c in t)
                and not (t.endswith(' ') and not t.endswith('\\ ')) and not t.startswith('*'))

    def leaves_not_plain(self, v):
        """the leaves of a component (its function names and the written texts of its non-function parts, under the
        preferences in force) that are not ordinary words"""
        n = type(v).__name__
        if n == 'CSSFunction' or (n == 'ColorValue' and v.colorType == 'FUNCTION'):
            bad = []
            for i, it in enumerate(v.seq):
                if isinstance(it.value, str):
                    if i == 0 and not self.plain_word(it.value):
                        bad.append(it.value)
                else:
                    bad += self.leaves_not_plain(it.value)
            return bad
        t = v.cssText
        if n == 'CSSComment' and t == '':
            return []           # keepComments off: no item is written (outside the theorems, inside the model)
        return [] if self.plain_word(t) else [t]

    def pv_words(self, pv):
        words = []
        for it in pv.seq:
            if isinstance(it.value, str):
                if it.type != 'operator':
                    return None
                words.append('O:' + enc(it.value))
            else:
                w = self.comp_words(it.value)
                if w is None:
                    return None
                words += w
        return words

    @staticmethod
    def grammar_shaped(words):
        """the hypothesis of the T18.5 theorems: separators only between two components — no comma / slash first, last
        or twice in a row at the top level, no comma first, last or twice in a row inside a function"""
        prev = 'sep'
        depth = 0
        in_calc = False
        for w in words:
            if in_calc:                       # a calc() component: its own grammar (`fmtCalc`)
                if w == '}':
                    in_calc = False
                    prev = 'comp'
                continue
            if w.startswith('O:') or w == 'C':
                if prev in ('sep', 'open') or (w == 'C') != (depth > 0):
                    return False
                prev = 'sep'
            elif w.startswith('F:'):
                depth += 1
                prev = 'open'
            elif w == ')':
                if prev == 'sep' or depth == 0:
                    return False
                depth -= 1
                prev = 'comp'
            elif w == 'calc{':
                in_calc = True
            elif w.startswith('M:'):
                continue
            else:
                prev = 'comp'
        return prev == 'comp' and depth == 0 and not in_calc

    PV_IDENTS = ['a', 'bold', 'Arial', 'inherit', '-x', 'x-y', '_z', 'sans-serif', 'é', 'a\\ ', 'b\\+c', 'none', 'auto']
    PV_STRINGS = ['"a b"', "'x'", '""', "'it\\'s'", '"a,b/c"', '"(x)"', "'\\a '", '"*/"', '"a\\\\"', "'q\\22 '"]
    PV_URLS = ['url(a.png)', 'url( "a b" )', "url('x,y')", 'url()', 'URL(a/b)', 'url("a)b")']
    PV_FNAMES = ['f', 'foo', 'counter', 'attr', 'rect', 'local', 'format', 'F', 'Fn', 'linear-gradient', '-moz-x', 'rotate']

    def gen_pv_comp(self, rng, depth):
        r = rng.random()
        if r < 0.22:
            sign = rng.choice(['', '', '', '-', '+'])
            body = rng.choice(['0', '1', '10', '007', '0.5', '.5', '1.50', '0.0', '12.125', '3', '100', '0.000001'])
            unit = rng.choice(['', '', 'px', 'em', '%', 'PX', 'deg', 's', 'e3', 'pt'])
            return sign + body + unit
        if r < 0.36:
            return rng.choice(self.PV_IDENTS)
        if r < 0.44:
            return rng.choice(['red', 'RED', 'teal', 'transparent', '#abc', '#aabbcc', '#AbCdEf', '#aabbc0', '#FFF'])
        if r < 0.54:
            return rng.choice(self.PV_STRINGS)
        if r < 0.60:
            return rng.choice(self.PV_URLS)
        if r < 0.66:
            return rng.choice(['rgb(1,2,3)', 'rgba( 1 , 2 , 3 , .5 )', 'hsl(120, 50%, 50%)', 'RGB(10%,20%,30%)', 'hsla(0,0%,0%,0.50)'])
        if r < 0.72:
            return rng.choice(['u+0-7f', 'U+26', 'u+4??'])
        if r < 0.80 and depth < 2:
            return self.gen_calc(rng, 1)
        if depth < 3:
            n = rng.choice([0, 1, 1, 2, 2, 3, 4])
            args = ''
            for i in range(n):
                if i:
                    args += rng.choice([' ', '  ', ',', ', ', ' , ', ' ,'])
                args += self.gen_pv_comp(rng, depth + 1)
                if rng.random() < 0.05:
                    args += rng.choice(['/*c*/', ' /* c */ '])
            return rng.choice(self.PV_FNAMES) + '(' + rng.choice(['', ' ']) + args + rng.choice(['', ' ']) + ')'
        return rng.choice(self.PV_IDENTS)

    def gen_pv(self, rng):
        n = rng.choice([1, 2, 2, 3, 3, 4, 5])
        src = self.gen_pv_comp(rng, 0)
        for _ in range(n - 1):
            sp = rng.choice([' ', ' ', ' ', ',', '/'])
            nxt = self.gen_pv_comp(rng, 0)
            if sp == ' ':
                src += rng.choice([' ', '  ', '\t', ' \n ', ' /*c*/ ', '/**/ ']) + nxt
            else:
                src += rng.choice(['', ' ', '  ']) + sp + rng.choice(['', ' ', ' /*c*/']) + nxt
        return src

    OUT_ITEMS = [('CHAR', '/'), ('CHAR', '*'), ('CHAR', '='), ('CHAR', '~'), ('CHAR', '|'), ('CHAR', '^'), ('CHAR', '$'),
                 ('CHAR', ','), ('CHAR', ')'), ('CHAR', '('), ('CHAR', '+'), ('CHAR', '>'), ('CHAR', '-'), ('CHAR', ']'),
                 ('IDENT', 'a'), ('IDENT', '*x'), ('IDENT', 'a\\ '), ('IDENT', 'b '), ('OTHER', '*='), ('OTHER', '1px'),
                 ('OTHER', '*'), ('OTHER', '/'), ('OTHER', '='), ('STRING', 's"t'), ('STRING', ''), ('URI', 'u v'), ('URI', 'w'),
                 ('HASH', '#aabbcc'), ('HASH', '#abcdef'), ('FUNCTION', 'f('), ('S', ' '), ('IDENT', ''), ('OTHER', '\t')]

    def out_append_direct(self, ctx, cu, rng):
        """Out.append / Out.value themselves (serialize.py:188-323) against outAppend / outValue on short item
        sequences, incl. the pairs of d39f9c4 that must not fuse (`/` `*…`, `*` `=`, `~` `=` …), escaped and raw blanks at
        the end of an item, empty strings, S items — the paths of Out.append the value serializers go through"""
        seqs = [[('CHAR', '/'), ('IDENT', '*x')], [('CHAR', '*'), ('CHAR', '=')], [('CHAR', '~'), ('CHAR', '=')],
                [('CHAR', '|'), ('CHAR', '=')], [('CHAR', '^'), ('CHAR', '=')], [('CHAR', '$'), ('CHAR', '=')],
                [('IDENT', 'a'), ('CHAR', '/'), ('OTHER', '*')], [('IDENT', 'a\\ '), ('IDENT', 'b')], [('IDENT', 'b '), ('IDENT', 'c')],
                [('OTHER', '/'), ('OTHER', '*=')], [('CHAR', '/'), ('S', ' '), ('CHAR', '*')]]
        for _ in range(ctx.n(3000, 40000)):
            seqs.append([rng.choice(self.OUT_ITEMS) for _ in range(rng.randint(1, 5))])
        prefsets = [DEFAULT, MINI, PrefSet(False, False, '', ' '), PrefSet(True, True, '  ', '')]
        lines, cases = [], []
        for items in seqs:
            for ps in prefsets:
                old = ps.apply(cu)
                try:
                    out = cu.serialize.Out(cu.ser)
                    for t, v in items:
                        out.append(v, 'X-OTHER' if t == 'OTHER' else t)
                    txt = out.value()
                finally:
                    ps.restore(cu, old)
                lines.append('outseq %s %s' % (ps.proto(), ' '.join('%s:%s' % (t, enc(v)) for t, v in items)))
                cases.append((items, ps, txt))
        out = ctx.driver(lines) if ctx.model_ok else []
        for (items, ps, txt), m in zip(cases, out):
            ctx.case(key=('outseq', repr(items), ps.key()), nontrivial=len(items) > 1, kind='outseq:%d' % len(items),
                     sample={'items': repr(items), 'prefs': repr(ps), 'impl': txt})
            if m != 'OK ' + enc(txt):
                ctx.disagree('Out.append / Out.value', {'items': repr(items), 'prefs': repr(ps)}, txt,
                             dec(m[3:]) if m.startswith('OK ') else m)

    def pv_correspondence(self, ctx, cu, rng):
        """PropertyValue.cssText vs fmtPV (do_css_PropertyValue, do_css_CSSFunction nested to any depth, Out.append with
        the `/`+`*` guard) under spacer / listItemSpacer / omitLeadingZero / minimizeColorHash / keepComments records;
        also checks that every parsed value has the shape the T18.5 theorems quantify over"""
        from cssutils.css import PropertyValue
        texts = ['a', '1px/2px , "x" url(a) f(1,2 3) calc(1px + 2px) #aabbcc red rgb(1,2,3)', 'f()', 'f( )', 'f(g(h(1, 2) 3), "s")',
                 'a/**/b', 'f(/*x*/a)', 'f(a/*x*/b) /*y*/ c', '"a"/"b" , \'c\'', 'a , b', 'a,b', '0.50px -.5em +0.0pt', 'f(0.5,.5)',
                 'foo(1, -2 3)', 'format("woff") , local(x)', 'rect(1px, 2px, 3px, 4px)', 'a\\  b', 'f(a\\ )', 'f(a\\ ,b)', 'u+0-7f, U+26',
                 'counter(x , upper-roman) "." counter( y )', 'f("*/" , url( "*" ))', 'x / 1.0 / y', '-x -1 - y' ]
        texts += [self.gen_pv(rng) for _ in range(ctx.n(2500, 50000))]
        prefsets = [DEFAULT, MINI, PrefSet(False, True, '', ' '), PrefSet(True, True, ' ', ''), PrefSet(False, False, '  ', ' ')]
        lines, cases = [], []
        prefs = cu.ser.prefs
        for t in texts:
            pv = PropertyValue(t)
            if not pv.wellformed:
                ctx.count('pv:malformed')
                continue
            for keep in (True, False):
                prefs.keepComments = keep
                try:
                    if not keep and '/*' not in t:
                        continue
                    words = self.pv_words(pv)
                    if words is None:
                        ctx.count('pv:not-modelled')
                        continue
                    if not self.grammar_shaped(words):
                        ctx.disagree('PropertyValue.seq: separators only between two components (hypothesis of T18.5)',
                                     {'text': t}, ' '.join(words), 'component (separator component)*')
                    for ps in prefsets:
                        lines.append('pv %s %s' % (ps.proto(), ' '.join(words)))
                        old = ps.apply(cu)
                        try:
                            cases.append((t, ps, keep, pv.cssText))
                            bad = [b for it in pv.seq if not isinstance(it.value, str) for b in self.leaves_not_plain(it.value)]
                        finally:
                            ps.restore(cu, old)
                        if bad:
                            ctx.disagree('every leaf of a value is written as an ordinary word (hypothesis `Plain` of T18.5)',
                                         {'text': t, 'prefs': repr(ps)}, bad, 'Plain')
                finally:
                    prefs.keepComments = True
        out = ctx.driver(lines) if ctx.model_ok else []
        for (t, ps, keep, txt), m in zip(cases, out):
            depth = t.count('(')
            ctx.case(key=('pv', t, ps.key(), keep), nontrivial=(txt != t), kind='pv:corr:%s' % ('nested' if depth > 1 else 'func' if depth else 'flat'),
                     sample={'value': t, 'prefs': repr(ps), 'impl': txt})
            if m != 'OK ' + enc(txt):
                ctx.disagree('PropertyValue.cssText', {'text': t, 'prefs': repr(ps), 'keepComments': keep}, txt,
                             dec(m[3:]) if m.startswith('OK ') else m)

    def token_signature(self, text):
        """the non-white-space token sequence of a value text, numbers as exact (value, unit) so that only layout and
        number spelling are abstracted away; None if the text does not tokenize cleanly"""
        from cssutils.tokenize2 import Tokenizer
        sig = []
        for typ, val, _, _ in Tokenizer().tokenize(text):
            if typ == 'S':
                continue
            if typ in T2:
                r = read_number(val)
                if r is None:
                    return None
                v = lit_fraction(r[0], r[1], r[2])
                u = r[3].lower()
                if v == 0 and u in LEN_UNITS:
                    u = ''
                sig.append(('num', v, u))
            elif typ == 'INVALID':
                return None
            elif typ == 'HASH' and len(val) in (4, 7) and all(c in self.HEXD for c in val[1:]):
                b = val[1:].lower()
                sig.append((typ, ''.join(c * 2 for c in b) if len(b) == 3 else b))      # a colour: by its channels
            elif typ in ('FUNCTION', 'IDENT', 'HASH'):
                sig.append((typ, val.lower()))
            elif typ == 'STRING':
                sig.append((typ, self.css_string_denote(val[1:-1])))
            else:
                sig.append((typ, val))
        return sig

    def component_list(self, cu, text):
        """PropertyValue(text) as a list of (class name, text under the default preferences); None if not well-formed"""
        from cssutils.css import PropertyValue
        pv = PropertyValue(text)
        if not pv.wellformed:
            return None
        return [(type(v).__name__, v.cssText) for v in pv]

    def order_and_separators(self, ctx, cu, rng):
        from cssutils.css import PropertyValue
        fixed = ['calc(100% - 10px)', 'calc(1px - -2px)', 'calc(1px + -2px)', 'calc(1px*-2)', 'calc(-1px * -2 - -3px)',
                 'calc(1px + calc(2px - -1px))', 'calc(+1px + +2px)', 'calc(100%/3 - 2*1em - 2*1px)', 'calc(1px - .5px)',
                 '1px calc(2px + 1px)/3 , x', 'calc(0px + 0.0em)', 'a, b c/d', 'rgb(1,2,3) -1px -2px', '1px -1px',
                 'foo(1, -2 3)', '"a" , "b"/"c"', '#aabbcc -0.5em,-.5em', 'calc( 1px - 2px ) calc(3px + -4px)']
        values = list(fixed)
        for _ in range(ctx.n(1200, 25000)):
            n = rng.randint(1, 4)
            parts = []
            for _ in range(n):
                r = rng.random()
                if r < 0.55:
                    parts.append(self.gen_calc(rng))
                elif r < 0.65:
                    parts.append(rng.choice(['-1px', '-.5em', '+2', '-0', '-3%']))
                else:
                    parts.append(rng.choice(self.COMPONENTS)[0])
            src = parts[0]
            for pt in parts[1:]:
                sp = rng.choice([' ', ' ', ',', '/'])
                src += (rng.choice(['', ' ']) + sp + rng.choice(['', ' ']) + pt) if sp != ' ' else rng.choice([' ', '  ']) + pt
            values.append(src)
        recs = self.spacer_records()
        prefs = cu.ser.prefs
        saved = dict(prefs.__dict__)
        try:
            for src in values:
                prefs.__dict__.clear()
                prefs.__dict__.update(saved)
                prefs.useDefaults()
                pv = PropertyValue(src)
                w0 = {'call': 'PropertyValue(text).cssText', 'text': src}
                has_calc = 'calc(' in src.lower()
                if not pv.wellformed:
                    ctx.case(key=('t185', src), nontrivial=False, kind='order:malformed')
                    if src in fixed:
                        ctx.violate('a well-formed value is accepted', w0, {'wellformed': False})
                    continue
                text0 = pv.cssText
                sig_src = self.token_signature(src)
                sig0 = self.token_signature(text0)
                comps0 = self.component_list(cu, text0)
                ctx.case(key=('t185', src), nontrivial=True, kind='order:%s' % ('calc' if has_calc else 'list'),
                         sample={'value': src, 'default': text0})
                if sig0 is None or sig0 != sig_src:
                    ctx.violate('the written value has the same non-white-space token sequence as the source (numbers as '
                                'exact values): components, operators and separators in the same order',
                                dict(w0, prefs='defaults', written=text0), {'source_tokens': repr(sig_src), 'written_tokens': repr(sig0)})
                    continue
                if comps0 is None or len(comps0) != pv.length:
                    ctx.violate('the written value parses back to the same number of components',
                                dict(w0, prefs='defaults', written=text0), {'reparsed': repr(comps0), 'length': pv.length})
                    continue
                for label, change in recs:
                    prefs.useDefaults()
                    change(prefs)
                    try:
                        out = pv.cssText
                    finally:
                        prefs.useDefaults()
                    w = dict(w0, prefs=label, written=out, default=text0)
                    sig = self.token_signature(out)
                    if sig != sig0:
                        ctx.violate('under every spacer preference the written value tokenizes to the same non-white-space '
                                    'token sequence as under the defaults (white space that separates tokens is never dropped)',
                                    w, {'tokens': repr(sig), 'default_tokens': repr(sig0)})
                        break
                    comps = self.component_list(cu, out)
                    if comps != comps0:
                        ctx.violate('under every spacer preference the written value parses back to the same component list',
                                    w, {'components': repr(comps), 'default_components': repr(comps0)})
                        break
        finally:
            prefs.__dict__.clear()
            prefs.__dict__.update(saved)

    # -- URLs ----------------------------------------------------------------------------------------
    def render_url_unquoted(self, rng, content):
        """-> text; sets self.last_hexquote_after_bs and self.last_spell (per character: raw / hex / simple)"""
        out = []
        self.last_hexquote_after_bs = False
        self.last_simple_dquote = False
        self.last_spell = []
        for i, c in enumerate(content):
            nxt = content[i + 1] if i + 1 < len(content) else ''
            raw_ok = ('!' <= c <= '~' and c not in '"\'()\\') or ord(c) > 127
            if not raw_ok or rng.random() < 0.2:
                # `\)` is not usable in an unquoted URL (the tokenizer reads the backslash as a plain character), so
                # a parenthesis is always written as a hex escape
                if c in '\n\r\f)' or c in self.HEXD or rng.random() < 0.5:
                    h = '%x' % ord(c)
                    term = rng.choice([' ', '\t']) if (nxt == '' or nxt in self.HEXD or nxt in ' \t\n\r\f' or rng.random() < 0.5) else ''
                    out.append('\\' + h + term)
                    self.last_spell.append('hex')
                else:
                    out.append('\\' + c)
                    self.last_spell.append('simple')
                    if c == '"':
                        self.last_simple_dquote = True
            else:
                out.append(c)
                self.last_spell.append('raw')
        return ''.join(out)

    def urls(self, ctx, cu, rng):
        from cssutils.css import PropertyValue
        cases = []
        for _ in range(ctx.n(4000, 80000)):
            content = [rng.choice(self.STR_ALPHA) for _ in range(rng.randint(0, 6))]
            cases.append(content)
        lines, obs_l = [], []
        for content in cases:
            style = rng.choice(['u', 'u', '"', "'"])
            want = ''.join(content)
            pad1, pad2 = rng.choice(['', '', ' ', '\t ', '\f', '\r\n']), rng.choice(['', '', ' ', '\n', '\f', ' \r'])
            edge_ws = linecont = False
            if style == 'u':
                inner = self.render_url_unquoted(rng, content)
                sp = self.last_spell
                # CSS white space (what urivalue strips) at the end however spelled, at the start unless
                # written as a simple escape; or the same quote character at both ends, the first written as a hex escape
                css_ws = ' \t\r\n\f'
                edge_ws = bool(want) and (want[-1] in css_ws or (want[0] in css_ws and sp[0] != 'simple')
                                          or (want[0] in '"\'' and want[0] == want[-1] and sp[0] == 'hex'))
            else:
                inner = self.render_string(rng, content, style)
                linecont = self.last_linecont
            hexq = self.last_hexquote_after_bs
            sdq = self.last_simple_dquote
            name = rng.choice(['url', 'url', 'URL', 'Url'])
            src = name + '(' + pad1 + inner + pad2 + ')'
            w0 = {'call': 'PropertyValue(text)', 'text': src}
            pv = PropertyValue(src)
            if not pv.wellformed or pv.length != 1 or pv[0].type != 'URI':
                ctx.violate('a url() is one URI value', w0, {'wellformed': pv.wellformed, 'length': pv.length},
                            known='C18-backslash-then-hex-escape' if hexq else None)
                continue
            r = pv[0].uri
            self.src_cases.append(('U', src, r))
            kf_read = ('C18-backslash-then-hex-escape' if hexq
                       else 'C18-url-edge-escape' if edge_ws else None)
            needs_quotes = any(c in '()\'";,' or c.isspace() or ord(c) < 0x20 or c == '\x7f' for c in want)
            # (the region of the former finding C18-url-trailing-backslash is gone: fixed by 61e31a0)
            kf = kf_read or ('C18-escaped-dquote' if sdq else None)
            ctx.case(key=('url', src), nontrivial=(src != 'url(' + want + ')'),
                     kind='url:%s%s' % ('unquoted' if style == 'u' else 'quoted', ':region' if kf else ''),
                     sample={'url': src, 'uri': r, 'written': pv.cssText})
            if self.stored_denote(r) != want:
                ctx.violate('typed accessor: URIValue.uri stands for the characters written (simple escapes kept)',
                            w0, {'uri': r, 'want': want}, known=kf_read)
            for ps in (DEFAULT, MINI):
                old = ps.apply(cu)
                try:
                    out = pv.cssText
                finally:
                    ps.restore(cu, old)
                w = dict(w0, prefs=repr(ps), written=out)
                got = self.read_url(out)
                if got is None or got != want:
                    ctx.violate('a URL is written as url() with exactly the same characters', w, {'want': want, 'read_back': got},
                                known=kf)
                    continue
                pv2 = PropertyValue(out)
                # the same character content (the property's clause): a stored value that ends in an escaped backslash is read
                # back with the backslash unescaped (`a\\\\` -> `a\\`), which stands for the same characters
                ok2 = pv2.wellformed and pv2.length == 1 and pv2[0].type == 'URI' and \
                    self.stored_denote(pv2[0].uri) == self.stored_denote(r)
                if ok2:
                    old = ps.apply(cu)
                    try:
                        ok2 = pv2.cssText == out
                    finally:
                        ps.restore(cu, old)
                if not ok2:
                    ctx.violate('the written URL parses back to the same value and is written unchanged', w,
                                {'uri': r, 'reparsed': pv2[0].uri if pv2.length and hasattr(pv2[0], 'uri') else None}, known=kf)
                lines.append('simple %s URI %s' % (ps.proto(), enc(r)))
                obs_l.append((src, r, ps, out))
        out = ctx.driver(lines) if ctx.model_ok else []
        for (src, r, ps, txt), m in zip(obs_l, out):
            if m != 'OK ' + enc(txt):
                ctx.disagree('URIValue.cssText', {'text': src, 'uri': r, 'prefs': repr(ps)}, txt, m)

    def read_url(self, out):
        """independent reading of a written url(): the characters it denotes, or None if it is not one URI"""
        if not (out.startswith('url(') and out.endswith(')')):
            return None
        inner = out[4:-1]
        if inner[:1] == '"':
            if len(inner) < 2 or inner[-1] != '"' or not self.terminates_only_at_end(inner):
                return None
            return self.css_string_denote(inner[1:-1])
        # unquoted: no white space, quotes or parentheses unless escaped
        i = 0
        while i < len(inner):
            if inner[i] == '\\':
                i += 2
                continue
            if inner[i] in ' \t\n\r\f"\'()':
                return None
            i += 1
        return self.css_string_denote(inner)

    @staticmethod
    def terminates_only_at_end(out):
        """the closing quote of a double-quoted string is its last character (no earlier unescaped quote, no raw line break)"""
        i, n = 1, len(out)
        while i < n - 1:
            c = out[i]
            if c == '\\':
                i += 2
                continue
            if c == '"' or c in '\n\r\f':
                return False
            i += 1
        return i == n - 1

    # -- colours: shared ---------------------------------------------------------------------------
    def color_obs(self, cu, text, prefsets):
        """ColorValue(text): None when not well-formed, else (channels, {prefs key: cssText})"""
        from cssutils.css import ColorValue
        try:
            cv = ColorValue(text)
        except Exception as e:                      # noqa: BLE001 - reported as the observation
            return ('EXC', type(e).__name__)
        if not cv.wellformed:
            return None
        outs = {}
        for ps in prefsets:
            old = ps.apply(cu)
            try:
                outs[ps.key()] = cv.cssText
            finally:
                ps.restore(cu, old)
        return ((cv.red, cv.green, cv.blue, cv.alpha), outs, cv.colorType)

    @staticmethod
    def chan_eq(impl, model_frac):
        if isinstance(impl, bool):
            return False
        if isinstance(impl, int):
            return Fraction(impl) == model_frac
        if isinstance(impl, float):
            return impl == model_frac.numerator / model_frac.denominator
        return False

    @staticmethod
    def parse_rgba(words):
        return [Fraction(int(w.split('/')[0]), int(w.split('/')[1])) for w in words]

    # -- hash colours ------------------------------------------------------------------------------
    def hashes(self, ctx, cu, rng):
        hexd = '0123456789abcdefABCDEF'
        texts = ['#' + a + b + c for a in hexd for b in hexd for c in hexd]
        n6 = ctx.n(6000, 120000)
        for i in range(n6):
            r = rng.random()
            if r < 0.3:                         # all pairs equal: must shorten
                a, b, c = (rng.choice(hexd) for _ in range(3))
                t = a + a + b + b + c + c
            elif r < 0.5:                       # one pair differs only in case, or in one digit
                a, b, c = (rng.choice(hexd) for _ in range(3))
                pairs = [a + a, b + b, c + c]
                k = rng.randrange(3)
                x = pairs[k][0]
                pairs[k] = x + (x.swapcase() if x.isalpha() and rng.random() < 0.6 else rng.choice(hexd))
                t = ''.join(pairs)
            else:
                t = ''.join(rng.choice(hexd) for _ in range(6))
            texts.append('#' + t)
        # not colours
        for n in (1, 2, 4, 5, 7, 8):
            for _ in range(40):
                texts.append('#' + ''.join(rng.choice(hexd) for _ in range(n)))
        for _ in range(300):
            n = rng.choice([3, 6])
            t = [rng.choice(hexd) for _ in range(n)]
            t[rng.randrange(n)] = rng.choice('gGzZ_-xé')
            texts.append('#' + ''.join(t))
        prefsets = [DEFAULT, PrefSet(False, False, ' ', ' '), MINI]
        lines = []
        for t in texts:
            lines.append('hashchan %s' % enc(t))
            for ps in prefsets:
                lines.append('csimple %s HASH %s' % (ps.proto(), enc(t)))
        out = ctx.driver(lines) if ctx.model_ok else [None] * len(lines)
        li = 0
        for t in texts:
            m = out[li:li + 1 + len(prefsets)]
            li += 1 + len(prefsets)
            obs = self.color_obs(cu, t, prefsets)
            body = t[1:]
            is_col = len(body) in (3, 6) and all(c in hexd for c in body)
            ctx.case(key=('hash', t), nontrivial=is_col, kind='hash:%d' % len(body),
                     sample={'hash': t, 'impl': None if obs is None else obs[1].get(DEFAULT.key()) if len(obs) == 3 else obs})
            # correspondence
            if m[0] is not None:
                if obs is None or (len(obs) == 2 and obs[0] == 'EXC'):
                    got = 'NOMATCH' if obs is None else 'ERR ' + obs[1]
                    if m[0] != got:
                        ctx.disagree('ColorValue(hash) outcome', t, got, m[0])
                elif not m[0].startswith('OK '):
                    ctx.disagree('ColorValue(hash) outcome', t, 'OK', m[0])
                else:
                    ch = self.parse_rgba(m[0].split(' ')[1:5])
                    if not all(self.chan_eq(a, b) for a, b in zip(obs[0], ch)):
                        ctx.disagree('ColorValue(hash) channels', t, repr(obs[0]), m[0])
                    for ps, mm in zip(prefsets, m[1:]):
                        if mm != 'OK ' + enc(obs[1][ps.key()]):
                            ctx.disagree('ColorValue(hash).cssText', {'hash': t, 'prefs': repr(ps)}, obs[1][ps.key()], mm)
            # oracle
            if not is_col:
                if obs is not None:
                    ctx.violate('only #rgb and #rrggbb are hash colours', {'call': 'ColorValue', 'text': t}, repr(obs))
                continue
            if obs is None or len(obs) == 2:
                ctx.violate('every #rgb / #rrggbb is a colour', {'call': 'ColorValue', 'text': t}, repr(obs))
                continue
            want = tuple(int(body[i] * 2, 16) for i in range(3)) if len(body) == 3 else \
                tuple(int(body[i:i + 2], 16) for i in (0, 2, 4))
            if tuple(obs[0][:3]) != want or obs[0][3] != 1:
                ctx.violate('typed accessors: red/green/blue/alpha of a hash colour', {'call': 'ColorValue', 'text': t},
                            {'got': obs[0], 'want': want + (1,)})
            for ps in prefsets:
                w = obs[1][ps.key()]
                wb = w[1:]
                ok_form = w[:1] == '#' and len(wb) in (3, 6) and all(c in hexd for c in wb)
                wch = None
                if ok_form:
                    wch = tuple(int(wb[i] * 2, 16) for i in range(3)) if len(wb) == 3 else \
                        tuple(int(wb[i:i + 2], 16) for i in (0, 2, 4))
                if wch != want:
                    ctx.violate('hash shortening is lossless: the written hash has the same channels',
                                {'call': 'ColorValue(text).cssText', 'text': t, 'prefs': repr(ps)}, {'written': w})
                    continue
                # lossless is what C18 asks for (whether a shortenable hash IS shortened is C06): the written hash is
                # the source hash, or - only with minimizeColorHash - a three-digit form of a six-digit hash
                if w != t and not (ps.mch and len(body) == 6 and len(wb) == 3):
                    ctx.violate('a hash is written as it is, or (only with minimizeColorHash) as the short form of a '
                                'six-digit hash with the same channels',
                                {'call': 'ColorValue(text).cssText', 'text': t, 'prefs': repr(ps)}, {'written': w})

    # -- colour keywords ---------------------------------------------------------------------------
    def keywords(self, ctx, cu, rng):
        from harness.c18_css3colors import table
        spec = table()
        names = sorted(spec)
        texts = []
        for n in names:
            texts += [n, n.upper(), n.title(), ''.join(rng.choice([c.lower(), c.upper()]) for c in n)]
        for n in names:                      # near misses are not colours
            texts += [n + 'x', n[:-1], 'x' + n]
        lines = ['kw %s' % enc(t) for t in texts]
        out = ctx.driver(lines) if ctx.model_ok else [None] * len(lines)
        for t, m in zip(texts, out):
            obs = self.color_obs(cu, t, [DEFAULT])
            is_kw = t.lower() in spec
            ctx.case(key=('kw', t), nontrivial=is_kw, kind='keyword' if is_kw else 'keyword:near-miss',
                     sample={'keyword': t, 'impl': None if obs is None else repr(obs[0])})
            if m is not None:
                if obs is None:
                    if m != 'ERR KeyError':
                        ctx.disagree('ColorValue(keyword) outcome', t, 'not a colour', m)
                elif not m.startswith('OK '):
                    ctx.disagree('ColorValue(keyword) outcome', t, repr(obs[0]), m)
                else:
                    ch = self.parse_rgba(m.split(' ')[1:5])
                    if not all(self.chan_eq(a, b) for a, b in zip(obs[0], ch)):
                        ctx.disagree('ColorValue(keyword) channels', t, repr(obs[0]), m)
            if is_kw:
                want = spec[t.lower()]
                if obs is None or len(obs) == 2 or tuple(obs[0][:3]) != want[:3] or Fraction(obs[0][3]) != Fraction(want[3]):
                    ctx.violate('a colour keyword has the channels of the CSS3 colour table (any letter case)',
                                {'call': 'ColorValue', 'text': t}, {'got': repr(obs and obs[0]), 'want': want})
                elif obs[1][DEFAULT.key()] != t:
                    ctx.violate('a colour keyword is written as it was', {'call': 'ColorValue(text).cssText', 'text': t},
                                {'written': obs[1][DEFAULT.key()]})
            elif obs is not None:
                ctx.violate('only the CSS3 colour keywords are colour keywords', {'call': 'ColorValue', 'text': t}, repr(obs))

    # -- colour functions --------------------------------------------------------------------------
    def gen_num(self, rng, kind):
        """a number literal for a colour argument: (text, is_percentage)"""
        r = rng.random()
        sign = rng.choice(['', '', '', '+', '-'])
        if kind == 'int':
            body = str(rng.choice([0, 1, 127, 128, 254, 255, 256, 300, rng.randrange(0, 256), rng.randrange(0, 400)]))
        elif kind == 'pct':
            body = rng.choice([str(rng.randrange(0, 101)), str(rng.randrange(0, 130)), '%d.%d' % (rng.randrange(0, 101), rng.randrange(0, 10)),
                               '0', '100', '50', '%d.%03d' % (rng.randrange(0, 101), rng.randrange(0, 1000)), '.5', '00.50'])
        elif kind == 'alpha':
            body = rng.choice(['0', '1', '0.5', '.5', '0.3', '0.25', '1.0', '0.0', '0.%d' % rng.randrange(0, 1000), '2', '0.50'])
            sign = rng.choice(['', '', '+', '-']) if r < 0.2 else ''
        else:  # hue
            body = rng.choice([str(rng.randrange(0, 361)), str(rng.randrange(0, 720)), '%d.%d' % (rng.randrange(0, 360), rng.randrange(0, 10)),
                               '0', '60', '120', '180', '240', '300', '360'])
        return sign + body

    def gen_func(self, rng):
        r = rng.random()
        name = rng.choice(['rgb', 'rgb', 'rgba', 'hsl', 'hsl', 'hsla'])
        if name in ('rgb', 'rgba'):
            if rng.random() < 0.5:
                args = [self.gen_num(rng, 'int') for _ in range(3)]
            else:
                args = [self.gen_num(rng, 'pct') + '%' for _ in range(3)]
        else:
            args = [self.gen_num(rng, 'hue'), self.gen_num(rng, 'pct') + '%', self.gen_num(rng, 'pct') + '%']
        if name.endswith('a'):
            args.append(self.gen_num(rng, 'alpha'))
        # malformed variants
        q = rng.random()
        if q < 0.04:
            args = args[:-1]
        elif q < 0.08:
            args.append(self.gen_num(rng, 'int'))
        elif q < 0.12:
            k = rng.randrange(len(args))
            args[k] = args[k].rstrip('%') if args[k].endswith('%') else args[k] + '%'
        elif q < 0.14:
            args[rng.randrange(len(args))] += rng.choice(['px', 'deg', 'e3'])
        elif q < 0.16:
            k = rng.randrange(len(args))
            args[k] = rng.choice(['- ', '+ ']) + args[k].lstrip('+-')
        spelled = ''.join(rng.choice([c.lower(), c.upper()]) for c in name) if rng.random() < 0.3 else name
        seps = [rng.choice([',', ', ', ' , ', ' ', ',  ']) for _ in args[1:]]
        if rng.random() < 0.7:
            seps = [seps[0] if seps else ','] * len(seps)
        body = args[0] + ''.join(s + a for s, a in zip(seps, args[1:]))
        lead = rng.choice(['', '', ' '])
        trail = rng.choice(['', '', ' '])
        close = ')' if rng.random() > 0.02 else ''
        return spelled + '(' + lead + body + trail + close

    def tokens_for_model(self, text):
        from cssutils.tokenize2 import Tokenizer
        words = []
        for typ, val, _, _ in Tokenizer().tokenize(text):
            if typ == 'FUNCTION':
                words.append('F:' + enc(val))
            elif typ == 'NUMBER':
                words.append('N:' + enc(val))
            elif typ == 'PERCENTAGE':
                words.append('P:' + enc(val))
            elif typ == 'S':
                words.append('S')
            elif typ == 'COMMENT':
                words.append('M')
            elif typ == 'CHAR' and val == ',':
                words.append('C')
            elif typ == 'CHAR' and val == ')':
                words.append('R')
            else:
                words.append('O')
        return words

    def colorfuncs(self, ctx, cu, rng):
        texts = ['rgb(1,2,3)', 'RGB( 1 , 2 , 3 )', 'rgba(1,2,3,0.5)', 'rgb(10%,20%,30%)', 'hsl(120, 100%, 50%)',
                 'hsla(120,100%,50%,.3)', 'rgb(1 2 3)', 'rgb(-10%,110%,0.5%)', 'hsl(0,0%,10%)', 'hsl(0,0%,50%)',
                 'Hsl(-120,50%,50%)', 'hsl(480.5,50.5%,20%)', 'rgb(1,2)', 'rgb(1,2,3', 'rgb(', 'rgba(1,2,3,50%)',
                 'rgb(+1,-2,3)', 'rgb(1.5,2,3)', 'rgb(300,2,3)', 'rgb(0.5%,99.9%,100%)', 'rgb(33.333333%, 0%, 0%)']
        texts += [self.gen_func(rng) for _ in range(ctx.n(5000, 100000))]
        # hsl grid (integers): hue x saturation x lightness
        grid = []
        hs = range(0, 361, ctx.n(15, 3))
        ss = range(0, 101, ctx.n(10, 5))
        for h in hs:
            for s_ in ss:
                for l_ in ss:
                    grid.append('hsl(%d,%d%%,%d%%)' % (h, s_, l_))
        texts += grid
        prefsets = [DEFAULT, MINI]
        lines, keep = [], []
        for t in texts:
            words = self.tokens_for_model(t)
            for ps in prefsets:
                lines.append('cfunc %s %s' % (ps.proto(), ' '.join(words)))
            keep.append(t)
        out = ctx.driver(lines) if ctx.model_ok else [None] * len(lines)
        li = 0
        ties = 0
        for t in keep:
            ms = out[li:li + len(prefsets)]
            li += len(prefsets)
            obs = self.color_obs(cu, t, prefsets)
            ok = obs is not None and len(obs) == 3
            ctx.case(key=('cfunc', t), nontrivial=ok, kind='cfunc:' + (t.split('(')[0].lower() if ok else 'malformed'),
                     sample={'colour': t, 'impl': None if not ok else [repr(obs[0]), obs[1][DEFAULT.key()]]})
            for ps, m in zip(prefsets, ms):
                if m is None:
                    continue
                if not ok:
                    got = 'MALFORMED' if obs is None else 'ERR ' + obs[1]
                    if m != got:
                        ctx.disagree('ColorValue(function) outcome', t, got, m)
                    continue
                if not m.startswith('OK '):
                    ctx.disagree('ColorValue(function) outcome', t, repr(obs[0]), m)
                    continue
                w = m.split(' ')
                ch = self.parse_rgba(w[1:5])
                tie = w[5] == '1'
                ties += tie
                for i, (a, b) in enumerate(zip(obs[0], ch)):
                    if self.chan_eq(a, b):
                        continue
                    if tie and i < 3 and isinstance(a, int) and abs(Fraction(a) - b) == 1:
                        ctx.count('hsl-tie-other-neighbour')
                        continue
                    ctx.disagree('ColorValue(function) channels', t, repr(obs[0]), m)
                    break
                if dec(w[6]) != obs[1][ps.key()]:
                    ctx.disagree('ColorValue(function).cssText', {'text': t, 'prefs': repr(ps)}, obs[1][ps.key()], dec(w[6]))
            if ok:
                self.oracle_func(ctx, cu, t, obs, prefsets)
        ctx.notes['hsl_grid'] = '%d grid points, %d replies with an exact tie' % (len(grid), ties)

    ARG_RE = re.compile(r'^\s*([+-]?(?:[0-9]*\.[0-9]+|[0-9]+))(%?)\s*$')

    def split_func(self, text):
        """independent reading of a well-formed colour function: (name, [(Fraction, is_pct)], [separators])"""
        m = re.match(r'^([A-Za-z]+)\((.*)\)\s*$', text, re.S)
        if not m:
            return None
        name, body = m.group(1).lower(), m.group(2)
        parts = re.split(r'(\s*,\s*|\s+)', body.strip())
        args, seps = [], []
        for i, x in enumerate(parts):
            if i % 2:
                seps.append(',' if ',' in x else ' ')
            else:
                a = self.ARG_RE.match(x)
                if not a:
                    return None
                args.append((Fraction(a.group(1)), a.group(2) == '%'))
        return name, args, seps

    @staticmethod
    def css3_hsl(h, s, l):
        """CSS Color 3 section 4.2.4, in exact rationals (independent of colorsys and of the Lean model)"""
        h = (h % 360) / 360
        m2 = l * (s + 1) if l <= Fraction(1, 2) else l + s - l * s
        m1 = l * 2 - m2

        def hue(hh):
            if hh < 0:
                hh += 1
            if hh > 1:
                hh -= 1
            if hh * 6 < 1:
                return m1 + (m2 - m1) * hh * 6
            if hh * 2 < 1:
                return m2
            if hh * 3 < 2:
                return m1 + (m2 - m1) * (Fraction(2, 3) - hh) * 6
            return m1
        return hue(h + Fraction(1, 3)), hue(h), hue(h - Fraction(1, 3))

    def oracle_func(self, ctx, cu, text, obs, prefsets):
        sf = self.split_func(text)
        w0 = {'call': 'ColorValue', 'text': text}
        if sf is None:
            ctx.violate('a colour function has the form name(arg sep arg sep arg [sep arg])', w0, repr(obs[0]))
            return
        name, args, seps = sf
        ch = obs[0]
        if name in ('rgb', 'rgba'):
            want = []
            for v, pct in args[:3]:
                if pct:
                    x = 255 * v / 100
                    want.append(Fraction(math.trunc(x)))
                else:
                    want.append(v)
            for got, w in zip(ch[:3], want):
                if not self.chan_eq(got, w):
                    ctx.violate('typed accessors: rgb() channels are the numbers written (percentages of 255, truncated)',
                                w0, {'got': repr(ch), 'want': [str(x) for x in want]})
                    break
        else:
            r = self.css3_hsl(args[0][0], args[1][0] / 100, args[2][0] / 100)
            for got, x in zip(ch[:3], r):
                if not isinstance(got, int) or abs(Fraction(got) - 255 * x) > Fraction(1, 2):
                    ctx.violate('typed accessors: hsl() channels are the CSS3 conversion rounded to the nearest integer',
                                w0, {'got': repr(ch), 'exact_255': [str(255 * y) for y in r]})
                    break
        wa = args[3][0] if len(args) > 3 else Fraction(1)
        if not self.chan_eq(ch[3], wa):
            ctx.violate('typed accessors: alpha is the number written (1 when absent)', w0, {'got': repr(ch[3]), 'want': str(wa)})
        # serialisation keeps name, arguments (as numbers), separators; and it reparses to the same colour
        for ps in prefsets:
            wtext = obs[1][ps.key()]
            w = dict(w0, prefs=repr(ps), written=wtext)
            sf2 = self.split_func(wtext)
            if sf2 is None or sf2[0] != name or sf2[1] != args or sf2[2] != seps:
                ctx.violate('a colour function is written with the same name, the same arguments (as exact numbers, '
                            'percent signs kept) in the same order and the same separators', w,
                            {'read_back': repr(sf2), 'want': repr((name, args, seps))})
                continue
            obs2 = self.color_obs(cu, wtext, [ps])
            if obs2 is None or len(obs2) == 2 or obs2[0] != ch or obs2[1][ps.key()] != wtext:
                ctx.violate('the written colour function parses to the same channels and is written unchanged', w,
                            {'reparsed': repr(obs2)})

    # ------------------------------------------------------------------------------------------
    def known(self, ctx, finding):
        """replay the witness of a known finding: True while the implementation still shows the recorded behaviour"""
        cssutils_()
        from cssutils.css import PropertyValue, DimensionValue
        w = finding.get('witness', {}).get('data', {})
        text = w.get('text')
        if text is None:
            return True
        if finding['id'] == 'C18-float-digits':
            return DimensionValue(text).cssText == w['written']
        pv = PropertyValue(text)
        ok = True
        if 'written' in w:
            ok = ok and pv.cssText == w['written']
        if 'value' in w:
            ok = ok and pv.length == 1 and pv[0].value == w['value']
        if 'uri' in w:
            ok = ok and pv.length == 1 and getattr(pv[0], 'uri', None) == w['uri']
        return ok

    def replay(self, ctx, data):
        cu = cssutils_()
        self.cu = cu
        w = data.get('witness') or {}
        if 'text' in w and str(w.get('call', '')).startswith('DimensionValue'):
            self.number_batch(ctx, cu, [(w['text'], None)], ALL_PREFS, 'replay')
        else:
            self.run(ctx)


CHECK = C18()
