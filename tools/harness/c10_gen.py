"""C10: generators, the Python reference of the property statement (oracle), helpers. No Lean model in here."""
import collections
import xml.dom

from lib.framework import time_limit

HEX = set('0123456789abcdefABCDEF')


def py_normalize(x):
    """independent rendering of helper.normalize: drop the backslash of simple escapes, lower-case"""
    if not x:
        return x
    out, i = [], 0
    while i < len(x):
        if x[i] == '\\' and i + 1 < len(x) and x[i + 1] not in HEX:
            out.append(x[i + 1])
            i += 2
        else:
            out.append(x[i])
            i += 1
    return ''.join(out).lower()


# ---------------------------------------------------------------------------------------------------
# vocabularies
VALUES_OK = ['red', 'blue', '1px', '0', '#FFF', '#ffffff', 'rgb(1, 2, 3)', 'RGB(1,2,3)', 'url(x.png)', '"s"', "'s'",
             'red /*c*/ blue', '1PX  solid   RED', 'inherit', '1.50em', '+.5em', 'a,b', 'Arial, "Times New", serif',
             'calc(1px + 2px)', 'var(x)', ' red ', '\\72 ed', '-1px', '1px/2px', 'f(1,2)', 'U+0-7F', '0.0', '1e3',
             'x y z', '100%', '€', 'green', 'none', 'auto']
VALUES_BAD = ['}', ' ', '/*x*/', 'red !important', ':', '#12', 'rgb(1,2']
VALUES_ODD = ['red;blue', 'red;']            # accepted, cut at the semicolon
VALUES_TEXT_OK = [v for v in VALUES_OK]      # usable inside a rendered block (no ; ! { })
VALUES_TEXT_BAD = [':', '/*x*/', '#12']
PRIOS_OK = ['', '', '', 'important', '!important', 'IMPORTANT', '!Important', '! important', '!/*c*/important',
            'imp\\ortant', '!imp\\ortant', '!\\69mportant', '!  IMPORTANT ']
PRIOS_BAD = ['foo', '!foo', '!', ' ', ' important', '!important x', '!!important', 'important!', '1', '"important"']
PRIOS_TEXT_OK = ['', '', '', '!important', '! important', '!IMPORTANT', '!/*c*/important', '!imp\\ortant',
                 '!important ']
PRIOS_TEXT_BAD = ['!foo', '!', '!important x']
UNKNOWN_NAMES = ['foo', '-x-y', 'zoom', 'a1', '_u', 'x€y', 'g']
ESC_NAMES = ['a\\\\g', 'x\\\\-y']      # escaped backslash before a non-hex character
UNKNOWN_DOM = ['fooBar', 'font-style', 'zoomLevel', 'colour', 'FontStyle', 'xY']   # no such generated attribute
NAMES_BAD = ['', 'a b', '1a', '"x"', 'a:b', 'a;b', ' ', '/**/', '#a', 'a!']


# serializer preferences read by do_Property / do_css_CSSStyleDeclaration / do_css_CSSVariablesDeclaration / Out
PREF_BOOLS = ['keepAllProperties', 'keepComments', 'omitLastSemicolon', 'defaultPropertyName',
              'defaultPropertyPriority', 'validOnly', 'normalizedVarNames', 'indentClosingBrace']
PREF_STRS = ['lineSeparator', 'propertyNameSpacer', 'spacer', 'listItemSpacer', 'paranthesisSpacer', 'indent']
PREF_DEFAULTS = {'keepAllProperties': True, 'keepComments': True, 'omitLastSemicolon': True,
                 'defaultPropertyName': True, 'defaultPropertyPriority': True, 'validOnly': False,
                 'normalizedVarNames': True, 'indentClosingBrace': True, 'lineSeparator': '\n',
                 'propertyNameSpacer': ' ', 'spacer': ' ', 'listItemSpacer': ' ', 'paranthesisSpacer': ' ',
                 'indent': '    '}
PREF_STR_CHOICES = {'lineSeparator': ['\n', '', ' ', '\n\n', '\r\n'], 'propertyNameSpacer': [' ', '', '  '],
                    'spacer': [' ', ''], 'listItemSpacer': [' ', ''], 'paranthesisSpacer': [' ', ''],
                    'indent': ['    ', '', '\t']}


def gen_prefs(rng, single=False):
    """a setting of the serializer preferences: everything random, or (single) one preference off its default"""
    pf = dict(PREF_DEFAULTS)
    if single:
        k = rng.choice(PREF_BOOLS + PREF_STRS)
        if k in PREF_BOOLS:
            pf[k] = not pf[k]
        else:
            pf[k] = rng.choice([c for c in PREF_STR_CHOICES[k] if c != pf[k]])
        return pf
    for k in PREF_BOOLS:
        p_flip = 0.15 if k == 'validOnly' else 0.4
        if rng.random() < p_flip:
            pf[k] = not pf[k]
    for k in PREF_STRS:
        if rng.random() < 0.4:
            pf[k] = rng.choice(PREF_STR_CHOICES[k])
    return pf


def ends_escaped_blank(t):
    """t ends with a blank that is escaped by an odd run of backslashes"""
    if not t.endswith(' '):
        return False
    body = t[:-1]
    return (len(body) - len(body.rstrip('\\'))) % 2 == 1


def split_block(tokenizer, text):
    """independent splitter of a declaration block text with the real tokenizer: top-level comments, and per
    declaration (IDENT … up to `;`) the texts before the first `:`, between it and the first `!`, and from `!` on.
    Returns the words of the driver's `psrc` reply (`D:name:value:prio`, `M:text`) before encoding."""
    toks = [(t[0], t[1]) for t in tokenizer.tokenize(text)] if text else []
    out, cur = [], None
    for typ, val in toks:
        if cur is None:
            if typ == 'COMMENT':
                out.append(('M', val))
            elif typ == 'S' or (typ == 'CHAR' and val == ';'):
                continue
            else:
                cur = {'f': 0, 'parts': ['', '', '']}
                cur['parts'][0] += val
            continue
        if typ == 'CHAR' and val == ';':
            out.append(('D',) + tuple(cur['parts']))
            cur = None
        elif cur['f'] == 0 and typ == 'CHAR' and val == ':':
            cur['f'] = 1
        elif cur['f'] == 1 and typ == 'CHAR' and val == '!':
            cur['f'] = 2
            cur['parts'][2] += val
        else:
            cur['parts'][cur['f']] += val
    if cur is not None:
        out.append(('D',) + tuple(cur['parts']))
    return out


def strip_ws(t):
    return ''.join(c for c in t if not c.isspace())


def ref_property(p, pf):
    """reference text of a property under the preferences pf (called while they are in force): name parts, `:`,
    propertyNameSpacer, value text, and ` ` + priority parts"""
    nameseq, value, prioseq = p.seqs
    if not nameseq or not p.wellformed or (pf['validOnly'] and not p.valid):
        return ''

    def comment(c):
        return c.cssText

    out = []
    for part in nameseq:
        if hasattr(part, 'cssText'):
            out.append(comment(part))
        elif part == p.literalname and pf['defaultPropertyName'] and not pf['keepAllProperties']:
            out.append(p.name)
        else:
            out.append(part)
    out.append(':' + pf['propertyNameSpacer'] + value.cssText)
    if prioseq:
        out.append(' ')
        for part in prioseq:
            if hasattr(part, 'cssText'):
                out.append(comment(part))
            elif part == p.literalpriority and pf['defaultPropertyPriority']:
                out.append(p.priority)
            else:
                out.append(part)
    return ''.join(out)


def respell(rng, name, allow_hex=True, allow_pad=False):
    """another spelling of the same identifier: case, simple escapes, hex escapes (, padding)"""
    out = []
    for i, c in enumerate(name):
        r = rng.random()
        if c.isascii() and c.isalpha() and r < 0.25:
            c = c.upper()
        if c.isascii() and c.isalpha() and c not in HEX and rng.random() < 0.12:
            out.append('\\' + c)
        elif allow_hex and c.isascii() and c.isalnum() and rng.random() < 0.05 and (i > 0 or c.isalpha()):
            out.append(rng.choice(['\\%x ', '\\%06x', '\\%X ']) % ord(c))
        else:
            out.append(c)
    s = ''.join(out)
    if allow_pad and rng.random() < 0.5:
        s = rng.choice([' ', '']) + s + rng.choice([' ', '/**/', '/*c*/ ', ' '])
    return s


def requote(k):
    """a literal spelling of the normalised name k: normalize(requote(k)) == k (every backslash doubled)"""
    return k.replace('\\', '\\\\')


def camel(name):
    """the DOM (camel-case) name of a CSS property name, written independently of cssproperties._toDOMname"""
    parts = name.split('-')
    return parts[0] + ''.join(p[:1].upper() + p[1:] for p in parts[1:])


def random_name(rng):
    k = rng.randint(0, 12)
    alpha = rng.choice(['abcxyz-', 'abXYZ-', 'aAbB-', 'abcABC-_19', 'ab-€Z'])
    return ''.join(rng.choice(alpha) for _ in range(k))


# ---------------------------------------------------------------------------------------------------
# declaration op sequences
def gen_decl_ops(rng, names):
    from cssutils.css.cssproperties import _toDOMname
    base = rng.sample(names, rng.choice([2, 3, 3])) + [rng.choice(UNKNOWN_NAMES)]
    if rng.random() < 0.5:
        base.append('color')
    if rng.random() < 0.10:
        base.append(rng.choice(ESC_NAMES))      # normalised name is not a fixpoint of normalize (fixed finding)

    def nm(p_bad=0.04, p_pad=0.05):
        if rng.random() < p_bad:
            return rng.choice(NAMES_BAD)
        b = rng.choice(base)
        r = rng.random()
        if r < 0.45:
            return b
        return respell(rng, b, allow_pad=rng.random() < p_pad)

    def val():
        r = rng.random()
        if r < 0.82:
            return rng.choice(VALUES_OK)
        if r < 0.90:
            return rng.choice(VALUES_BAD)
        if r < 0.93:
            return rng.choice(VALUES_ODD)
        if r < 0.97:
            return ''
        return None

    def prio():
        return rng.choice(PRIOS_OK) if rng.random() < 0.9 else rng.choice(PRIOS_BAD)

    def text_items():
        items = []
        for _ in range(rng.randint(0, 6)):
            r = rng.random()
            if r < 0.75:
                b = rng.choice(base)
                n = respell(rng, b) + rng.choice(['', '', ' ', '/*n*/', ' /*n*/ '])
                v = rng.choice(['', ' ', '  ']) + (rng.choice(VALUES_TEXT_OK) if rng.random() < 0.93
                                                    else rng.choice(VALUES_TEXT_BAD)) + rng.choice(['', ' '])
                p = rng.choice(PRIOS_TEXT_OK) if rng.random() < 0.93 else rng.choice(PRIOS_TEXT_BAD)
                items.append(('D', n, v, p))
            elif r < 0.9:
                items.append(('M', rng.choice(['/**/', '/*c*/', '/* a: b; */', '/*\n*/'])))
            else:
                items.append(('S',))
        return items

    ops = []
    if rng.random() < 0.6:
        ops.append(('text', text_items()))
    for _ in range(rng.randint(3, 13)):
        r = rng.random()
        if r < 0.40:
            norm = 0 if rng.random() < 0.15 else 1
            repl = 0 if rng.random() < 0.2 else 1
            ops.append(('set', nm(), val(), prio(), norm, repl))
        elif r < 0.50:
            p = None if rng.random() < 0.5 else prio()
            ops.append(('seti', nm(), val(), p))
        elif r < 0.58:
            b = rng.choice([x for x in base if x in names] or ['color'])
            if rng.random() < 0.12:
                # not the DOM name of a known property: AttributeError, the block stays as it is
                ops.append(('attrset', rng.choice(UNKNOWN_DOM), '', val()))
            else:
                ops.append(('attrset', _toDOMname(b), b, val()))
        elif r < 0.72:
            ops.append(('rm', nm(), 0 if rng.random() < 0.2 else 1))
        elif r < 0.77:
            ops.append(('deli', nm()))
        elif r < 0.81:
            b = rng.choice([x for x in base if x in names] or ['color'])
            if rng.random() < 0.12:
                ops.append(('attrdel', rng.choice(UNKNOWN_DOM), ''))
            else:
                ops.append(('attrdel', _toDOMname(b), b))
        elif r < 0.89:
            ops.append(('text', text_items()))
        elif r < 0.96:
            ops.append(('mode', rng.choice([0, 0, 1])))
        else:
            ops.append(('ro', rng.choice([0, 1])))
            ops.append(('set', nm(), val(), prio(), 1, 1))
            ops.append(('rm', nm(), 1))
            ops.append(('ro', 0))
    return ops


def render_items(items):
    out = []
    for it in items:
        if it[0] == 'D':
            out.append('%s:%s%s;' % (it[1], it[2], it[3]))
        elif it[0] == 'M':
            out.append(it[1])
        else:
            out.append(';')
    return ' '.join(out)


def queries_for(op, rng):
    from cssutils.css.cssproperties import _toDOMname
    k = op[0]
    if k in ('mode', 'ro'):
        return []
    if k == 'text':
        ns = [it[1] for it in op[1] if it[0] == 'D'][:2]
        qs = [('gps', '', 1), ('gps', '', 0)]
        for n in ns:
            qs.append(('gv', n, 1))
        return qs
    name = op[2] if k in ('attrset', 'attrdel') else op[1]
    alt = respell(rng, py_normalize(name), allow_hex=False) if name else name
    qs = [('gp', name, 1), ('gv', alt, 1), ('gpr', alt, 1), ('has', alt)]
    r = rng.random()
    if r < 0.5:
        qs += [('gp', name, 0), ('gv', alt, 0), ('gpr', name, 0)]
    if r < 0.3 or r > 0.8:
        qs += [('gps', name, 1), ('gps', alt, 0), ('gps', '', 1)]
    if k in ('attrset', 'attrdel'):
        qs.append(('attrget', op[1], op[2]))
    return qs


def show_ops(ops):
    def j(x):
        if isinstance(x, (tuple, list)):
            return [j(y) for y in x]
        return x
    return j(ops)


def ops_from_json(ops):
    out = []
    for op in ops:
        op = list(op)
        if op[0] == 'text':
            out.append(('text', [tuple(it) for it in op[1]]))
        elif op[0] == 'vtext':
            out.append(('vtext', [tuple(it) for it in op[1]]))
        else:
            out.append(tuple(op))
    return out


def explain(exp, m):
    if exp is None or m is None:
        return exp, m
    a, b = exp.split(' | '), m.split(' | ')
    for x, y in zip(a, b):
        if x != y:
            return x[:1500], y[:1500]
    return exp[:1500], m[:1500]


def nontrivial_decl(ops, style, spec):
    return spec.stats.get('update', 0) + spec.stats.get('remove-present', 0) + spec.stats.get('rejected', 0) > 0 \
        or spec.has_duplicates()


# ---------------------------------------------------------------------------------------------------
# the property statement as a Python reference (independent of the Lean model)
Entry = collections.namedtuple('Entry', 'lit nname css value prio')


def lastocc(names):
    out = []
    for i, n in enumerate(names):
        if n not in names[i + 1:]:
            out.append(n)
    return out


class Spec:
    """ordered list of (literal name, value, priority) entries with the cascade rule, run in lock-step with the
    implementation; every deviation of the implementation is reported as a violation of the named clause"""

    def __init__(self, cu, ctx, ops):
        self.cu, self.ctx, self.ops = cu, ctx, ops
        self.entries = []
        self.raising = True
        self.readonly = False
        self.stats = collections.Counter()
        self.dead = False
        self.done = []

    # -- spec functions
    def eff_idx(self, key, lit=None):
        """last important entry with that (normalised or literal) name, else last entry"""
        last = imp = None
        for i, e in enumerate(self.entries):
            if (e.nname == key) if lit is None else (e.lit == lit):
                last = i
                if e.prio:
                    imp = i
        return imp if imp is not None else last

    def has_duplicates(self):
        ns = [e.nname for e in self.entries]
        return len(set(ns)) != len(ns)

    def fresh(self, name, value, prio):
        """the entry a stand-alone Property(name, value, priority) denotes, or None (rejected)"""
        from cssutils.css import Property
        old = self.cu.log.raiseExceptions
        self.cu.log.raiseExceptions = self.raising
        try:
            with time_limit(20):
                p = Property(name, value, prio if prio is not None else '')
            if not p.wellformed:
                return None
            return Entry(p.literalname, p.name, p.propertyValue.cssText, p.value, p.priority)
        except xml.dom.DOMException:
            return None
        finally:
            self.cu.log.raiseExceptions = old

    def fail(self, clause, detail, known=None):
        self.ctx.violate(clause, {'ops': show_ops(self.done)}, detail, known=known)
        self.dead = True

    def proj(self, style):
        return [Entry(p.literalname, p.name, p.propertyValue.cssText, p.value, p.priority)
                for p in style.getProperties(all=True)]

    # -- one step
    def after(self, style, op, r, session):
        self.done.append(op)
        if self.dead:
            return
        k = op[0]
        before = list(self.entries)
        want = None            # expected reply; None = not checked
        if k in ('attrset', 'attrdel') and not op[2]:
            # not the DOM name of a known property: AttributeError, nothing changes
            want = 'err crash:AttributeError'
            self.stats['rejected'] += 1
        elif k in ('set', 'seti', 'attrset'):
            if k == 'set':
                _, name, value, prio, norm, repl = op
            elif k == 'seti':
                name, value, prio, norm, repl = op[1], op[2], op[3], 1, 1
            else:
                name, value, prio, norm, repl = op[2], op[3], '', 1, 1
            want = self.do_set(style, name, value, prio, norm, repl)
            if k == 'attrset' and want is not None and want.startswith('ok'):
                want = 'ok None'
        elif k in ('rm', 'deli', 'attrdel'):
            name = op[2] if k == 'attrdel' else op[1]
            norm = op[2] if k == 'rm' else 1
            want = self.do_remove(name, norm)
            if k == 'attrdel' and want.startswith('ok'):
                want = 'ok None'
        elif k == 'text':
            want = self.do_text(op[1])
        if self.dead:
            return
        if want is not None and want != r:
            return self.fail('outcome of the operation (return value / exception class)',
                             {'op': show_ops([op])[0], 'impl': r, 'spec': want})
        got = self.proj(style)
        if got != self.entries:
            return self.fail('the block is the ordered entry list the operation history denotes',
                             {'op': show_ops([op])[0], 'impl': [tuple(e) for e in got],
                              'spec': [tuple(e) for e in self.entries], 'before': [tuple(e) for e in before]})
        self.check_observers(style, op)

    def do_set(self, style, name, value, prio, norm, repl):
        from lib.framework import enc
        if self.readonly:
            self.stats['rejected'] += 1
            return 'err NoModificationAllowedErr'
        if not value:
            return self.do_remove(name, 1)
        new = self.fresh(name, value, prio)
        if new is None:
            self.stats['rejected'] += 1
            return 'err SyntaxErr' if self.raising else 'ok None'
        key = py_normalize(name)
        idx = None
        if repl:
            if norm:
                idx = self.eff_idx(key)
            else:
                # normalize=False: the code updates the LAST entry with that literal name (not the effective one for
                # the literal name); the property statement does not cover this flag, the oracle accepts either
                cands = [i for i, e in enumerate(self.entries) if e.lit == name]
                if cands:
                    now = self.proj(style)
                    changed = [i for i in cands if i < len(now) and now[i] != self.entries[i]]
                    idx = changed[0] if len(changed) == 1 else cands[-1]
                    if idx != self.eff_idx(None, lit=name):
                        self.stats['nonnormalized-update-not-effective'] += 1
        if idx is not None:
            e = self.entries[idx]
            np = new.prio
            if np not in ('', 'important'):
                # log mode only: a priority such as 'foo' is kept on a new property but cannot be re-assigned to an
                # existing one; tolerated (not part of the property)
                now = self.proj(style)
                np = now[idx].prio if idx < len(now) else np
                self.stats['tolerated-odd-priority'] += 1
            self.entries[idx] = Entry(e.lit, e.nname, new.css, new.value, np)
            self.stats['update'] += 1
        else:
            self.entries.append(new)
            self.stats['append'] += 1
        return 'ok None'

    def do_remove(self, name, norm):
        from lib.framework import enc
        if self.readonly:
            self.stats['rejected'] += 1
            return 'err NoModificationAllowedErr'
        if norm:
            key = py_normalize(name)
            i = self.eff_idx(key)
            ret = self.entries[i].value if i is not None else ''
            n0 = len(self.entries)
            self.entries = [e for e in self.entries if e.nname != key]
        else:
            i = self.eff_idx(None, lit=name)
            ret = self.entries[i].value if i is not None else ''
            n0 = len(self.entries)
            self.entries = [e for e in self.entries if e.lit != name]
        self.stats['remove-present' if len(self.entries) != n0 else 'remove-absent'] += 1
        return 'ok s:' + enc(ret)

    def do_text(self, items):
        if self.readonly:
            self.stats['rejected'] += 1
            return 'err NoModificationAllowedErr'
        new = []
        for it in items:
            if it[0] != 'D':
                continue
            e = self.fresh(it[1], it[2], it[3])
            if e is None:
                if self.raising:
                    self.stats['rejected'] += 1
                    return 'err SyntaxErr'
                continue
            new.append(e)
        self.entries = new
        self.stats['text'] += 1
        return 'ok None'

    def check_observers(self, style, op):
        es = self.entries
        names = lastocc([e.nname for e in es])
        w = {'op': show_ops([op])[0]}

        if style.keys() != names:
            return self.fail('keys() enumerates the distinct normalised names, ordered by last occurrence',
                             dict(w, impl=style.keys(), spec=names))
        n = len(names)
        if style.length != n or len(style.keys()) != n:
            return self.fail('length counts the distinct normalised names', dict(w, impl=style.length, spec=n))
        for i in range(-(n + 2), n + 3):
            want = names[i] if -n <= i < n else ''
            if style.item(i) != want:
                return self.fail('item(i) indexes the distinct names', dict(w, i=i, impl=style.item(i), spec=want))
        allp = style.getProperties(all=True)
        it = list(style)
        if any(p is None for p in it) or any(p is None for p in style.getProperties()):
            return self.fail('iteration and getProperties() yield a property (never None) for every listed name',
                             dict(w, names=names, iteration=[None if p is None else p.name for p in it],
                                  getProperties=[None if p is None else p.name for p in style.getProperties()]))
        if [p.name for p in it] != names:
            return self.fail('iteration yields one property per distinct name', dict(w, impl=[p.name for p in it]))
        effl = style.getProperties()
        for j, nme in enumerate(names):
            i = self.eff_idx(nme)
            e = es[i]
            q = requote(nme)        # a literal spelling of the listed (normalised) name
            if it[j] is not allp[i] or effl[j] is not allp[i] or style.getProperty(q) is not allp[i]:
                return self.fail('the effective property of a name is the last !important entry, else the last entry',
                                 dict(w, name=nme, spec_index=i,
                                      impl_index=[k for k, p in enumerate(allp) if p is style.getProperty(q)]))
            for sp in (q, q.upper(), '\\' + q if q[:1] and q[0] not in HEX and q[0] != '\\' else q):
                if style.getPropertyValue(sp) != e.value or style.getPropertyPriority(sp) != e.prio \
                        or style[sp] != e.value or sp not in style:
                    return self.fail('value / priority / membership by any spelling of the name',
                                     dict(w, spelling=sp, impl=[style.getPropertyValue(sp), style.getPropertyPriority(sp),
                                                                sp in style], spec=[e.value, e.prio, True]))
            one = style.getProperties(q, all=True)
            if [p for p in allp if p.name == nme] != one:
                return self.fail('getProperties(name, all=True) lists every entry of the name in order', dict(w, name=nme))
        for absent in ('no-such-name', 'x' + (names[0] if names else 'y')):
            if absent in names:
                continue
            if style.getPropertyValue(absent) != '' or style.getPropertyPriority(absent) != '' or absent in style \
                    or style.getProperty(absent) is not None or style.getProperties(absent) != []:
                return self.fail('a name without entries has no value, no priority and is not a member',
                                 dict(w, name=absent))
        # text round trip: replacing the text by the block's own text denotes the same entries
        if all(e.prio in ('', 'important') for e in es) and all(p.wellformed for p in allp):
            from cssutils.css import CSSStyleDeclaration
            old = self.cu.log.raiseExceptions
            self.cu.log.raiseExceptions = False
            try:
                with time_limit(20):
                    back = CSSStyleDeclaration(cssText=style.cssText)
                got = self.proj(back)
            finally:
                self.cu.log.raiseExceptions = old
            if got != es:
                kn = None
                return self.fail('cssText lists every entry: assigning it to a new block denotes the same entries',
                                 dict(w, text=style.cssText, impl=[tuple(e) for e in got], spec=[tuple(e) for e in es]),
                                 known=kn)


# ---------------------------------------------------------------------------------------------------
# variables
VAR_NAMES = ['x', 'y', 'main-color', 'Gap', 'z9', '_k']
VAR_VALUES = ['1', 'red', '1px solid', '"s"', 'rgb(1,2,3)', 'a /*k*/ b', '#ffffff', '0.50em', 'url(u)']
VAR_VALUES_BAD = ['}', '', ' ', ':', '1;2 x:']


VAR_VALUES_ESCBLANK = ['a\\ ', '1 a\\ ']      # end in an escaped blank: only inside a block text, before `;`


def value_via_block(cu, value):
    """(cssText, value) of the PropertyValue the block parser builds for `q: value;` (token path)"""
    from cssutils.css import CSSVariablesDeclaration
    old = cu.log.raiseExceptions
    cu.log.raiseExceptions = False
    try:
        d = CSSVariablesDeclaration(cssText='q: %s;' % value)
    finally:
        cu.log.raiseExceptions = old
    pv = [it.value[1] for it in d.seq if it.type == 'var'][0]
    return (pv.cssText, pv.value)


def gen_var_ops(rng):
    base = rng.sample(VAR_NAMES, 3)

    def nm(p_odd=0.08):
        r = rng.random()
        if r < p_odd:
            return rng.choice([' x', 'x/**/', 'a b', '1k', '', '\\78 ', 'x '])
        if r < p_odd + 0.04:
            return rng.choice(ESC_NAMES)
        b = rng.choice(base)
        return b if rng.random() < 0.4 else respell(rng, b, allow_hex=False)

    def items():
        out = []
        for _ in range(rng.randint(0, 5)):
            if rng.random() < 0.2:
                out.append(('O', rng.choice(['/**/', '/*c*/'])))
            b = rng.choice(base)
            out.append(('V', respell(rng, b, allow_hex=rng.random() < 0.3),
                        rng.choice(VAR_VALUES_ESCBLANK) if rng.random() < 0.08 else rng.choice(VAR_VALUES)))
        return out

    ops = []
    if rng.random() < 0.6:
        ops.append(('vtext', items()))
    for _ in range(rng.randint(2, 10)):
        r = rng.random()
        if r < 0.40:
            v = rng.choice(VAR_VALUES) if rng.random() < 0.9 else rng.choice(VAR_VALUES_BAD)
            ops.append((rng.choice(['vset', 'vset', 'vseti']), nm(), v))
        elif r < 0.70:
            ops.append((rng.choice(['vrm', 'vrm', 'vdeli']), nm()))
        elif r < 0.85:
            ops.append(('vtext', items()))
        elif r < 0.95:
            ops.append(('mode', rng.choice([0, 1])))
        else:
            ops.append(('ro', rng.choice([0, 1])))
    return ops


def render_vitems(items):
    """`name:value;` per variable; comments only in front of a declaration (the grammar rejects a trailing one)"""
    out = []
    for it in items:
        if it[0] == 'V':
            out.append('%s: %s;' % (it[1], it[2]))
        else:
            out.append(it[1])
    if out and items[-1][0] != 'V':
        out.pop()
    return ' '.join(out)


def var_probe_names(op):
    if op[0] in ('vset', 'vseti', 'vrm', 'vdeli'):
        n = op[1]
        return [n, n.upper()]
    if op[0] == 'vtext':
        return [it[1] for it in op[1] if it[0] == 'V'][:2]
    return []


def bare_ident(front, k):
    return front.tok(k) == [('IDENT', k)] if k else False


def nontrivial_vars(ops):
    return sum(1 for o in ops if o[0] in ('vset', 'vseti', 'vrm', 'vdeli', 'vtext')) >= 3


def strip_comments(t):
    import re
    return ' '.join(re.sub(r'/\*.*?\*/', ' ', t, flags=re.S).split())


def list_variables(text):
    """independent reading of a serialised variables block: `name: value` chunks between semicolons, comments
    dropped (the generated values contain no semicolon); names are not trimmed beyond the layout white space the
    serializer itself adds after a line break"""
    import re
    out = []
    for chunk in re.sub(r'/\*.*?\*/', ' ', text, flags=re.S).split(';'):
        if not chunk.strip():
            continue
        name, _, value = chunk.partition(':')
        # the serializer separates items by "\n" (and pads comments with blanks): strip that layout only
        name = re.sub(r'^[ ]*\n[ \n]*', '', name) if '\n' in name else name
        out.append((name.lstrip('\n'), ' '.join(value.split())))
    return out
