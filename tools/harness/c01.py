"""C01 — parsing any input returns a DOM: never raises, never hangs; the result serialises and reparses.

Lean side (Props/C01.lean): serializer cost model (visits linear in the value tree; the double evaluation of the
pinned tree is exhibited as 2^depth and excluded), plus the totality theorems re-exported from the tokenizer /
structure kernels as they are merged. Tie: counted `do_css_*` calls of the real serializer on generated value trees
vs the model's visit count (driver), see corr_sercost.

Oracle (implementation): parseString / parseStyle under a HARD per-case time limit in worker processes, all
parser options, several fetchers (content / None / (None, None) / cyclic graphs), then cssText, reparse, cssText.
Streams: malformed (token soup + mutated templates), insertion sweep (fragment x position x truncation),
depth sweep 1..100, width sweep with a measured scaling exponent, bytes with BOM / @charset.
"""
import json
import math
import time

from lib.framework import Check, enc
from lib.pool import run_cases
from harness import c01_gen as G
from harness import c01_kernels as KN

TIME_LIMIT = 20.0          # hard limit per small case (hang detection)


def _ebcdic_charset(case, what):
    """region of known finding C01-nonascii-compatible-charset"""
    import re
    text = case['text']
    if not isinstance(text, str):
        return False
    m = re.match(r'@charset "([^"]*)";', text)
    if not m:
        return False
    name = m.group(1)
    try:
        if name.lower().replace('_', '-').startswith(('utf-16', 'utf-32')):
            return False
        return '@charset "'.encode(name) != b'@charset "'
    except (LookupError, ValueError):
        return False


KNOWN = {'C01-nonascii-compatible-charset': _ebcdic_charset}


KERNEL_CORPUS = [
    '', 'a{b:c}', '@media screen, print{a{b:c}} a|b, *.c:hover > d[e="f"]{x:y;z:w}',
    '@namespace p "u";p|a, *|b, |c, p|*{x:y}', 'a:not(.b):nth-child(2n+1)::after{x:y}', '@media \\28 {a{b:c}}',
    '@media (color: rgb(1,2,3)){a{b:c}}', '@media screen and (min-width:1px), print and{a{b:c}}',
    'a\\7C b|c{x:y}', '*|*|*{x:y}', 'a||b{x:y}', '"s"{x:y}', ':nth-child(+ 2n - 1){x:y}', 'a + > b{x:y}',
    '@media{a{b:c}}', '@media screen{@media print{a{b:c}}}', 'a{b:c', '@media screen{a{b:c}', 'a,{b:c}', ',a{b:c}',
    '@import "x" screen, (color);', 'z{y:x}a|/**/ b, c{b:c}w{v:u}', '@namespace p "u";p|/**/a{b:c}', '@media screen /*c*/ , /*d*/ print{a{b:c}}', '@media all and (color:#fff){}',
]

MEDIA_WORDS = ['screen', 'print', 'all', 'ALL', 'only', 'not', 'and', 'AND', 'tv', 'x', '(', ')', ':', ',', ', ', ' ',
               'color', 'min-width', '1px', '2', '50%', '#fff', '#ffff', 'rgb(1,2,3)', '"s"', '/*c*/', 'U+1-f', '\\28 ', '\\2c ',
               's\\63reen', '-', '+', '}', ';', '@x', 'url(x)', 'f(', '!']


def KN_media(rng):
    if rng.random() < 0.5:
        qs = []
        for _ in range(rng.randint(1, 3)):
            q = rng.choice(['', 'only ', 'not ']) + rng.choice(['screen', 'print', 'all', 'tv', 'x'])
            for _ in range(rng.randint(0, 2)):
                q += ' and (%s%s)' % (rng.choice(['color', 'min-width', 'x']),
                                      rng.choice(['', ':1px', ': 2', ':#fff', ':"s"', ':red', ': 50%', ':rgb(1,2,3)']))
            if rng.random() < 0.3:
                q = '(%s)' % rng.choice(['color', 'min-width:1px']) + rng.choice(['', ' and (x)'])
            qs.append(q)
        s = rng.choice([',', ', ', ' , ']).join(qs)
        if rng.random() < 0.5:
            return s
        i = rng.randrange(len(s) + 1)
        return s[:i] + rng.choice(MEDIA_WORDS) + s[i:]
    return ' '.join(rng.choice(MEDIA_WORDS) for _ in range(rng.randint(0, 7)))


def sel_model_behind(toks):
    """The selector model `Model/Sel.lean` (owned by C16, imported read-only here) is re-synced to fix 3495bab
    (`New.append`: a COMMENT directly after a saved namespace prefix keeps the prefix) by C16 in this round; until that
    lands, model and code differ exactly on preludes in which a `|` is directly followed by a COMMENT token. Such
    preludes are counted and not compared (this is not a finding of the code)."""
    return any(a[1] == '|' and b[0] == 'COMMENT' for a, b in zip(toks, toks[1:]))


def media_known(toks):
    """region of C17-missing-handback (known/C17.json): a complete query followed by `and` that is not followed by a
    complete expression — there the code accepts what the grammar rejects; the Media model follows the code
    (strict = false), so no exemption is needed unless the two disagree for that reason"""
    return False


def impl_case(case):
    """runs in a worker. case = dict(kind, text|bytes, comments, validate, fetch, style)
    returns dict(ok, stage, exc, t)"""
    import cssutils
    import logging
    cssutils.log.setLevel(logging.FATAL)
    t0 = time.time()
    stage = 'setup'
    try:
        text = case['text']
        fetch = case.get('fetch', 'none')
        graph = case.get('graph') or {}

        served = []

        def fetcher(url):
            # an import GRAPH is finite: a fetcher that invents a new sheet for every new URL (relative URLs that
            # grow at each level) describes an infinite chain, which only the interpreter's recursion limit ends
            if url not in served:
                served.append(url)
            if len(served) > 6:
                return None
            if fetch == 'none':
                return None
            if fetch == 'nonenone':
                return (None, None)
            if fetch == 'same':
                return (None, text if isinstance(text, str) else text.decode('latin-1'))
            if fetch == 'graph':
                name = url.rsplit('/', 1)[-1]
                if name in graph:
                    return (None, graph[name])
                return None
            if fetch == 'bytes':
                return ('utf-8', b'@import "z.css";a{b:c}')
            return None

        parser = cssutils.CSSParser(parseComments=case.get('comments', True), validate=case.get('validate', True),
                                    fetcher=fetcher)
        if case.get('style'):
            stage = 'parseStyle'
            st = parser.parseStyle(text)
            stage = 'style.cssText'
            s1 = st.cssText
            stage = 'reparseStyle'
            st2 = parser.parseStyle(s1)
            stage = 'style.cssText2'
            st2.cssText
        else:
            stage = 'parseString'
            sheet = parser.parseString(text, href='http://h/base/main.css')
            if sheet is None or not hasattr(sheet, 'cssRules'):
                return {'ok': False, 'stage': stage, 'exc': 'no DOM object returned: %r' % (sheet,), 't': time.time() - t0}
            stage = 'cssText'
            s1 = sheet.cssText
            stage = 'reparse'
            sheet2 = parser.parseString(s1, href='http://h/base/main.css')
            stage = 'cssText2'
            sheet2.cssText
        return {'ok': True, 'stage': 'done', 'exc': None, 't': time.time() - t0}
    except RecursionError as e:
        return {'ok': False, 'stage': stage, 'exc': 'RecursionError', 't': time.time() - t0}
    except BaseException as e:
        return {'ok': False, 'stage': stage, 'exc': '%s: %s' % (type(e).__name__, str(e)[:200]), 't': time.time() - t0}


def timing_case(case):
    """parse + serialise once, return seconds (worker)"""
    import cssutils
    import logging
    cssutils.log.setLevel(logging.FATAL)
    t0 = time.time()
    sheet = cssutils.parseString(case['text'])
    sheet.cssText
    return time.time() - t0


def sercost_case(shape):
    """count serializer entries for a nested function value (worker). shape = nested lists: [] is a leaf"""
    import cssutils
    import logging
    cssutils.log.setLevel(logging.FATAL)

    def render(s):
        return '1' if s == 'L' else 'f(' + ' '.join(render(c) for c in s) + ')'
    text = 'a{b:' + render(shape) + '}'
    sheet = cssutils.parseString(text, validate=False)
    ser = cssutils.ser
    counts = {'n': 0}
    cls = type(ser)
    orig = cls.do_css_CSSFunction

    def counting(self, *a, **k):
        counts['n'] += 1
        return orig(self, *a, **k)
    cls.do_css_CSSFunction = counting
    try:
        out = sheet.cssText
    finally:
        cls.do_css_CSSFunction = orig
    return counts['n'], out.decode('utf-8')


def shape_to_wire(s):
    return 'L' if s == 'L' else '(' + ''.join(shape_to_wire(c) for c in s) + ')'


def count_fn(s):
    return 0 if s == 'L' else 1 + sum(count_fn(c) for c in s)


def depth_of(s):
    return 0 if s == 'L' else 1 + max([depth_of(c) for c in s] or [0])


class C01(Check):
    id = 'C01'
    props_module = 'CssVerif.Props.C01'
    driver_exe = 'drv_c01'
    sources = ('cssutils/parse.py', 'cssutils/serialize.py', 'cssutils/tokenize2.py', 'cssutils/util.py',
               'cssutils/prodparser.py', 'cssutils/css/cssstylesheet.py', 'cssutils/css/value.py',
               'cssutils/css/selector.py', 'cssutils/css/selectorlist.py', 'cssutils/css/cssstylerule.py',
               'cssutils/css/cssmediarule.py', 'cssutils/css/cssstyledeclaration.py', 'cssutils/css/property.py',
               'cssutils/stylesheets/medialist.py', 'cssutils/stylesheets/mediaquery.py', 'cssutils/cssproductions.py')
    trusted_base = (
        'Model/SerCost.lean: abstract cost model of value serialisation (one do_* entry per function node, k '
        'evaluations of a child per append); tied to serialize.py by counted do_css_CSSFunction entries on generated trees',
        'the never-raises / never-hangs clause for the whole parser is decided on the implementation by the '
        'malformed / boundary / depth / width streams under a hard per-case time limit (exploration, not proof)',
    )
    assumptions = ('CPython recursion limit is an environment bound: nesting deeper than 100 is not generated',
                   'wall-clock scaling is measured, abstract step counts are what the theorems speak about')
    rule = ('malformed stream: token soup over a CSS fragment vocabulary + 1-3 structural mutations of 13 templates; '
            'insertion sweep: fragment x every position x truncation; depth sweep 1..100 x 7 openers x 6 contexts; '
            'width sweep over 15 flat families with measured scaling; parser options x fetchers; '
            'non-trivial = distinct input text that is not well-formed CSS or exceeds depth 3 / width 50')

    def translate(self, ctx):
        """Props/C01 re-exports theorems of the tokenizer (C05) and structure (C04) kernels: their generated tables
        must be regenerated from the current tree for this check too"""
        files = {}
        from harness import c05, c04, c16, c17
        files.update(c05.CHECK.translate(ctx))
        files.update(c04.CHECK.translate(ctx))
        # the composed kernels (Model/ParseAll) run the selector machine and the media engine: their tables too
        files.update(c16.CHECK.translate(ctx))
        files.update(c17.CHECK.translate(ctx))
        return files

    def run(self, ctx):
        import os
        only = os.environ.get('C01_ONLY')          # development aid: run one phase
        if only:
            ctx.phase(getattr(self, only), ctx)
            return
        ctx.phase(self.corr_kernels, ctx)
        ctx.phase(self.corr_sercost, ctx)
        ctx.phase(self.oracle_streams, ctx)
        ctx.phase(self.oracle_validation, ctx)
        ctx.phase(self.oracle_lexemes, ctx)
        ctx.phase(self.oracle_extremes, ctx)
        ctx.phase(self.oracle_depth, ctx)
        ctx.phase(self.oracle_width, ctx)

    # -- correspondence: the composed kernels ----------------------------------------------------------
    def kernel_texts(self, ctx):
        from harness import c04_gen as G4
        rng = ctx.sub_rng('kernels')
        texts = [(t, 'corpus') for t in KERNEL_CORPUS]
        for _ in range(ctx.n(150, 3000)):
            texts.append((G4.gen_sheet(rng).render()[0], 'sheet'))
        for _ in range(ctx.n(250, 6000)):
            texts.append((G.malformed(rng), 'malformed'))
        NS = '@namespace p "u";@namespace "d";'
        pairs = list(G.selector_pairs())
        for i, t in enumerate(rng.sample(pairs, min(len(pairs), ctx.n(250, 100000)))):
            texts.append(((NS if i % 2 else '') + 'z{y:x}' + t + '{b:c}w{v:u}', 'selector-pieces'))
        for i in range(ctx.n(250, 6000)):
            texts.append(((NS if i % 2 else '') + G.selector_soup(rng) + '{b:c}', 'selector-soup'))
        for i in range(ctx.n(250, 6000)):
            mq = KN_media(rng)
            tpl = rng.choice(['@media %s{a{b:c}}', '@media %s{a{b:c}}d{e:f}', '@media %s "n"{a{b:c}}', '@import "x.css" %s;',
                              '@media %s{@media %s{a{b:c}}}'])
            texts.append((tpl.replace('%s', mq), 'media-prelude'))
        seen, out = set(), []
        for t, k in texts:
            if t not in seen and '\ud800' not in repr(t) and '\udc00' not in repr(t):
                seen.add(t)
                out.append((t, k))
        return out

    def corr_kernels(self, ctx):
        import harness.c04 as K
        T0 = time.time()
        texts = self.kernel_texts(ctx)
        res = run_cases(KN.kernel_case, [t for t, _ in texts], timeout=30.0)
        ctx.notes['kernels_t_impl'] = round(time.time() - T0, 1)
        ok = [(t, k, r[1]) for (t, k), (_, r) in zip(texts, res) if r[0] == 'ok']
        for (t, k), (_, r) in zip(texts, res):
            if r[0] != 'ok':
                ctx.violate('parseString returns in time bounded by a low polynomial of the input length',
                            {'input': t, 'input_codepoints': enc(t), 'comments': True, 'validate': True, 'fetch': 'none'},
                            {'worker': r})
        models = KN.model_pipes(ctx, [t for t, _, _ in ok], [r['toks1'] for _, _, r in ok])
        ctx.notes['kernels_t_model'] = round(time.time() - T0, 1)
        # tokens without comments: one more model run per text, no oracle needed (only the token stream is read)
        out0 = ctx.driver(['pipe 0 %s -' % enc(t) for t, _, _ in ok]) if ctx.model_ok else [None] * len(ok)
        sel_lines, sel_idx, med_lines, med_idx = [], [], [], []
        for i, (t, k, r) in enumerate(ok):
            for ns, toks, got in r['sel']:
                if ns is None:
                    continue
                sel_lines.append('selcall %s %s' % (KN.ns_wire(ns), KN.wire(toks)))
                sel_idx.append((i, ns, toks, got))
            for toks, got in r['media']:
                med_lines.append('mediacall %s' % KN.wire(toks))
                med_idx.append((i, toks, got))
        sel_out = ctx.driver(sel_lines) if ctx.model_ok and sel_lines else []
        med_out = ctx.driver(med_lines) if ctx.model_ok and med_lines else []
        ctx.notes['kernels_t_calls'] = round(time.time() - T0, 1)
        # texts on which the media engine model left its token domain (colour function as a feature value, a
        # punctuation value carried by a non-CHAR token): the composed result is not comparable there
        outside = set(i for (i, toks, got), line in zip(med_idx, med_out) if line.startswith('unsupported'))
        behind = set(i for (i, ns, toks, got) in sel_idx if sel_model_behind(toks))
        for i, ((t, k, r), (tree, orc), l0) in enumerate(zip(ok, models, out0)):
            ctx.case(key=('kernels', t), nontrivial=bool(r['sel'] or r['media']) or k == 'malformed', kind='kernels:' + k,
                     sample={'text': t[:200], 'selector_calls': len(r['sel']), 'media_calls': len(r['media']),
                             'tokens': len(r['toks1'])})
            w = {'text': t, 'input_codepoints': enc(t)}
            if tree is None:
                continue
            if isinstance(tree, str):
                ctx.disagree('kernels/pipe', w, r['real'], tree)
                continue
            if tree['stop'] != 'done':
                ctx.disagree('kernels/tokenizer stop', w, 'returned', tree['stop'])
            if tree['toks'] != KN.wire(r['toks1']).replace('-', '', 1 if not r['toks1'] else 0):
                ctx.disagree('kernels/token stream', w, KN.wire(r['toks1']), tree['toks'])
            if tree['iterations'] != len(r['toks1']):
                ctx.disagree('kernels/tokenizer iterations', w, len(r['toks1']), tree['iterations'])
            if tree['iterations'] > len(t) + 3:
                ctx.disagree('kernels/iteration bound (theorem items_le)', w, len(t) + 3, tree['iterations'])
            if l0 is not None:
                if not l0.startswith('{'):
                    ctx.disagree('kernels/pipe without comments', w, 'tree', l0)
                else:
                    t0 = json.loads(l0)
                    if t0['toks'] != (KN.wire(r['toks0']) if r['toks0'] else ''):
                        ctx.disagree('kernels/token stream without comments', w, KN.wire(r['toks0']), t0['toks'])
            if isinstance(r['real'], list) and r['real'][:1] == ['RAISE']:
                ctx.violate('parseString never raises', dict(w, input=t, comments=True, validate=True, fetch='none'),
                            {'exception': r['real'][1]})
                continue
            if i in outside:
                ctx.count('kernels:text-outside-media-model')
                continue
            if i in behind:
                ctx.count('kernels:text-with-comment-after-namespace-prefix (selector model awaits re-sync to 3495bab)')
                continue
            mp = K.strip_proj(K.proj_rules_model(tree['rules'], r['toks1'], orc))
            if mp != r['real']:
                ctx.disagree('kernels/cssRules', w, r['real'], mp)
        for (i, ns, toks, got), line in zip(sel_idx, sel_out):
            t = ok[i][0]
            w = {'text': t, 'input_codepoints': enc(t), 'prelude': KN.wire(toks), 'namespaces': ns}
            ctx.count('kernels:selector-calls')
            parts = line.split()
            if len(parts) != 3:
                ctx.disagree('kernels/selcall', w, got, line)
                continue
            if isinstance(got, str):
                ctx.violate('the selector parser never raises on a prelude handed over by the dispatcher',
                            dict(w, input=t, comments=True, validate=True, fetch='none'), {'exception': got})
                continue
            if parts[1] != 'dom=1':
                ctx.disagree('kernels/selector domain (theorem stream_selDom)', w, 'in domain', line)
            want = 'ok1' if got else 'ok0'
            if parts[0] == 'raised':
                ctx.disagree('kernels/selector machine raised inside selDom (theorem selector_machine_total)', w, want, line)
            elif parts[0] != want and not sel_model_behind(toks):
                ctx.disagree('kernels/selector machine outcome', w, want, line)
        for (i, toks, got), line in zip(med_idx, med_out):
            t = ok[i][0]
            w = {'text': t, 'input_codepoints': enc(t), 'prelude': KN.wire(toks)}
            ctx.count('kernels:media-calls')
            parts = line.split()
            if len(parts) != 3:
                ctx.disagree('kernels/mediacall', w, got, line)
                continue
            if isinstance(got, str):
                ctx.violate('the media parser never raises on a prelude handed over by the dispatcher',
                            dict(w, input=t, comments=True, validate=True, fetch='none'), {'exception': got})
                continue
            if parts[1] != 'dom=1':
                ctx.count('kernels:media-prelude-outside-mediaDom')
                if parts[0] == 'unsupported':
                    continue
            if parts[0] == 'unsupported':
                ctx.disagree('kernels/media engine left its model inside mediaDom (theorem media_engine_total_partial)',
                             w, got, line)
                continue
            want = 'ok1' if got else 'ok0'
            if parts[0] != want and not media_known(toks):
                ctx.disagree('kernels/media engine outcome', w, want, line)

        ctx.notes['kernels_t_total'] = round(time.time() - T0, 1)
        import os
        if os.environ.get('C01_DEBUG'):
            import sys
            print('NOTES', ctx.notes, file=sys.stderr)
            for d in ctx.disagreements:
                print('DIS', json.dumps(d)[:1500], file=sys.stderr)

    # -- correspondence: serializer cost -----------------------------------------------------------
    def corr_sercost(self, ctx):
        rng = ctx.sub_rng('sercost')

        def gen(d):
            if d == 0 or rng.random() < 0.25:
                return 'L'
            return [gen(d - 1) for _ in range(rng.randint(1, 3))]
        shapes = [['L'], [['L']], [[['L']]]]
        for d in range(1, ctx.n(13, 18)):
            s = 'L'
            for _ in range(d):
                s = [s]
            shapes.append(s)
        for _ in range(ctx.n(60, 600)):
            s = gen(rng.randint(1, 6))
            if s != 'L':
                shapes.append(s)
        res = run_cases(sercost_case, shapes, timeout=60.0)
        lines = ['visits 1 %s' % shape_to_wire(s) for s in shapes]
        out = ctx.driver(lines) if ctx.model_ok else [None] * len(lines)
        base = None
        for (s, r), m in zip(res, out):
            ctx.case(key=('sercost', shape_to_wire(s)), nontrivial=depth_of(s) >= 2, kind='sercost',
                     sample={'value_tree': shape_to_wire(s), 'result': r[1] if r[0] == 'ok' else r})
            if r[0] != 'ok':
                ctx.violate('serialisation returns in time bounded by a low polynomial (nested functions)',
                            {'value_tree': shape_to_wire(s)}, {'result': r})
                continue
            calls, text = r[1]
            n = count_fn(s)
            if base is None and n == 1:
                base = calls          # entries per function node at the top level (constant factor)
            c = base or 1
            if calls > c * n:
                ctx.violate('serialisation cost is linear in the size of the value (do_css_CSSFunction entries)',
                            {'value_tree': shape_to_wire(s)}, {'entries': calls, 'function_nodes': n, 'per_node': c})
            if m is not None and m != 'bad-op':
                if int(m) * c != calls:
                    ctx.disagree('serializer visit count', {'value_tree': shape_to_wire(s)}, calls, '%s x %d' % (m, c))

    # -- oracle: malformed / insertion streams -------------------------------------------------------
    def oracle_streams(self, ctx):
        rng = ctx.sub_rng('streams')
        cases = []
        opts = [(True, True), (False, True), (True, False), (False, False)]
        for i in range(ctx.n(9000, 150000)):
            t = G.malformed(rng)
            co, va = opts[i % 4]
            case = {'kind': 'malformed', 'text': t, 'comments': co, 'validate': va,
                    'fetch': rng.choice(['none', 'nonenone', 'same', 'bytes', 'graph']),
                    'style': rng.random() < 0.15}
            if case['fetch'] == 'graph':
                case['graph'] = {'x.css': '@import "y.css";a{b:c}', 'y.css': '@import "x.css";@import "z.css";d{e:f}',
                                 'z.css': G.malformed(rng), 'main.css': t}
            cases.append(case)
        # insertion sweep on a rotating subset of templates / fragments
        frs = G.AT + G.OPEN + ['}', ')', ']', ';', '"', "'", '/*', '<!--', '-->', '\\', '!', '@charset ']
        tmpl = G.TEMPLATES[ctx.seed % len(G.TEMPLATES)] if ctx.tier_counts == 'quick' else None
        for tpl in ([tmpl] if tmpl else G.TEMPLATES):
            sub = frs if ctx.tier_counts == 'thorough' else rng.sample(frs, 8)
            for t in G.insertion_sweep(tpl, sub):
                cases.append({'kind': 'insertion', 'text': t, 'comments': True, 'validate': True, 'fetch': 'none'})
        # escaped punctuation inside names (selectors with namespaces, values)
        for tpl in G.TEMPLATES[-2:] + ([G.TEMPLATES[7]] if ctx.tier_counts == 'thorough' else []):
            for t in G.escaped_punct_sweep(tpl):
                cases.append({'kind': 'escaped-punct', 'text': t, 'comments': True, 'validate': True, 'fetch': 'none'})
        # selectors assembled from the selector grammar's own pieces (error branches of the selector parser)
        NS = '@namespace p "u";@namespace "d";'
        sel = list(G.selector_pairs()) if ctx.tier_counts == 'thorough' else rng.sample(list(G.selector_pairs()), 2500)
        sel += [G.selector_soup(rng) for _ in range(ctx.n(2500, 40000))]
        for i, t in enumerate(sel):
            text = (NS if i % 2 else '') + 'z{y:x}' + t + '{b:c}w{v:u}'
            cases.append({'kind': 'selector-pieces', 'text': text, 'comments': True, 'validate': bool(i % 3), 'fetch': 'none'})
        # every letter of every name escaped / hex-escaped / in the other case (function names, at-keywords,
        # property names, units, keywords, pseudo names)
        ftpls = G.FUNCTION_TEMPLATES if ctx.tier_counts == 'thorough' else G.FUNCTION_TEMPLATES[:2] + [G.FUNCTION_TEMPLATES[2 + ctx.seed % 4]]
        for tpl in ftpls:
            for t in G.escaped_letter_sweep(tpl):
                for va in (True, False):
                    cases.append({'kind': 'escaped-letter', 'text': t, 'comments': True, 'validate': va, 'fetch': 'none'})
        # bytes with BOM / @charset in several encodings
        for _ in range(ctx.n(300, 6000)):
            t = G.malformed(rng)
            e = rng.choice(['utf-8', 'utf-8-sig', 'utf-16', 'utf-16-le', 'utf-32', 'latin-1', 'ascii'])
            hdr = rng.choice(['', '@charset "%s";' % e, '@charset "utf-8";'])
            try:
                b = (hdr + t).encode(e)
            except UnicodeEncodeError:
                continue
            # only byte strings decodable under the encoding that applies are in the property's domain
            import codecs
            import cssutils.codec  # noqa: F401
            try:
                codecs.getdecoder('css')(b)
            except (UnicodeDecodeError, LookupError):
                continue
            cases.append({'kind': 'bytes', 'text': b, 'comments': True, 'validate': True, 'fetch': 'none'})
        self.judge(ctx, cases)

    def judge(self, ctx, cases, limit=TIME_LIMIT):
        res = run_cases(impl_case, cases, timeout=limit)
        for case, r in res:
            text = case['text']
            key = (case['kind'], text, case.get('comments'), case.get('validate'), case.get('fetch'), case.get('style'))
            shown = text if isinstance(text, str) else text.hex()
            ctx.case(key=key, nontrivial=True, kind=case['kind'] + (':style' if case.get('style') else ''),
                     sample={'input': shown[:200], 'options': {k: case.get(k) for k in ('comments', 'validate', 'fetch', 'style')}})
            w = {'input': shown if isinstance(text, str) else None, 'input_hex': None if isinstance(text, str) else shown,
                 'input_codepoints': enc(text) if isinstance(text, str) else None,
                 'comments': case.get('comments', True), 'validate': case.get('validate', True),
                 'fetch': case.get('fetch', 'none'), 'graph': case.get('graph'), 'style': bool(case.get('style'))}
            if r[0] == 'hang':
                ctx.violate('parse / serialise / reparse returns in time bounded by a low polynomial of the input length',
                            w, {'no result after seconds': round(r[1], 1), 'input_length': len(text)},
                            known=self.known_region(case, 'hang'))
            elif r[0] == 'died':
                ctx.violate('the entry points return a DOM object', w, {'worker': r[1]})
            elif not r[1]['ok']:
                ctx.violate('parseString / parseStyle never raise; the result serialises, reparses and serialises again '
                            'without an exception', w, {'stage': r[1]['stage'], 'exception': r[1]['exc']},
                            known=self.known_region(case, r[1]['exc']))
            else:
                ctx.count('stage:done')

    def known_region(self, case, what):
        for fid, pred in KNOWN.items():
            try:
                if pred(case, what):
                    return fid
            except Exception:
                pass
        return None

    # -- oracle: validation must not backtrack exponentially ------------------------------------------
    def oracle_validation(self, ctx):
        """every known property x value families of n repeated units x an invalidating tail: the profile regexes are
        only exercised with validation on and mostly on INVALID values (that is where a backtracking matcher explodes)"""
        import cssutils
        names = sorted(cssutils.profile.knownNames)
        rng = ctx.sub_rng('validation')
        cases = []
        sizes = [40] if ctx.tier_counts == 'quick' else [24, 48, 96]
        for name in names:
            # every unit family in both tiers (the quick tier used to sample 6 of them and missed the 2^(n/2)
            # `background` pattern, which needs `dimensions` + an invalidating tail); quick: the tail ' x' that
            # invalidates every list of values + one drawn tail, thorough: every tail
            units = list(G.VALID_UNITS)
            for u in units:
                for n in sizes:
                    tails = G.VALID_TAILS if ctx.tier_counts != 'quick' else sorted({' x', rng.choice(G.VALID_TAILS)})
                    for tl in tails:
                        cases.append({'kind': 'validation', 'text': 'a{%s:%s%s}' % (name, G.VALID_UNITS[u](n), tl),
                                      'comments': True, 'validate': True, 'fetch': 'none'})
        self.judge(ctx, cases, limit=15.0)

    # -- oracle: lexemes that can be split in many ways ------------------------------------------------
    def oracle_lexemes(self, ctx):
        """n repeated units after an opener that is never closed: the tokenizer's productions are tried by a
        backtracking matcher, and a production that can split the same text in several ways needs 2^n steps when it
        fails at the end (found in the string and url() productions: 6e7cc00's sibling fix)"""
        rng = ctx.sub_rng('lexemes')
        cases = []
        for n in ([48] if ctx.tier_counts == 'quick' else [24, 48, 96, 400]):
            for t in G.lexeme_cases(n, rng, per=(12 if ctx.tier_counts == 'quick' else None)):
                cases.append({'kind': 'lexeme', 'text': t, 'comments': True, 'validate': True, 'fetch': 'none'})
        self.judge(ctx, cases, limit=15.0)

    # -- oracle: extreme numbers and malformed URLs ------------------------------------------------------
    def oracle_extremes(self, ctx):
        """numbers float arithmetic cannot hold (OverflowError, inf, nan) in every numeric slot, and URLs which the URL
        library refuses (ValueError) in every URL slot, with a parent href so that relative resolution runs"""
        cases = []
        for t in G.extreme_cases():
            for va in (True, False):
                cases.append({'kind': 'extreme', 'text': t, 'comments': True, 'validate': va, 'fetch': 'none',
                              'href': 'http://example.org/css/main.css'})
                cases.append({'kind': 'extreme', 'text': t, 'comments': True, 'validate': va, 'fetch': 'nonenone'})
        self.judge(ctx, cases, limit=15.0)

    # -- oracle: depth ---------------------------------------------------------------------------------
    def oracle_depth(self, ctx):
        depths = [1, 2, 3, 5, 8, 13, 21, 34, 55, 80, 100] if ctx.tier_counts == 'quick' else list(range(1, 101))
        cases = []
        for d in depths:
            for t in G.depth_cases(d):
                cases.append({'kind': 'depth', 'text': t, 'comments': True, 'validate': True, 'fetch': 'none'})
        self.judge(ctx, cases, limit=60.0)

    # -- oracle: width / scaling -------------------------------------------------------------------------
    def oracle_width(self, ctx):
        sizes = [200, 400, 800, 1600] if ctx.tier_counts == 'quick' else [250, 500, 1000, 2000, 4000]
        cases = [{'kind': 'width', 'family': k, 'n': n, 'text': G.width_case(k, n)} for k in G.WIDTH_KINDS for n in sizes]
        # first: no exception (flat inputs get no depth excuse)
        self.judge(ctx, [dict(c, comments=True, validate=True, fetch='none') for c in cases], limit=240.0)
        res = run_cases(timing_case, cases, timeout=240.0)
        by = {}
        for c, r in res:
            if r[0] == 'ok':
                by.setdefault(c['family'], []).append((c['n'], r[1]))
        fits = {}
        for fam, pts in by.items():
            pts.sort()
            (n0, t0), (n1, t1) = pts[0], pts[-1]
            if t1 < 0.5 or t0 <= 0:
                fits[fam] = None       # too fast to say anything
                continue
            expo = math.log(t1 / max(t0, 1e-4)) / math.log(n1 / n0)
            fits[fam] = round(expo, 2)
            if expo > 2.7 and t1 > 2.0:
                ctx.violate('time bounded by a low polynomial of the input length (flat input family)',
                            {'family': fam, 'sizes': [p[0] for p in pts]},
                            {'seconds': [round(p[1], 3) for p in pts], 'fitted_exponent': fits[fam]})
        ctx.notes['width_scaling_exponent'] = fits

    # ----------------------------------------------------------------------------------------------------
    def replay(self, ctx, data):
        w = data.get('witness') or {}
        if 'value_tree' in w or 'family' in w:
            self.run(ctx)
            return
        text = w.get('input')
        if text is None and w.get('input_codepoints'):
            from lib.framework import dec
            text = dec(w['input_codepoints'])
        if text is None and w.get('input_hex'):
            text = bytes.fromhex(w['input_hex'])
        case = {'kind': 'replay', 'text': text, 'comments': w.get('comments', True), 'validate': w.get('validate', True),
                'fetch': w.get('fetch', 'none'), 'graph': w.get('graph'), 'style': w.get('style', False)}
        self.judge(ctx, [case], limit=60.0)

    def known(self, ctx, finding):
        w = finding['witness']['data']
        case = {'kind': 'known', 'text': w['input'], 'comments': True, 'validate': True, 'fetch': w.get('fetch', 'none')}
        r = run_cases(impl_case, [case], timeout=60.0)[0][1]
        return r[0] != 'ok' or not r[1]['ok']


CHECK = C01()
