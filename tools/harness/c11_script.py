"""Python mirror of `CssVerif.Mutators.run` (lean/CssVerif/Model/Mutators.lean) over the numbered scripts
produced by tools/gen/c11_scripts.py. Used ONLY to search for outcome sequences (which branch decisions reproduce
an observed trace; which decisions lead to a dirty exceptional exit); every verdict that is reported comes from the
Lean driver, which is asked to `run` the outcome sequence found here."""
import sys

sys.setrecursionlimit(20000)


class State:
    __slots__ = ('cur', 'saved', 'copies', 'flags', 'ro', 'next', 'trace', 'calls')

    def __init__(self, ro=False):
        self.cur, self.saved, self.flags, self.copies = {}, {}, {}, {}
        self.ro, self.next, self.trace = ro, 2000000, []
        self.calls = None     # after a searched run: the decisions taken at `call f` sites, in order

    def copy(self):
        s = State(self.ro)
        s.cur, s.saved, s.flags = dict(self.cur), dict(self.saved), dict(self.flags)
        s.copies = dict(self.copies)
        s.next, s.trace = self.next, list(self.trace)
        return s

    def getcur(self, f):
        return self.cur.get(f, f)

    def getsaved(self, f):
        return self.saved.get(f, 1000000)

    def dirty(self):
        return sorted(f for f, v in self.cur.items() if v != f)


class Decider:
    """supplies decisions and records them (the outcome sequence)"""

    def __init__(self, choose, on_mark=None):
        self.choose = choose
        self.bits = []
        self.calls = []
        self.on_mark = on_mark
        self.no_idle = on_mark is not None   # searching for a trace: an iteration that does nothing is never needed

    def next(self, kind, node, st):
        b = bool(self.choose(kind, node, st, len(self.bits)))
        self.bits.append(b)
        if kind == 'mayRaise' and len(node) > 1 and node[1] == 'call':
            self.calls.append(b)
        return b


def run(sc, st, dec):  # noqa: C901
    """-> exit kind ('norm','ret','brk','cont','exc','roexc'); mutates st"""
    k = sc[0]
    if k == 'skip':
        return 'norm'
    if k == 'mark':
        st.trace.append(sc[1])
        if dec.on_mark is not None:
            dec.on_mark(st)
        return 'norm'
    if k == 'assign':
        st.cur[sc[1]] = st.next
        st.next += 1
        return 'norm'
    if k == 'mutate':
        f = sc[1]
        if st.getsaved(f) == st.getcur(f):
            st.saved[f] = st.next
        st.cur[f] = st.next
        st.next += 1
        return 'norm'
    if k == 'save':
        st.saved[sc[1]] = st.getcur(sc[1])
        return 'norm'
    if k == 'restore':
        st.cur[sc[1]] = st.getsaved(sc[1])
        return 'norm'
    if k == 'saveC':
        st.copies[sc[1]] = st.getcur(sc[1])
        return 'norm'
    if k == 'restoreC':
        st.cur[sc[1]] = st.copies.get(sc[1], 1000001)
        return 'norm'
    if k == 'guard':
        return 'roexc' if st.ro else 'norm'
    if k == 'raise':
        return 'exc'
    if k == 'mayRaise':
        return 'exc' if dec.next('mayRaise', sc, st) else 'norm'
    if k in ('ret', 'brk', 'cont'):
        return k
    if k == 'setFlag':
        st.flags[sc[1]] = sc[2]
        return 'norm'
    if k == 'havoc':
        st.flags[sc[1]] = dec.next('havoc', sc, st)
        return 'norm'
    if k == 'ifFlag':
        return run(sc[2] if st.flags.get(sc[1], False) else sc[3], st, dec)
    if k == 'seq':
        for x in sc[1]:
            r = run(x, st, dec)
            if r != 'norm':
                return r
        return 'norm'
    if k == 'choice':
        return run(sc[1] if dec.next('choice', sc, st) else sc[2], st, dec)
    if k == 'loop':
        while dec.next('loop', sc, st):
            before = (len(st.trace), st.next, tuple(sorted(st.flags.items()))) if dec.no_idle else None
            r = run(sc[1], st, dec)
            if before is not None and r in ('norm', 'cont') and \
                    before == (len(st.trace), st.next, tuple(sorted(st.flags.items()))):
                raise Abort()
            if r == 'brk':
                return 'norm'
            if r not in ('norm', 'cont'):
                return r
        return run(sc[2], st, dec)
    if k == 'tryCatch':
        r = run(sc[1], st, dec)
        if r in ('exc', 'roexc'):
            return run(sc[2], st, dec)
        return r
    if k == 'tryFinally':
        r = run(sc[1], st, dec)
        r2 = run(sc[2], st, dec)
        return r if r2 == 'norm' else r2
    if k == 'scope':
        r = run(sc[1], st, dec)
        return 'norm' if r == 'ret' else r
    raise ValueError(k)


def call_positions(sc, bits, ro=False):
    """replay `bits`; -> indices of the decisions taken at `call f` sites (the `mayRaise` tagged 'call'), in order"""
    pos = []

    def choose(kind, node, st, i):
        if kind == 'mayRaise' and len(node) > 1 and node[1] == 'call':
            pos.append(i)
        return bits[i] if i < len(bits) else False
    run(sc, State(ro), Decider(choose))
    return pos


class Abort(Exception):
    pass


def find_bits(sc, want_trace, want_exit, ro=False, max_nodes=20000, calls=None):
    """decision sequence under which the script produces exactly the marks `want_trace` and ends `want_exit`
    ('ok' = returns normally, 'exc' = DOM exception, 'roexc'); None if the script admits no such run"""
    n = len(want_trace)

    def prune(st):
        k = len(st.trace)
        if k > n or st.trace[k - 1] != want_trace[k - 1]:
            raise Abort()

    def accept(ex, st):
        if st.trace != want_trace:
            return False
        if calls is not None and st.calls != calls:
            return False     # the decisions at the `call f` sites must be what the child calls really did
        if want_exit == 'ok':
            return ex in ('norm', 'ret')
        return ex == want_exit
    return search(sc, accept, ro=ro, max_nodes=max_nodes, loop_bound=n + 2, prune=prune)


def search(sc, accept, ro=False, max_nodes=200000, loop_bound=2, prune=None):
    """depth-first search over decision sequences; `accept(exit, st)` -> truthy to stop. Returns (bits, exit, st)
    or None. Loops are unrolled at most `loop_bound` times per dynamic loop instance."""
    count = [0]
    stack = [[]]       # prefixes to explore
    while stack:
        prefix = stack.pop()
        count[0] += 1
        if count[0] > max_nodes:
            return None
        loops = {}

        def choose(kind, node, st, i, prefix=prefix, loops=loops):
            if i < len(prefix):
                return prefix[i]
            # new decision: explore False now, schedule True
            if kind == 'loop':
                n = loops.get(id(node), 0)
                if n >= loop_bound:
                    return False
            return None

        dec = Decider(lambda *a: False)
        st = State(ro)
        bits = []
        pending = []

        def choose2(kind, node, st_, i):
            c = choose(kind, node, st_, i)
            if c is None:
                pending.append(i)
                c = False
            if kind == 'loop' and c:
                loops[id(node)] = loops.get(id(node), 0) + 1
            if kind == 'loop' and not c:
                loops[id(node)] = 0
            return c
        dec = Decider(choose2, on_mark=prune)
        try:
            ex = run(sc, st, dec)
        except Abort:
            ex = 'abort'
        bits = dec.bits
        st.calls = dec.calls
        if ex != 'abort' and accept(ex, st):
            return bits, ex, st
        for i in reversed(pending):
            stack.append(bits[:i] + [True])
    return None
