"""C09 oracle: the property checked directly on the implementation, independent of the Lean model.

After every operation the set of *violation items* of the current object graph is computed (each item is keyed by the
identities of the objects involved). Items that were already there before the operation are inherited; every NEW item
must be explained by the region predicate of a listed known finding (then it is attributed to it) — otherwise it is
reported as a violation with the history as witness.
"""
from harness.c09_ops import RANK, ALLOWED_IN, op_to_json, op_line, cssmods, Spec, BROKEN_TAILS, items_text

CLAUSE = {
    'order': 'rules are ordered @charset < @import < @namespace < @variables < style/@media/@page/@font-face '
             '(comments and unknown rules anywhere)',
    'charset': 'at most one @charset rule and only in first place',
    'nested': 'a nested rule list holds only the rule kinds allowed there (@media: style, @page, @media, comment, '
              'unknown; @page: margin rules)',
    'link': 'every rule, declaration block and property reachable from the sheet names its actual container as parent',
    'dpss': 'every rule reachable from the sheet reports the sheet as parentStyleSheet',
    'gone': 'a removed / refused / replaced rule object names no parent',
    'index': 'an accepted insertRule/add returns the index at which the rule now stands',
    'reparse': 'serialising and reparsing the edited sheet keeps every rule (same tree of rule types)',
    'outcome': 'an edit either returns or raises a DOM exception',
    'list': 'insertRule(CSSRuleList) inserts all rules or none: a refused list leaves the rule list as it was',
    'parent': 'rule.parent (the parent node) is the containing rule of a nested rule and None otherwise',
    'gonedecl': 'a declaration block that was replaced names no parent rule',
    'goneprop': 'a property that was removed from its declaration block names no parent',
}


K_DECL = 'C09-replaced-declaration-keeps-parent'
K_PROP = 'C09-removed-property-keeps-parent'
K_PARENT = 'C09-rule-parent-not-maintained'
K_RAW = 'C09-raw-list-edit'
K_REINS = 'C09-rule-reinserted'
K_SHAREDB = 'C09-shared-declaration-block'
K_SHAREDP = 'C09-shared-property'
KNOWN_OF_CLAUSE = {'gonedecl': K_DECL, 'goneprop': K_PROP, 'parent': K_PARENT}


def items_of(st):
    """{item key: human description}; keys hold object ids, so inherited items are recognised"""
    sheet = st.sheet
    out = {}
    top = list(sheet.cssRules)
    # order: inverted pairs
    ranked = [(r, RANK[r.typeString]) for r in top if r.typeString in RANK]
    for i in range(len(ranked)):
        for j in range(i + 1, len(ranked)):
            if ranked[i][1] > ranked[j][1]:
                out[('order', id(ranked[i][0]), id(ranked[j][0]))] = '%s before %s' % (ranked[i][0].typeString,
                                                                                      ranked[j][0].typeString)
    for i, r in enumerate(top):
        if r.type == r.CHARSET_RULE and i != 0:
            out[('charset', id(r))] = '@charset at index %d' % i
    # nested kinds and links
    for path, r, cont in st.walk():
        if cont is not None:
            if r.typeString not in ALLOWED_IN[cont.typeString]:
                out[('nested', id(cont), id(r))] = '%s inside %s at %s' % (r.typeString, cont.typeString, list(path))
            if r.parentRule is not cont:
                out[('link', id(r), 'parentRule')] = '%s at %s: parentRule is %r' % (r.typeString, list(path), r.parentRule)
        else:
            if r.parentRule is not None:
                out[('link', id(r), 'parentRule')] = '%s at %s: parentRule is %r' % (r.typeString, list(path), r.parentRule)
        if len(path) == 1:
            if r.parentStyleSheet is not sheet:
                out[('link', id(r), 'parentStyleSheet')] = '%s at %s: parentStyleSheet is %r' % (
                    r.typeString, list(path), r.parentStyleSheet)
        elif r.parentStyleSheet is not sheet:
            out[('dpss', id(r), len(path))] = '%s at %s (depth %d): parentStyleSheet is %r' % (
                r.typeString, list(path), len(path), r.parentStyleSheet)
        decl = getattr(r, 'style', None)
        if decl is not None and r.type in (r.STYLE_RULE, r.PAGE_RULE, r.FONT_FACE_RULE, r.MARGIN_RULE):
            if decl.parentRule is not r:
                out[('link', id(r), 'style.parentRule')] = '%s at %s: style.parentRule is %r' % (
                    r.typeString, list(path), decl.parentRule)
            for p in decl.getProperties(all=True):
                if p.parent is not decl:
                    out[('link', id(p), 'property.parent')] = '%s at %s: property %s parent is %r' % (
                        r.typeString, list(path), p.name, p.parent)
        if r.type == r.VARIABLES_RULE and r.variables.parentRule is not r:
            out[('link', id(r), 'variables.parentRule')] = 'variables.parentRule is %r' % (r.variables.parentRule,)
    # the `parent` attribute of rules
    for path, r, cont in st.walk():
        if r.parent is not cont:
            out[('parent', id(r), 'live')] = '%s at %s: parent is %r' % (r.typeString, list(path), r.parent)
    for o in st.gone_roots:
        if o.parent is not None:
            out[('parent', id(o), 'gone')] = 'removed %s: parent is %r' % (o.typeString, o.parent)
    # declaration blocks and properties that were replaced / removed: every block or property ever seen in a rule
    # (live, removed or handed in) that is not the block of such a rule / in such a block any more
    cur_decl, cur_prop = set(), set()
    for o in list(st.tracked.values()):
        d = getattr(o, 'style', None) if o.type in (o.STYLE_RULE, o.PAGE_RULE, o.FONT_FACE_RULE, o.MARGIN_RULE) else None
        if d is None:
            continue
        cur_decl.add(id(d))
        st.decls[id(d)] = (d, o.typeString)
        for p in d.getProperties(all=True):
            cur_prop.add(id(p))
            st.oprops[id(p)] = (p, o.typeString)
    for i, p in st.props.items():
        st.oprops.setdefault(i, (p, 'operation'))       # Property objects handed to setProperty
    for i, (d, owner) in st.decls.items():
        if i not in cur_decl and d.parentRule is not None:
            out[('gonedecl', i)] = 'declaration block replaced in a %s: parentRule is %r' % (owner, d.parentRule)
    for i, (p, owner) in st.oprops.items():
        # a property names a block that does not hold it (a block that was itself replaced still holds its properties)
        if i not in cur_prop and p.parent is not None and not any(q is p for q in p.parent.getProperties(all=True)):
            out[('goneprop', i)] = 'property %s removed from the block of a %s: parent is %r' % (p.name, owner, p.parent)
    # removed objects
    for o in st.gone_roots:
        if o.parentRule is not None:
            out[('gone', id(o), 'parentRule')] = 'removed %s: parentRule is %r' % (o.typeString, o.parentRule)
        if o.parentStyleSheet is not None:
            out[('gone', id(o), 'parentStyleSheet')] = 'removed %s: parentStyleSheet is %r' % (o.typeString, o.parentStyleSheet)
    return out


class Oracle:
    def __init__(self, ctx):
        self.ctx = ctx
        self.active_known = set()

    # -- facts of the state before the operation that the region predicates need
    def before(self, st, op, mode):
        if not hasattr(st, 'items'):
            st.dump()
            st.items = items_of(st)
            st.explained = {}
        top = list(st.sheet.cssRules)
        pre = {'top': top, 'topids': [id(r) for r in top], 'kinds': [r.typeString for r in top], 'mode': mode,
               'live': set(id(r) for _, r, _ in st.walk())}
        t = op[0]
        if t in ('nins', 'ndel', 'ntext', 'ninsl'):
            try:
                c = st.at(op[1])
                pre['cont'] = c
                pre['contkids'] = [id(k) for k in c.cssRules]
            except Exception:
                pre['cont'] = None
        return pre

    def witness(self, ops, raising):
        return {'ops': [op_to_json(o) for o in ops], 'raising': raising,
                'lines': [(op_line(o) or 'decl %s %s' % (list(o[1]), o[2])) + (' text=%r' % items_text(o[2]) if o[0] in ('dnew', 'dtext') else '') +
                          (' tail=%r' % BROKEN_TAILS[o[3] % len(BROKEN_TAILS)] if o[0] == 'nbroken' else '') for o in ops]}

    def after(self, st, op, out, pre, ops, raising):
        ctx = self.ctx
        if out.startswith('RET') or (out.startswith('ERR') and out.split()[1] not in (
                'IndexSizeErr', 'HierarchyRequestErr', 'NoModificationAllowedErr', 'SyntaxErr', 'NamespaceErr',
                'InvalidModificationErr', 'AttributeError')):
            ctx.violate(CLAUSE['outcome'], self.witness(ops, raising), out)
        cur = items_of(st)
        new = [k for k in cur if k not in st.items]
        # the property promises valid -> valid: while the order is already broken by a known finding (and by nothing
        # else), a further inversion against one of the misplaced rules is a consequence of that finding
        order_taint = sorted(set(v for k, v in st.explained.items() if k[0] in ('order', 'charset')))
        order_clean = all(k in st.explained for k in st.items if k[0] in ('order', 'charset'))
        for k in new:
            f = self.explain(k, st, op, out, pre)
            if f is None and k[0] == 'order' and order_taint and order_clean:
                f = order_taint[0]
            if f:
                st.explained[k] = f
            ctx.violate(CLAUSE[k[0]], self.witness(ops, raising), cur[k], known=f)
        st.explained = {k: v for k, v in st.explained.items() if k in cur}
        st.items = cur
        self.check_index(st, op, out, pre, ops, raising)
        if op[0] in ('insl', 'ninsl') and out.startswith('ERR'):
            before = pre['topids'] if op[0] == 'insl' else pre.get('contkids')
            rules = st.sheet.cssRules if op[0] == 'insl' else (pre['cont'].cssRules if pre.get('cont') is not None else None)
            if before is not None and rules is not None and [id(r) for r in rules] != before:
                ctx.violate(CLAUSE['list'], self.witness(ops, raising),
                            '%s, but the list changed to %s' % (out, [r.typeString for r in rules]))

    # -- region predicates of the known findings ------------------------------------------------
    def explain(self, k, st, op, out, pre):
        """the findings of the first rounds are fixed in the code (known/C09.json, status "fixed") and nothing is
        attributed to them. The three findings about `parent`, replaced declaration blocks and removed properties are
        attributed only while their witness still reproduces on the tree under test (probed at start): once the
        fixes are in, a regression is a violation."""
        f = KNOWN_OF_CLAUSE.get(k[0])
        if f in self.active_known:
            return f
        # edits around the DOM methods: the object removed / inserted through the list object keeps / gets no back pointer
        raw = st.raw_objs
        if (k[0] in ('gone', 'parent', 'charset') and k[1] in raw) or (
                k[0] == 'link' and k[1] in raw and k[2] in ('parentStyleSheet', 'parentRule')) or (
                k[0] == 'order' and (k[1] in raw or k[2] in raw)):
            return K_RAW
        if k[0] == 'charset':
            top = list(st.sheet.cssRules)
            at = [i for i, r in enumerate(top) if id(r) == k[1]]
            if at and any(id(r) in raw for r in top[:at[0]]):
                return K_RAW        # an object put in front of the @charset rule through the list object
        if k[0] in ('link', 'parent') and k[1] in st.reinserted:
            return K_REINS
        # a contained object handed in a second time: the block / property is held twice and names one holder
        if k[0] == 'link' and k[2] == 'style.parentRule':
            r = st.tracked.get(k[1])
            if r is not None and id(r._style) in st.shared_blocks:
                return K_SHAREDB
        if (k[0] == 'link' and k[2] == 'property.parent' and k[1] in st.shared_props) or (
                k[0] == 'goneprop' and k[1] in st.shared_props):
            return K_SHAREDP
        return None

    def check_index(self, st, op, out, pre, ops, raising):
        t = op[0]
        if t not in ('ins', 'add', 'insord', 'nins') or not out.startswith('OK '):
            return
        i = int(out.split()[1])
        spec, via = (op[2], op[4]) if t == 'nins' else (op[1], op[-1])
        rules = pre['cont'].cssRules if t == 'nins' else st.sheet.cssRules
        if t in ('add', 'insord') and spec.kind == 'charset' and pre['kinds'][:1] == ['CHARSET_RULE']:
            return      # merged into the existing @charset rule: index 0 names that rule
        ok = i < len(rules) and (rules[i] is st.last_arg if not via else id(rules[i]) not in pre['live'])
        if not ok:
            f = None
            self.ctx.violate(CLAUSE['index'], self.witness(ops, raising),
                             'returned %d, list is %s' % (i, [r.typeString for r in rules]), known=f)

    # -- serialise + reparse --------------------------------------------------------------------
    def norm_tree(self, rules):
        """tree of rule types; margin rules of the same name inside one @page count once (the parser merges them,
        their declarations are kept)"""
        out = []
        for r in rules:
            s = '%d' % r.type
            if r.type == r.PAGE_RULE:
                seen, ks = set(), []
                for k in r.cssRules:
                    if k.type == k.MARGIN_RULE:
                        if k.margin in seen:
                            continue
                        seen.add(k.margin)
                    ks.append(k)
                s += '(' + self.norm_tree(ks) + ')'
            elif r.type == r.MEDIA_RULE:
                s += '(' + self.norm_tree(r.cssRules) + ')'
            out.append(s)
        return ','.join(out)

    def parse(self, text):
        cssutils, css = cssmods()
        return cssutils.CSSParser(fetcher=lambda url: None, raiseExceptions=False).parseString(text)

    def each_rule_round_trips(self, sheet):
        """every rule of the sheet, serialised and parsed on its own (after the sheet's @namespace rules where it
        may use them), gives back a rule with the same tree of types: then whatever a reparse of the whole sheet
        loses, it loses because of the order / nesting of the rules"""
        R = sheet.cssRules
        nstext = ''.join(r.cssText for r in R if r.type == r.NAMESPACE_RULE)
        nscount = len([r for r in R if r.type == r.NAMESPACE_RULE])
        for r in R:
            alone = r.type in (r.CHARSET_RULE, r.IMPORT_RULE, r.NAMESPACE_RULE)
            got = self.parse(r.cssText if alone else nstext + '\n' + r.cssText)
            rules = list(got.cssRules)
            if not alone:
                if len([x for x in rules if x.type == x.NAMESPACE_RULE]) != nscount:
                    return False
                rules = [x for x in rules if x.type != x.NAMESPACE_RULE]
            if self.norm_tree(rules) != self.norm_tree([r]):
                return False
        return True

    def end(self, st, ops, raising):
        """returns the tree of rule types of the reparsed sheet (for the correspondence) or None when the
        comparison does not apply"""
        cssutils, css = cssmods()
        sheet = st.sheet
        declared = set(sheet.namespaces.namespaces.values())
        for _, r, _ in st.walk():
            if r.type == r.STYLE_RULE and not set(r.selectorList._getUsedUris()) <= declared:
                self.ctx.count('reparse-skipped:undeclared-namespace')
                return None     # a selector uses an undeclared namespace: cannot be written (C15's subject)
        saved = cssutils.log.raiseExceptions
        try:
            cssutils.ser.prefs.resolveVariables = False
            cssutils.ser.prefs.keepEmptyRules = True
            cssutils.log.raiseExceptions = False
            text = sheet.cssText
            again = self.parse(text)
            a, b = self.norm_tree(sheet.cssRules), self.norm_tree(again.cssRules)
            if a != b and not self.each_rule_round_trips(sheet):
                self.ctx.count('reparse-skipped:a-rule-does-not-round-trip-alone')
                return None
        finally:
            cssutils.ser.prefs.useDefaults()
            cssutils.log.raiseExceptions = saved
        self.ctx.count('reparse-checked')
        if a != b:
            # which outstanding structural items explain a loss?
            fs = sorted(set(v for k, v in st.explained.items() if k[0] in ('order', 'charset', 'nested')))
            structural = [k for k in st.items if k[0] in ('order', 'charset', 'nested')]
            unexplained = [k for k in structural if k not in st.explained]
            if not unexplained:
                self.ctx.violate(CLAUSE['reparse'], self.witness(ops, raising),
                                 {'tree': a, 'reparsed': b, 'text': text.decode('utf-8', 'replace')[:600]},
                                 known=fs[0] if fs else None)
            # else: already reported by the structural clause that broke
        return st.kinds_tree(again)


def replay_known(env, finding):
    """run the witness history of a known finding on the implementation; True if the stated clause still fails"""
    from harness.c09_ops import ops_from_json
    w = finding['witness']['data']
    ops = ops_from_json(w['ops'])
    raising = w.get('raising', True)
    st = env.new_state(raising)
    st.dump()
    st.items = items_of(st)
    st.explained = {}
    want = finding['clause']
    hit = False
    for i, op in enumerate(ops):
        pre = env.oracle.before(st, op, raising)
        out = st.apply(op)
        st.dump()
        cur = items_of(st)
        if any(k[0] == want and k not in st.items for k in cur):
            hit = True
        st.items = cur
        if want == 'index' and out.startswith('OK ') and op[0] in ('ins', 'add', 'insord') and not op[-1]:
            i = int(out.split()[1])
            rules = st.sheet.cssRules
            if not (i < len(rules) and rules[i] is st.last_arg):
                hit = True
    if want == 'reparse':
        class Probe:
            def __init__(self):
                self.violations = []

            def violate(self, clause, witness, detail=None, known=None):
                self.violations.append(clause)
        from harness.c09_oracle import Oracle
        p = Probe()
        o = Oracle(p)
        st.explained = {}
        st.items = {}
        o.end(st, ops, raising)
        hit = bool(p.violations)
    return hit
