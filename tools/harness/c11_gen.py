"""C11 harness: case generator — prior states x public mutators x inputs crafted to be rejected at stage k.

A case is plain data (JSON-able, replayable):
  {'state': {'sheet': text} | {'new': class name, 'kw': {...}}, 'path': [...], 'mutator': 'Class.member',
   'args': [...], 'kind': tag}
Arguments are strings / ints / None or small specs: {'obj': 'CSSImportRule', 'kw': {...}} (a DOM object built before
the call), {'rulelist': 'css text'} (the cssRules of a parsed sheet, a CSSRuleList), {'sel': text}, {'mq': text}.
"""

# -- vocabulary: good parts by kind ------------------------------------------------------------------
GOOD = {
    'charset': ['@charset "utf-8";', '@charset "ascii";'],
    'import': ['@import "i1.css";', '@import url(i2.css) print, tv;', '@import "i3.css" screen "nm";'],
    'namespace': ['@namespace p "http://p";', '@namespace "http://d";', '@namespace q url(http://q);'],
    'variables': ['@variables { c: red; w: 1px }', '@variables { C\\olor: red; \\77 : 1px; W2: 2px }'],
    'fontface': ['@font-face { font-family: x; src: url(a.ttf) }', '@FONT-face { FONT-f\\amily: y; s\\72 c: url(b.ttf) }'],
    'media': ['@media print { a { top: 0 } b { left: 1px } }', '@media screen, tv { /*c*/ e { color: red } }',
              '@media all { @page { margin: 0 } x { top: 1px } }',
              '@media PR\\int, T\\56 { \\61 { t\\op: 0 } }', '@media ONLY SCR\\65 en AND (MIN-width: 1px) { a { top: 0 } }'],
    'page': ['@page :first { margin: 1cm; @top-left { content: "x" } }', '@page { margin: 0 }',
             '@page nm:left { @bottom-center { color: red } margin: 2px }',
             '@page N\\6d:FIRST { m\\argin: 1px; @TOP-l\\65 ft { c\\olor: red } }'],
    'style': ['a, b > c { color: red; top: 0 !important }', 'p|x { left: 0 }', '.k #i[a="b"] { color: #fff; '
              'background: url(x.png) no-repeat; margin: 1px 2px }', 'h1:hover::first-line { font: 12px/1.5 "A", serif }',
              '*|y { color: rgb(1, 2, 3); width: calc(1px + 2px) }',
              # names whose literal spelling differs from the normalised one (simple escape, hex escape, upper case)
              'D\\iv > sp\\61 n, \\61 b { c\\olor: red; T\\op: 1px; \\6c eft: 2px !IMPORTANT; COLOR: blue }',
              'H1.K\\6c s { BACK\\ground: URL(x.png); c\\olor: RED !important }'],
    'comment': ['/* c */'],
    'unknown': ['@foo bar { x: y }', '@foo "x";', '@F\\6fo B\\ar;'],
}
# parts that are rejected (in raising mode) — by where they may stand
BAD_RULES = ['$$$ {', 'a { color: }', '} }', 'a { top: 0 } }', 'zz|a { top: 0 }', 'a {{ }', 'a { top }',
             'a { color: red; $x: 1 }', 'a, { top: 0 }', 'a b c > { top: 0 }', '@media print { @import "x.css"; }',
             '@media { a { top: 0 } }', '@media print { a { top: 0 } zz|b { top: 0 } }',
             '@media print { a { top: 0 } b { left: } }', '@page :first :left { margin: 0 }',
             '@page { @top-left { color: $$ } }', '@page { margin: 0; @top-foo { x: y } }', '@namespace p;',
             '@import;', '@charset utf-8;', '@font-face { src: }', '@variables { c red }', '@foo { ( }',
             'a { color: red; top: 0 !imp }', 'a { (x): 1 }', '"str" { }', 'a { top: 0 } @import "late.css";',
             'a { top: 0 } @charset "utf-8";', 'a { top: 0 } @namespace late "http://l";',
             '@import "bad.css";']
SELECTORS_GOOD = ['a', 'b > c', 'p|x', '*|y', '.k #i[a="b"]', 'h1:hover::first-line', 'a:not(.b)', 'li:nth-child(2n+1)',
                  'a /*c*/ b', '|z']
SELECTORS_BAD = ['', 'a >', '> a', 'zz|a', 'a,,b', 'a[', 'a:not(', '$', 'a b {', '@x', 'a::', 'a..b', ':not(:not(a))x(']
MQ_GOOD = ['print', 'screen', 'all', 'tv', 'only screen and (min-width: 10px)', 'not print',
           'screen and (color) and (max-width: 5em)', '(min-width: 1px)', 'handheld', 'PRINT']
MQ_BAD = ['', 'foo', 'print and', 'screen and (', 'and', 'only', 'print screen', '/*c*/', '(', 'print,', '3d']
NAMES_GOOD = ['color', 'top', 'left', 'margin', 'background', 'font-family', 'COLOR', 'c\\olor', 'x-unknown', 'width']
NAMES_BAD = ['', '1x', 'a b', '$', 'color:', '(x)', '/*c*/']
VALUES_GOOD = ['red', '0', '1px 2px', 'rgb(1, 2, 3)', '#fff', 'url(x.png) no-repeat', '"A", serif', 'calc(1px + 2px)',
               'var(c)', '1.5em', '-1px', '50%', 'inherit', 'attr(x)', 'U+26', 'progid:DXImageTransform.x(a=1)',
               'hsl(1, 2%, 3%)', 'rgba(1, 2, 3, 0.5)']
VALUES_BAD = ['', '/*c*/', '$', 'red;', 'rgb(1,2', 'rgb(1,2%,3)', '(', 'a {', 'red !important', '1px,,2px', '"x',
              'url(', ')', 'calc(1px +', 'var(', 'hsl(1,2,3)', '1..2', '{}', '1px /* c */ $']
PRIO_GOOD = ['', 'important', '!important', '! important', 'IMPORTANT', None]
PRIO_BAD = ['x', '!x', '!', 'important!', '!important x', '$', '! /*c*/']
ENC_GOOD = ['utf-8', 'ascii', 'latin-1', 'UTF-8', None]
ENC_BAD = ['x-nope', '"utf-8"', 'utf 8', '$', '1']
URIS = ['http://p', 'http://d', 'http://q', 'http://new', '']
PREFIXES_GOOD = ['p', 'q', 'n', '', None]
PREFIXES_BAD = ['1x', 'a b', '$', 'p|']
MARGINS_GOOD = ['@top-left', '@bottom-center', '@TOP-RIGHT', '@left-middle']
MARGINS_BAD = ['@foo', 'top-left', '', '@media', '$']
STYLE_DECLS_GOOD = ['color: red', 'top: 0; left: 1px !important', '', 'margin: 1px 2px; /*c*/ color: #fff',
                    'font: 12px/1.5 "A", serif; width: calc(1px + 2px)']
STYLE_DECLS_BAD = ['color: red; $x: 1', 'color', 'color: ; top: 0', 'top: 0; left: 1px !imp', '(x): 1; top: 0',
                   'top: 0; color: rgb(1,2', 'a { }', 'top: 0 } x', 'color: red; top', ': red']
VAR_DECLS_GOOD = ['c: red; w: 1px', 'a: 1', 'x: url(u.png); y: "s"']
VAR_DECLS_BAD = ['c red', 'c: ; w: 1px', 'c: red; $: 1', '1: 2', 'c: red; w']
PAGE_SEL_GOOD = ['', ':first', ':left', 'nm', 'nm:right']
PAGE_SEL_BAD = [':first :left', 'a b', '$', ':', 'nm::first', '1x', ':first x']
ATKEY = ['@foo', '@bar', '@media', '@import']


def pick(rng, xs):
    return xs[rng.randrange(len(xs))]


def good_rule(rng, kinds=None):
    k = pick(rng, kinds or ['style', 'style', 'media', 'page', 'fontface', 'comment', 'unknown'])
    return pick(rng, GOOD[k])


def sheet_text(rng, rich=True):
    """a well-formed sheet with the rule kinds in a legal order"""
    parts = []
    if rng.random() < 0.5:
        parts.append(pick(rng, GOOD['charset']))
    if rng.random() < 0.4:
        parts.append('/* top */')
    for _ in range(rng.randrange(0, 3)):
        parts.append(pick(rng, GOOD['import']))
    ns = []
    if rich or rng.random() < 0.7:
        ns = ['@namespace p "http://p";']
        if rng.random() < 0.5:
            ns.append(pick(rng, ['@namespace "http://d";', '@namespace q url(http://q);', '@namespace r "http://p";']))
    parts += ns
    if rng.random() < 0.5:
        parts.append(pick(rng, GOOD['variables']))
    n = rng.randrange(1, 6)
    for _ in range(n):
        r = good_rule(rng)
        if 'p|' in r and not ns:
            continue
        parts.append(r)
    if ns and rng.random() < 0.7:
        parts.append('p|x { left: 0 }')
    return '\n'.join(parts)


def rejected_text(rng, goods, bads, sep='\n', k=None):
    """`k` good parts, then a bad one, then possibly more good ones — rejected at stage k"""
    k = rng.randrange(0, 4) if k is None else k
    parts = [pick(rng, goods) for _ in range(k)] + [pick(rng, bads)]
    if rng.random() < 0.4:
        parts.append(pick(rng, goods))
    return sep.join(parts), k


def inner_rules(rng, n):
    return ' '.join(pick(rng, ['a { top: 0 }', 'b, c { left: 1px }', '/*c*/', '@page { margin: 0 }', 'e > f { color: red }'])
                    for _ in range(n))


# -- inputs per mutator ---------------------------------------------------------------------------------
def inputs(mutator, rng, n):  # noqa: C901
    """-> list of (args, kind tag); a mix of accepted inputs and inputs rejected at various stages"""
    out = []
    cls, member = mutator.split('.')

    def add(args, tag):
        out.append((list(args), tag))

    for _ in range(n):
        bad = rng.random() < 0.7
        if mutator in ('CSSStyleSheet.cssText', 'CSSStyleSheet._setCssTextWithEncodingOverride'):
            if bad:
                kinds = ['style', 'style', 'media', 'page', 'fontface', 'comment', 'unknown']
                k = rng.randrange(0, 4)
                pre = ['@namespace p "http://p";'] if rng.random() < 0.5 else []
                parts = pre + [good_rule(rng, kinds) for _ in range(k)] + [pick(rng, BAD_RULES)]
                if rng.random() < 0.4:
                    parts.append(good_rule(rng, kinds))
                parts = [x for x in parts if 'p|' not in x or pre]
                t, tag = '\n'.join(parts), 'bad@%d' % k
            else:
                t, tag = sheet_text(rng), 'good'
            if member == 'cssText':
                add([t], tag)
            else:
                add([t, pick(rng, [None, 'ascii', 'x-nope']), pick(rng, [None, 'utf-8', 'latin-1'])], tag)
        elif member in ('insertRule', 'add') and cls in ('CSSStyleSheet', 'CSSMediaRule', 'CSSPageRule'):
            r = rng.random()
            if r < 0.25:
                rule = {'obj': pick(rng, ['CSSStyleRule', 'CSSImportRule', 'CSSCharsetRule', 'CSSNamespaceRule',
                                          'CSSNamespaceRule', 'CSSNamespaceRule',
                                          'CSSMediaRule', 'CSSPageRule', 'CSSFontFaceRule', 'CSSComment',
                                          'CSSUnknownRule', 'MarginRule', 'CSSVariablesRule', 'CSSImportRuleBad'])}
                tag = 'obj:' + rule['obj']
                if rule['obj'] == 'CSSNamespaceRule' and rng.random() < 0.8:
                    # same / other prefix x same / other URI as the namespaces the generated sheets declare
                    rule['kw'] = {'prefix': pick(rng, ['p', 'q', 'r', 'n', '']),
                                  'namespaceURI': pick(rng, ['http://p', 'http://d', 'http://q', 'http://n'])}
                    tag = 'obj:CSSNamespaceRule:%s' % ('same' if rule['kw']['prefix'] == 'p' else 'other')
            elif r < 0.4:
                k = rng.randrange(1, 3)
                goods = [pick(rng, ['a { top: 0 }', 'b { left: 0 }', '/*c*/', '@media print { a { top: 0 } }'])
                         for _ in range(k)]
                badr = pick(rng, ['@import "late.css";', '@charset "utf-8";', '@namespace n "http://n";',
                                  '@font-face { src: url(x) }', '@page { margin: 0 }', '@top-left { color: red }'])
                rule = {'rulelist': ' '.join(goods), 'then': badr}
                tag = 'rulelist@%d' % k
            elif r < 0.7:
                rule = pick(rng, BAD_RULES + ['@charset "utf-8";', '@import "late.css";', '@namespace n "http://n";',
                                              '@namespace p "http://other";', 'a { top: 0 } b { top: 1px }', '',
                                              '@top-left { color: red }'])
                tag = 'text-bad'
            else:
                rule = pick(rng, sum(GOOD.values(), []) + ['@top-left { color: red }', '@import "bad.css";'])
                tag = 'text-good'
            if member == 'add':
                add([rule], 'add:' + tag)
            else:
                idx = pick(rng, [None, 0, 1, 2, 3, -1, 99, 'len'])
                add([rule, idx], tag + (':idx=%s' % idx))
        elif member == 'deleteRule':
            add([pick(rng, [0, 1, 2, -1, 5, 99, -99, {'rule_at': 0}, {'rule_at': 1}, {'obj': 'CSSStyleRule'}])],
                'delete')
        elif mutator == 'CSSStyleSheet.encoding' or mutator == 'CSSCharsetRule.encoding':
            add([pick(rng, ENC_BAD if bad else ENC_GOOD)], 'enc:' + ('bad' if bad else 'good'))
        elif mutator == '_Namespaces.__setitem__':
            add([pick(rng, PREFIXES_GOOD + PREFIXES_BAD + ['p', 'p']), pick(rng, URIS)], 'ns-set')
        elif mutator == '_Namespaces.__delitem__':
            add([pick(rng, ['p', 'q', '', 'nope', 'r'])], 'ns-del')
        elif mutator == 'CSSCharsetRule.cssText':
            add([pick(rng, ['@charset "x-nope";', '@charset utf-8;', '@charset "utf-8"', 'a{}', '@charset "utf-8"; a{}',
                            '@import "x";', '@charset "";'] if bad else GOOD['charset'])], 'charset')
        elif mutator == 'CSSComment.cssText':
            add([pick(rng, ['x', '/* a */ /* b */', '/* open', '', 'a{}', '/* a */ x'] if bad
                      else ['/* new */', '/**/'])], 'comment')
        elif mutator == 'CSSFontFaceRule.cssText':
            if bad:
                t, k = rejected_text(rng, ['font-family: x', 'src: url(a.ttf)', 'font-weight: bold'],
                                     ['$x: 1', 'src: ', 'src', '(x): y'], sep='; ')
                add([pick(rng, ['@font-face { %s }' % t, '@font-face { %s } x' % t, '@font-face %s' % t,
                                '@media print { }', 'a { }'])], 'fontface-bad@%d' % k)
            else:
                add([pick(rng, GOOD['fontface'] + ['@font-face { font-family: y }'])], 'fontface-good')
        elif member == 'style':
            if rng.random() < 0.3:
                add([{'obj': 'CSSStyleDeclaration', 'kw': {'cssText': pick(rng, STYLE_DECLS_GOOD)}}], 'style-obj')
            elif bad:
                add([pick(rng, STYLE_DECLS_BAD)], 'style-bad')
            else:
                add([pick(rng, STYLE_DECLS_GOOD)], 'style-good')
        elif mutator == 'CSSImportRule.cssText':
            add([pick(rng, ['@import;', '@import "x.css" foo;', '@import "x.css" print and;', '@import url(;',
                            '@import "x.css" print "n" x;', '@import "bad.css";', '@import "bad2.css" tv;', 'a{}',
                            '@import "x.css" print', '@import "x.css"; a{}', '@import "x.css" zz;',
                            '@import "i1.css" print, foo;'] if bad else GOOD['import'] + ['@import "missing.css";'])],
                'import-' + ('bad' if bad else 'good'))
        elif mutator == 'CSSImportRule.href':
            add([pick(rng, ['i1.css', 'bad.css', 'missing.css', 'x/i2.css', '', None, 'bad3.css'])], 'href')
        elif member == 'media':
            if rng.random() < 0.3:
                add([{'obj': 'MediaList', 'kw': {'mediaText': pick(rng, MQ_GOOD)}}], 'media-obj')
            else:
                t, k = rejected_text(rng, MQ_GOOD, MQ_BAD, sep=', ') if bad else (', '.join(
                    pick(rng, MQ_GOOD) for _ in range(rng.randrange(1, 3))), 0)
                add([t], 'media-%s@%d' % ('bad' if bad else 'good', k))
        elif member == 'name':
            if cls == 'Property':
                add([pick(rng, NAMES_BAD if bad else NAMES_GOOD)], 'pname')
            else:
                add([pick(rng, ['nm', '', None, 'a b', 3, ['x']])], 'name')
        elif mutator == 'CSSMediaRule.cssText':
            if bad:
                k = rng.randrange(0, 4)
                inner = inner_rules(rng, k) + ' ' + pick(rng, [
                    '$$$ {', 'a { color: }', '@import "x.css";', '@charset "x";', '@namespace n "u";', 'zz|b { top: 0 }',
                    'a { top }', '@font-face { src: url(x) }', '@page :first :left { }', 'a {{ }',
                    '@media print { a { top: } }', '@variables { a: 1 }'])
                if rng.random() < 0.4:
                    inner += ' ' + inner_rules(rng, 1)
                mq = pick(rng, MQ_GOOD + (MQ_BAD if rng.random() < 0.25 else []))
                add([pick(rng, ['@media %s { %s }', '@media %s { %s } x', '@media %s "nm" { %s }']) % (mq, inner)],
                    'media-bad@%d' % k)
            else:
                add([pick(rng, GOOD['media'] + ['@media tv { }', '@media print "nm" { a { top: 0 } }'])], 'media-good')
        elif mutator == 'CSSNamespaceRule.cssText':
            add([pick(rng, ['@namespace;', '@namespace p;', '@namespace p "u" x;', '@namespace 1 "u";', 'a{}',
                            '@namespace p q "u";', '@namespace p "http://other";', '@namespace n "http://p";',
                            '@namespace "http://p"', '@namespace p "http://p";', '@namespace q "http://q";'])], 'nsrule')
        elif member == 'namespaceURI':
            add([pick(rng, URIS)], 'nsuri')
        elif member == 'prefix':
            add([pick(rng, PREFIXES_BAD if bad else PREFIXES_GOOD)], 'prefix')
        elif mutator == 'CSSPageRule.cssText':
            if bad:
                k = rng.randrange(0, 3)
                body = '; '.join(pick(rng, ['margin: 0', 'size: a4', '@top-left { content: "x" }',
                                            '@bottom-center { color: red }']) for _ in range(k))
                body += ('; ' if body else '') + pick(rng, ['$x: 1', 'margin: ', '@top-left { color: $$ }',
                                                            '@top-left { color: red; (x): 1 }', 'margin', '(x): 1',
                                                            '@top-foo { }'])
                if rng.random() < 0.4:
                    body += '; size: a3; @top-right { top: 0 }'
                add([pick(rng, ['@page %s { %s }', '@page %s { %s } x', '@page %s %s']) %
                     (pick(rng, PAGE_SEL_GOOD + PAGE_SEL_BAD[:2]), body)], 'page-bad@%d' % k)
            else:
                add([pick(rng, GOOD['page'])], 'page-good')
        elif member == 'selectorText':
            if cls == 'CSSPageRule':
                add([pick(rng, PAGE_SEL_BAD if bad else PAGE_SEL_GOOD)], 'pagesel')
            elif cls == 'Selector':
                add([pick(rng, SELECTORS_BAD if bad else SELECTORS_GOOD)], 'sel-' + ('bad' if bad else 'good'))
            else:
                t, k = rejected_text(rng, SELECTORS_GOOD, SELECTORS_BAD, sep=', ') if bad else (', '.join(
                    pick(rng, SELECTORS_GOOD) for _ in range(rng.randrange(1, 4))), 0)
                add([t], 'sellist-%s@%d' % ('bad' if bad else 'good', k))
        elif mutator in ('CSSPageRule.__setitem__',):
            add([pick(rng, ['@top-left', '@bottom-center', '@top-right', '@foo']),
                 pick(rng, STYLE_DECLS_BAD if bad else STYLE_DECLS_GOOD)], 'page-setitem')
        elif mutator in ('CSSPageRule.__delitem__',):
            add([pick(rng, ['@top-left', '@bottom-center', '@nope'])], 'page-delitem')
        elif mutator == 'MarginRule.cssText':
            if bad:
                t, k = rejected_text(rng, ['color: red', 'top: 0', 'content: "x"'], ['$x: 1', 'color: ', 'top', '(x): 1'],
                                     sep='; ')
                add([pick(rng, ['@top-left { %s }' % t, '@foo { %s }' % t, '/*c*/', '@top-left %s' % t, 'a { }',
                                '@top-left { %s } x' % t])], 'margin-bad@%d' % k)
            else:
                add([pick(rng, ['@top-left { color: red }', '@bottom-center { top: 0; left: 1px }', '@top-right { }'])],
                    'margin-good')
        elif member == 'margin':
            add([pick(rng, MARGINS_BAD if bad else MARGINS_GOOD)], 'margin')
        elif mutator == 'CSSStyleRule.cssText':
            if bad:
                t, k = rejected_text(rng, ['color: red', 'top: 0', 'left: 1px !important'],
                                     ['$x: 1', 'color: ', 'top', 'left: 1px !imp', 'color: rgb(1,2'], sep='; ')
                sel = pick(rng, SELECTORS_GOOD[:6] + SELECTORS_BAD[1:5])
                add([pick(rng, ['%s { %s }', '%s { %s } x', '%s %s', '%s {{ %s }', '@media print { %s { %s } }']) %
                     (sel, t)], 'stylerule-bad@%d' % k)
            else:
                add([pick(rng, GOOD['style'])], 'stylerule-good')
        elif member == 'selectorList':
            add([{'obj': 'SelectorList', 'kw': {'selectorText': pick(rng, SELECTORS_GOOD)}}], 'sellist-obj')
        elif mutator == 'CSSUnknownRule.cssText':
            add([pick(rng, ['@foo { ( }', '@foo "x', '@bar x;', '@foo x; y', 'a{}', '@foo {', '@foo x } ;', '@foo [ );',
                            '@media print {}'] if bad else ['@foo y;', '@foo { a: b }', '@foo a [b] (c) { d }'])],
                'unknown')
        elif mutator == 'CSSVariablesRule.cssText':
            t = pick(rng, VAR_DECLS_BAD if bad else VAR_DECLS_GOOD)
            add([pick(rng, ['@variables { %s }', '@variables { %s } x', '@variables %s'] if bad
                      else ['@variables { %s }']) % t], 'varrule')
        elif member == 'variables':
            if rng.random() < 0.3:
                add([{'obj': 'CSSVariablesDeclaration', 'kw': {'cssText': pick(rng, VAR_DECLS_GOOD)}}], 'vars-obj')
            else:
                add([pick(rng, VAR_DECLS_BAD if bad else VAR_DECLS_GOOD)], 'vars')
        elif mutator == 'CSSVariablesDeclaration.cssText':
            add([pick(rng, VAR_DECLS_BAD if bad else VAR_DECLS_GOOD)], 'vardecl')
        elif mutator in ('CSSVariablesDeclaration.setVariable', 'CSSVariablesDeclaration.__setitem__'):
            add([pick(rng, ['c', 'w', 'n', 'C', '1x', 'a b', '']), pick(rng, VALUES_BAD if bad else VALUES_GOOD)],
                'setvar')
        elif mutator in ('CSSVariablesDeclaration.removeVariable', 'CSSVariablesDeclaration.__delitem__'):
            add([pick(rng, ['c', 'w', 'nope', 'C'])], 'rmvar')
        elif mutator == 'CSSStyleDeclaration.cssText':
            if bad:
                t, k = rejected_text(rng, ['color: red', 'top: 0', 'left: 1px !important', '/*c*/'],
                                     ['$x: 1', 'color: ', 'top', 'left: 1px !imp', 'color: rgb(1,2', '(x): 1', 'a { }'],
                                     sep='; ')
                add([t], 'decl-bad@%d' % k)
            else:
                add([pick(rng, STYLE_DECLS_GOOD)], 'decl-good')
        elif mutator in ('CSSStyleDeclaration.setProperty',):
            if rng.random() < 0.15:
                add([{'obj': 'Property', 'kw': {'name': pick(rng, NAMES_GOOD), 'value': pick(rng, VALUES_GOOD)}}],
                    'setprop-obj')
            else:
                which = rng.randrange(3) if bad else -1
                add([pick(rng, NAMES_BAD if which == 0 else NAMES_GOOD),
                     pick(rng, VALUES_BAD if which == 1 else VALUES_GOOD),
                     pick(rng, PRIO_BAD if which == 2 else PRIO_GOOD),
                     pick(rng, [True, True, False]), pick(rng, [True, True, False])], 'setprop-bad%d' % which)
        elif mutator in ('CSSStyleDeclaration.__setitem__', 'CSSStyleDeclaration._setP'):
            v = pick(rng, VALUES_BAD if bad else VALUES_GOOD)
            if member == '__setitem__' and rng.random() < 0.3:
                v = (v, pick(rng, PRIO_BAD + PRIO_GOOD))
                v = {'tuple': list(v)}
            add([pick(rng, NAMES_GOOD + NAMES_BAD[:2]), v], 'setitem')
        elif mutator in ('CSSStyleDeclaration.removeProperty', 'CSSStyleDeclaration.__delitem__',
                         'CSSStyleDeclaration._delP'):
            add([pick(rng, NAMES_GOOD + ['nope'])], 'rmprop')
        elif mutator == 'Property.cssText':
            which = rng.randrange(4) if bad else -1
            n_ = pick(rng, NAMES_BAD if which == 0 else NAMES_GOOD)
            v = pick(rng, VALUES_BAD if which == 1 else VALUES_GOOD)
            p = pick(rng, PRIO_BAD if which == 2 else ['', '!important', '! IMPORTANT'])
            t = '%s: %s %s' % (n_, v, p or '')
            if which == 3:
                t = pick(rng, ['color red', ': red', 'color:', 'color: red; top: 0', '', 'color: red !important !important'])
            add([t], 'prop-bad%d' % which)
        elif member in ('propertyValue', 'value', 'cssValue') or mutator in ('PropertyValue.cssText',):
            add([pick(rng, VALUES_BAD if bad else VALUES_GOOD)], 'value-' + ('bad' if bad else 'good'))
        elif member == 'priority':
            add([pick(rng, PRIO_BAD if bad else PRIO_GOOD)], 'prio-' + ('bad' if bad else 'good'))
        elif cls in ('Value', 'ColorValue', 'DimensionValue', 'URIValue', 'CSSFunction', 'CSSCalc', 'CSSVariable',
                     'MSValue'):
            add([pick(rng, VALUES_BAD + VALUES_GOOD)], 'single-value')
        elif mutator in ('SelectorList.appendSelector', 'SelectorList.append'):
            add([pick(rng, SELECTORS_BAD if bad else SELECTORS_GOOD)], 'appendsel')
        elif mutator == 'SelectorList.__delitem__':
            add([pick(rng, [0, 1, 5, -1])], 'sellist-delitem')
        elif member == 'cssRules':
            add([{'rulelist': pick(rng, ['a { top: 0 }', 'a { top: 0 } b { left: 0 }', '/*c*/', '']), 'then': ''}],
                'cssrules-obj')
        elif member == 'atkeyword':
            add([pick(rng, ['@import', '@IMPORT', '@im\\port', '@media', '@page', '@x', '@namespace', '@charset',
                            '@font-face', '@variables', '@top-left', ''])], 'atkeyword')
        elif mutator == 'SelectorList.__setitem__':
            add([pick(rng, [0, 1, 5, -1]), pick(rng, SELECTORS_BAD if bad else SELECTORS_GOOD)], 'sellist-setitem')
        elif mutator == 'MediaList.mediaText':
            t, k = rejected_text(rng, MQ_GOOD, MQ_BAD, sep=', ') if bad else (', '.join(
                pick(rng, MQ_GOOD) for _ in range(rng.randrange(1, 4))), 0)
            add([t], 'mediatext-%s@%d' % ('bad' if bad else 'good', k))
        elif mutator in ('MediaList.appendMedium', 'MediaList.append'):
            add([pick(rng, MQ_BAD if bad else MQ_GOOD)], 'appendmedium')
        elif mutator == 'MediaList.deleteMedium':
            add([pick(rng, ['print', 'tv', 'all', 'braille', 'foo', 'PRINT', 'screen'])], 'delmedium')
        elif mutator == 'MediaList.__setitem__':
            add([pick(rng, [0, 1, 5, -1]), pick(rng, MQ_BAD if bad else MQ_GOOD)], 'ml-setitem')
        elif mutator == 'MediaList.__delitem__':
            add([pick(rng, [0, 1, 5, -1])], 'ml-delitem')
        elif mutator == 'MediaQuery.mediaText':
            add([pick(rng, MQ_BAD if bad else MQ_GOOD)], 'mq')
        elif mutator == 'MediaQuery.mediaType':
            add([pick(rng, ['print', 'tv', 'foo', '', 'ALL', 'all'])], 'mqtype')
        else:
            raise KeyError('no input generator for ' + mutator)
    return out
