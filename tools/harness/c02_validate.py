"""C02: where the `validate` flag of the parser enters the code (translator for Gen/C02Validate.lean).

The flag travels as `validating` (CSSParser.parseString -> CSSStyleSheet(validating=) -> StyleSheet.validating ->
CSSStyleDeclaration.validating -> Property._isValidating()).  Every READ of it in the package is listed with a role
decided from the AST alone:

  0 plumbing   the value is only handed on: right-hand side of an assignment to an attribute / keyword argument named
               `validating` / `_validating`, the `return` of an accessor (`_getValidating`, `_isValidating`), the
               `is not None` test inside `_getValidating`
  1 log-only   the read is (part of) the test of an `if` whose body consists of expression statements that are
               `self._log.<level>(..., neverraise=True)` or `self.validate()`, and whose `else` is empty / `pass`
  2 other      anything else: the flag could change what is built

and `Property.validate` itself is scanned: assignments / deletions whose target is not a local name, `raise`
statements, `self._log` calls without `neverraise=True`.  The Lean side proves (by evaluation of the regenerated
table) that there is no role-2 read and that `validate` has none of the three, which is the premise under which the
structure model has no `validate` parameter.
"""
import ast
import hashlib
import os

FLAG_NAMES = ('validating', '_validating', '_validate')
ACCESSORS = ('_getValidating', '_isValidating')


PARAM_FILES = {'validate': ('cssutils/parse.py',),
               'validating': ('cssutils/parse.py', 'cssutils/css/cssstylesheet.py', 'cssutils/css/cssstyledeclaration.py',
                              'cssutils/stylesheets/stylesheet.py')}


def _is_flag_read(node, rel=''):
    if isinstance(node, ast.Attribute) and node.attr in FLAG_NAMES and isinstance(node.ctx, ast.Load):
        return True
    # the parameter that carries the option (a plain name), in the files that hand it on
    if isinstance(node, ast.Name) and isinstance(node.ctx, ast.Load) and rel in PARAM_FILES.get(node.id, ()):
        return True
    if isinstance(node, ast.Call) and isinstance(node.func, ast.Attribute) and node.func.attr == '_isValidating':
        return True
    return False


def _log_only_stmt(st):
    if isinstance(st, ast.Pass):
        return True
    if not isinstance(st, ast.Expr) or not isinstance(st.value, ast.Call):
        return False
    call = st.value
    f = call.func
    if isinstance(f, ast.Attribute) and f.attr == 'validate' and isinstance(f.value, ast.Name) and f.value.id == 'self' \
            and not call.args and not call.keywords:
        return True
    if isinstance(f, ast.Attribute) and isinstance(f.value, ast.Attribute) and f.value.attr == '_log':
        return any(k.arg == 'neverraise' and isinstance(k.value, ast.Constant) and k.value.value is True
                   for k in call.keywords)
    return False


class _Scan(ast.NodeVisitor):
    def __init__(self, relpath):
        self.rel = relpath
        self.stack = []      # enclosing nodes
        self.sites = []

    def generic_visit(self, node):
        self.stack.append(node)
        super().generic_visit(node)
        self.stack.pop()

    def visit(self, node):
        if _is_flag_read(node, self.rel):
            # `validate` / `validating` as plain names are parameters handed on (parse.py, __init__)
            self.sites.append((self.rel, node.lineno, self._func(), self._role(node)))
            if isinstance(node, ast.Call):
                return          # do not descend into self._isValidating
        return super().visit(node)

    def _func(self):
        names = [n.name for n in self.stack if isinstance(n, (ast.FunctionDef, ast.ClassDef))]
        return '.'.join(names) or '<module>'

    def _role(self, node):
        parent = self.stack[-1] if self.stack else None
        fn = next((n for n in reversed(self.stack) if isinstance(n, ast.FunctionDef)), None)
        # handed on
        if isinstance(parent, ast.keyword) and parent.arg in ('validating', 'validate'):
            return 0
        if isinstance(parent, ast.Assign) and parent.value is node and all(
                (isinstance(t, ast.Attribute) and t.attr in FLAG_NAMES) or
                (isinstance(t, ast.Name) and t.id in ('validating', 'validate')) for t in parent.targets):
            return 0
        if isinstance(parent, ast.Return) and fn is not None and fn.name in ACCESSORS:
            return 0
        if isinstance(parent, ast.Call) and node in parent.args and isinstance(node, ast.Name):
            # positional hand-over of the parameter (parse.py: self.__parseString(..., validate))
            return 0
        if fn is not None and fn.name in ACCESSORS and isinstance(parent, ast.Compare) and \
                len(parent.ops) == 1 and isinstance(parent.ops[0], (ast.IsNot, ast.Is)):
            return 0
        if fn is not None and fn.name.lstrip('_').startswith('parse') and isinstance(parent, ast.Compare) and \
                isinstance(node, ast.Name) and len(parent.ops) == 1 and isinstance(parent.ops[0], ast.Is):
            return 0            # `if validate is None: validate = self._validate` (parse.py)
        # guard of an if
        for anc in reversed(self.stack):
            if isinstance(anc, ast.If) and any(n is node for n in ast.walk(anc.test)):
                ok = all(_log_only_stmt(s) for s in anc.body) and all(_log_only_stmt(s) for s in anc.orelse)
                return 1 if ok else 2
            if isinstance(anc, (ast.FunctionDef, ast.ClassDef)):
                break
        return 2


def scan_validate_body(src):
    """(assignments/deletions to non-locals, raise statements, self._log calls without neverraise=True) in
    Property.validate"""
    tree = ast.parse(src)
    fn = None
    for cls in ast.walk(tree):
        if isinstance(cls, ast.ClassDef) and cls.name == 'Property':
            for st in cls.body:
                if isinstance(st, ast.FunctionDef) and st.name == 'validate':
                    fn = st
    if fn is None:
        raise ValueError('Property.validate not found')
    nonlocal_stores = raises = loud_logs = 0
    for n in ast.walk(fn):
        if isinstance(n, (ast.Assign, ast.AugAssign, ast.AnnAssign, ast.Delete)):
            targets = n.targets if isinstance(n, (ast.Assign, ast.Delete)) else [n.target]
            for t in targets:
                for leaf in ([t] if not isinstance(t, (ast.Tuple, ast.List)) else t.elts):
                    if not isinstance(leaf, ast.Name):
                        nonlocal_stores += 1
        elif isinstance(n, (ast.Global, ast.Nonlocal)):
            nonlocal_stores += 1
        elif isinstance(n, ast.Raise):
            raises += 1
        elif isinstance(n, ast.Call) and isinstance(n.func, ast.Attribute) and isinstance(n.func.value, ast.Attribute) \
                and n.func.value.attr == '_log':
            if not any(k.arg == 'neverraise' and isinstance(k.value, ast.Constant) and k.value.value is True
                       for k in n.keywords):
                loud_logs += 1
    return nonlocal_stores, raises, loud_logs


def flag_sites(repo):
    root = os.path.join(repo, 'cssutils')
    out = []
    digest = hashlib.sha256()
    for dp, dn, fn in os.walk(root):
        dn[:] = sorted(d for d in dn if d not in ('tests', '__pycache__'))
        for f in sorted(fn):
            if not f.endswith('.py'):
                continue
            path = os.path.join(dp, f)
            src = open(path, encoding='utf-8').read()
            if 'alidat' not in src:
                continue
            rel = os.path.relpath(path, repo)
            sc = _Scan(rel)
            sc.visit(ast.parse(src))
            if sc.sites:
                digest.update(src.encode())
            out.extend(sc.sites)
    return out, digest.hexdigest()


def gen_lean(repo):
    sites, h = flag_sites(repo)
    sites.sort()
    body = scan_validate_body(open(os.path.join(repo, 'cssutils/css/property.py'), encoding='utf-8').read())
    rows = ['  ("%s", %d, "%s", %d)%s' % (f, ln, fn, role, ',' if i < len(sites) - 1 else '')
            for i, (f, ln, fn, role) in enumerate(sites)]
    lines = ['-- GENERATED by tools/harness/c02_validate.py from the sources that read the `validating` flag (sha256 %s)' % h,
             '-- role: 0 = the flag is handed on, 1 = guard of log-only statements, 2 = anything else',
             'namespace CssVerif.Gen.C02',
             'def flagSites : List (String × Nat × String × Nat) := ['] + rows + [
             ']',
             '/-- `Property.validate`: (stores to non-locals, raise statements, log calls without neverraise=True) -/',
             'def validateBody : Nat × Nat × Nat := (%d, %d, %d)' % body,
             'end CssVerif.Gen.C02', '']
    return '\n'.join(lines)


if __name__ == '__main__':
    import sys
    print(gen_lean(sys.argv[1] if len(sys.argv) > 1 else '/repo'))
