"""C03 content stream: token texts for strings / URLs / identifiers / comments over the whole character range,
a unit-level reading of a token text that is INDEPENDENT of cssutils and of the Lean model (used for the region
predicates of the known findings and by the oracle's expected values), and the stored-value classes.
"""
HEX = '0123456789abcdefABCDEF'
NL = '\n\r\f'
TERMS = ['', ' ', '\t', '\n', '\r\n', '\r', '\f']

# characters used as plain content; chosen to hit every class the code distinguishes
PLAIN = list('agzAGZ019 -_()*/;,:.#%!@[]{}<>=+~|^$&?') + ['\t', 'é', 'ß', '€', '\xa0', '\x85', ' ', '　',
                                                           '\U0001F600', '\U0010FFFF', '\x01', '\x08', '\x0b', '\x0e',
                                                           '\x1b', '\x1c', '\x7f', '\x80', '\ud800']
# code points written as hex escapes
ESC_NUMS = [0x5C, 0x22, 0x27, 0xA, 0xD, 0xC, 0x9, 0x20, 0x41, 0x61, 0x67, 0x31, 0x2D, 0x2A, 0x2F, 0x28, 0x29, 0x0, 0x1,
            0x7F, 0x80, 0xA0, 0xE9, 0x2028, 0xD800, 0xFFFF, 0x1F600, 0x10FFFF, 0x110000, 0xFFFFFF, 0x5C5C, 0x3B, 0x2C]
SIMPLE = list('gGzZ"\'()\\ ;,*/-_!.#{}:@') + ['é', '\t', '\x7f', '\U0001F600']


def hex_escape(rng, num):
    digits = '%x' % num
    if rng.random() < 0.4:
        digits = digits.upper()
    if rng.random() < 0.4:
        digits = '0' * rng.randint(0, 6 - len(digits)) + digits
    return '\\' + digits + rng.choice(TERMS)


def piece(rng, quote=None, kind='string'):
    """one lexical piece of token content. kind: string | url | ident | comment | raw"""
    r = rng.random()
    if r < 0.34:
        c = rng.choice(PLAIN)
        return c
    if r < 0.52:
        return hex_escape(rng, rng.choice(ESC_NUMS))
    if r < 0.62:
        return '\\\\'
    if r < 0.72:
        return '\\' + rng.choice(SIMPLE)
    if r < 0.78:
        return '\\' + rng.choice(['\n', '\r\n', '\r', '\f'])
    if r < 0.84:
        return rng.choice(['"', "'"])
    if r < 0.88:
        return rng.choice(NL)
    if r < 0.92:
        return '\\'
    if r < 0.96:
        return rng.choice(['41', 'a', '5c', '22 ', 'a ', 'd ', 'c '])
    return rng.choice(['*/', '/*', 'url(', ')', '\\5c', '\\a ', '\\22 '])


def raw_text(rng, maxlen=8):
    return ''.join(piece(rng, kind='raw') for _ in range(rng.randint(0, maxlen)))


# ------------------------------------------------------------------------------------------------
# independent reading of a token body into units (CSS 2.1 §4.1.3 as cssutils' macros spell it)
def units(body):
    """-> list of units: ('pair',) escaped backslash; ('hex', num, text); ('simple', ch); ('cont', text) backslash +
    line break; ('char', ch); ('bs',) a backslash at the very end."""
    out, i, n = [], 0, len(body)
    while i < n:
        c = body[i]
        if c != '\\':
            out.append(('char', c))
            i += 1
            continue
        if i + 1 == n:
            out.append(('bs',))
            i += 1
            continue
        d = body[i + 1]
        if d == '\\':
            out.append(('pair',))
            i += 2
        elif d in HEX:
            j = i + 1
            while j < n and j < i + 7 and body[j] in HEX:
                j += 1
            k = j
            if body[k:k + 2] == '\r\n':
                k += 2
            elif k < n and body[k] in '\t\r\n\f ':
                k += 1
            out.append(('hex', int(body[i + 1:j], 16), body[i:k]))
            i = k
        elif d in NL:
            k = i + 3 if body[i + 1:i + 3] == '\r\n' else i + 2
            out.append(('cont', body[i:k]))
            i = k
        else:
            out.append(('simple', d))
            i += 2
    return out


def is_escaped_bs(u):
    return u[0] == 'pair' or (u[0] == 'hex' and u[1] == 0x5C)


def _bs_then(us, nums):
    """an escaped backslash, then any number of line continuations, then one of `nums` written as a hex escape"""
    us = [u for u in us if u[0] != 'cont']
    return any(is_escaped_bs(a) and b[0] == 'hex' and b[1] in nums for a, b in zip(us, us[1:]))


def region_escaped_dquote(body, quote):
    """known finding C03-escaped-dquote: the stored value gets a double quote with a backslash before it:
    `\\"` inside a single-quoted string or an unquoted url(); or, in a double-quoted string, an escaped backslash
    directly followed by U+0022 written in hex"""
    us = units(body)
    if quote != '"':
        if any(u == ('simple', '"') for u in us):
            return True
    else:
        if _bs_then(us, (0x22,)):
            return True
    return False


# ------------------------------------------------------------------------------------------------
# stored-value classes (python mirror of the Lean predicate; compared with the driver on every case)
def _scan(v, string_mode):
    """first reason why helper.string(v) does not read back as v (as a STRING token when string_mode, as the quoted
    part of a URI token otherwise); None = safe"""
    i, n = 0, len(v)
    while i < n:
        c = v[i]
        if c != '\\':
            i += 1
            continue
        if i + 1 == n:
            return None
        d = v[i + 1]
        if d == '\\':
            if i + 2 == n:
                return 'trail'
            i += 2
        elif d in HEX:
            j = i + 1
            while j < n and j < i + 7 and v[j] in HEX:
                j += 1
            if int(v[i + 1:j], 16) <= 0x10FFFF:
                return 'bshex'
            i = j
        elif d in NL:
            return 'bsnl'
        elif d == '"':
            return 'dq'
        else:
            i += 2
    return None


def str_class(v):
    return _scan(v, True)


def is_ctrl(c):
    o = ord(c)
    return o <= 8 or 14 <= o <= 31 or o == 127


def is_space(c):
    return c.isspace()


FORBIDDEN = set('()\';,"')


def uri_quoted(v):
    return any(c in FORBIDDEN or c.isspace() or is_ctrl(c) for c in v)


def is_url_char(c):
    o = ord(c)
    return o == 9 or o == 0x21 or 0x23 <= o <= 0x26 or o == 0x28 or 0x2A <= o <= 0x7E or o >= 128


def uri_class(v):
    """first reason why helper.uri(v) does not read back as v; None = safe"""
    if uri_quoted(v):
        return _scan(v, False)
    # unquoted: only decodable hex escapes are changed on the way back
    i, n = 0, len(v)
    while i < n:
        if v[i] != '\\' or i + 1 == n:
            i += 1
            continue
        d = v[i + 1]
        if d == '\\':
            i += 2
        elif d in HEX:
            j = i + 1
            while j < n and j < i + 7 and v[j] in HEX:
                j += 1
            if int(v[i + 1:j], 16) <= 0x10FFFF:
                return 'bshex'
            i = j
        else:
            i += 2
    return None


# ------------------------------------------------------------------------------------------------
# token generators
def string_token(rng, maxlen=7, quote=None):
    """a well-formed STRING token text (quote, body)"""
    q = quote or rng.choice('"\'')
    parts = []
    for _ in range(rng.randint(0, maxlen)):
        for _try in range(20):
            p = piece(rng)
            if p in NL or p == q or p == '\\' or p in ('*/', '/*') and False:
                continue
            if q in p.replace('\\' + q, ''):
                continue
            if any(ch in NL for ch in p) and not p.startswith('\\'):
                continue
            parts.append(p)
            break
    body = ''.join(parts)
    return q, body


def url_unquoted_body(rng, maxlen=6):
    parts = []
    for _ in range(rng.randint(0, maxlen)):
        for _try in range(20):
            p = piece(rng)
            if p.startswith('\\'):
                if len(p) == 1 or p[1] in NL:
                    continue
                parts.append(p)
                break
            if all(is_url_char(ch) and ch not in '\\' for ch in p) and 'url(' not in p:
                parts.append(p)
                break
    return ''.join(parts)


IDENT_START = list('agzAGZ_') + ['é', '€', '\U0001F600', '\x80']
IDENT_CHARS = IDENT_START + list('019-')


def ident_text(rng, maxlen=5):
    """a well-formed IDENT token text, with escapes"""
    def esc(num_choices):
        r = rng.random()
        if r < 0.6:
            return hex_escape(rng, rng.choice(num_choices))
        return '\\' + rng.choice([c for c in SIMPLE if c not in HEX and c not in NL])
    s = rng.choice(['', '', '', '-', '--'])
    s += rng.choice(IDENT_START) if rng.random() < 0.6 else esc(ESC_NUMS)
    for _ in range(rng.randint(0, maxlen)):
        s += rng.choice(IDENT_CHARS) if rng.random() < 0.65 else esc(ESC_NUMS)
    return s


def comment_text(rng, maxlen=7):
    body = ''
    for _ in range(rng.randint(0, maxlen)):
        p = piece(rng, kind='comment')
        body += p
    body = body.replace('*/', '* /')
    if body.endswith('*') and False:
        body += ' '
    # `/*/` is not a comment start+end
    text = '/*' + body + '*/'
    return text
