"""C06 — serializer preferences do exactly what they document, in every combination.

model:   lean/CssVerif/Model/Out.lean, OutRules.lean, OutPrefs.lean (Out.append/value, the do_* methods, Preferences)
theorems: lean/CssVerif/Props/C06.lean
correspondence: (a) random `Out.append` scripts against the real `Out` class under random preference records;
  (b) `sheet.cssText` (text before encoding) impl vs model for generated sheets and the shipped sheets under the
  default record, every single preference, ALL PAIRS of preferences, the minified preset and random full records.
oracle (implementation only): no exception; layout preferences leave the non-whitespace token sequence unchanged;
  reparse projection = documented effect of the content preferences; useDefaults() restores the default output
  byte for byte after any assignment history.
"""
import glob
import itertools
import json
import logging
import os
import hashlib
import random
import re
import time

from lib.framework import Check, enc, dec, time_limit, TimeLimit
from lib import pool
from gen import c06_prefs
from harness import c06_extract as X
from harness import c06_gen as G
from harness import c06_oracle as O

ALT = {
    'indent': ['', ' ', '\t', '  '],
    'lineSeparator': ['', '\r\n', '\n\n'],
    'listItemSpacer': ['', '  ', '\t'],
    'paranthesisSpacer': ['', '  ', '\n'],
    'propertyNameSpacer': ['', '  '],
    'selectorCombinatorSpacer': ['', '  '],
    'spacer': ['', '  ', '\t'],
    'importHrefFormat': ['string', 'uri', 'other'],
}
# a separator that also occurs inside tokens: every case lands in the region of finding C06-indent-inside-token
ALT_RARE = {'lineSeparator': [' ']}
# the match operators that `*`, `|`, `^`, `$` followed by `=` fuse into (region of C06-op-equals-fusion; `~=` is
# not among them: the `~` gets its blanks from the `+>~` branch of Out.append, which d39f9c4 then sees)
FUSED_MATCH = {'SUBSTRINGMATCH': '*=', 'DASHMATCH': '|=', 'PREFIXMATCH': '^=', 'SUFFIXMATCH': '$='}
NO_KEYWORD_RULES = ('CSSMediaRule', 'CSSPageRule', 'CSSFontFaceRule', 'CSSVariablesRule')


def cssutils_mod():
    import cssutils
    cssutils.log.setLevel(logging.FATAL)
    return cssutils


class Impl:
    """everything that touches the process-global `cssutils.ser.prefs` goes through here and restores the defaults"""

    def __init__(self):
        self.cu = cssutils_mod()
        self.cu.setSerializer(self.cu.serialize.CSSSerializer())
        self.defaults = dict(vars(self.cu.serialize.Preferences()))
        m = self.cu.serialize.Preferences()
        m.useMinified()
        self.minified = dict(vars(m))
        self.parser = self.cu.CSSParser(fetcher=lambda url: (None, ''))

    def parse(self, src):
        with time_limit(20):
            return self.parser.parseString(src)

    def with_prefs(self, prefs, fn):
        p = self.cu.ser.prefs
        try:
            for k, v in prefs.items():
                setattr(p, k, v)
            return fn()
        finally:
            p.useDefaults()

    def serialize(self, sh, prefs, toks=None):
        """-> (result, line): result = ('OK', text, bytes, encoding) | ('ERR', class name, message);
        line = the model request (None if the DOM is not modelled)"""
        def go():
            line = None
            if toks is not None and not prefs['indentSpecificities']:
                line = 'sheet 0 ' + ' '.join(X.prefs_tokens(prefs)) + ' ' + X.finalize(toks, prefs['validOnly'])
            try:
                with time_limit(30):
                    bts = sh.cssText
            except TimeLimit:
                raise
            except Exception as e:       # the property says: never
                return ('ERR', type(e).__name__, str(e)), line
            encoding = 'UTF-8'
            try:
                encoding = sh.cssRules[0].encoding
            except (IndexError, AttributeError):
                pass
            return ('OK', bts.decode(encoding), bts, encoding), line
        return self.with_prefs(prefs, go)


class Probe:
    """stands in for the context in a dry run of the oracle: remembers only whether anything was reported"""

    def __init__(self):
        self.hit = False

    def violate(self, clause, witness, detail=None, known=None):
        self.hit = True


class Rec:
    """stands in for the context inside a pool worker: records what the harness reports, in order; the parent
    replays the record into the real context (`C06.par`). Model requests are answered by the worker's own driver
    process, so the (long) request lines never leave the worker."""

    def __init__(self, ctx):
        self._ctx = ctx
        self.events = []
        self.disagreements = []
        self.model_ok = ctx.model_ok
        self.search_mode = getattr(ctx, 'search_mode', False)
        self.verif = ctx.verif
        self.repo = ctx.repo
        self.traces = 0
        self._k = 0

    def n(self, quick, thorough):
        return self._ctx.n(quick, thorough)

    def case(self, key=None, nontrivial=True, sample=None, kind=None):
        self._k += 1
        self.events.append(('case', key, nontrivial, sample if self._k % 8 == 1 else None, kind))

    def count(self, kind, k=1):
        self.events.append(('count', kind, k))

    def violate(self, clause, witness, detail=None, known=None):
        self.events.append(('violate', clause, witness, detail, known))

    def disagree(self, what, inp, impl, model):
        self.disagreements.append(1)
        self.events.append(('disagree', what, inp, impl, model))

    def driver(self, lines):
        out = self._ctx.driver(lines)
        self.traces += len(lines)
        return out


def src_key(src):
    return hashlib.blake2b(src.encode('utf-8', 'surrogatepass'), digest_size=12).hexdigest()


def diff_prefs(prefs, defaults):
    return {k: v for k, v in sorted(prefs.items()) if v != defaults[k]}


def rule_kinds(sh):
    out = set()

    def walk(rs):
        for r in rs:
            out.add(type(r).__name__)
            if hasattr(r, 'cssRules'):
                walk(r.cssRules)
    walk(sh.cssRules)
    return out


class C06(Check):
    id = 'C06'
    props_module = 'CssVerif.Props.C06'
    driver_exe = 'drv_c06'
    sources = ('cssutils/serialize.py', 'cssutils/helper.py', 'cssutils/__init__.py')
    trusted_base = (
        'hand-written model of Out.append / Out.value / the do_* methods (lean/CssVerif/Model/Out*.lean), tied to '
        'cssutils/serialize.py by the byte-for-byte correspondence of this run',
        'translator tools/gen/c06_prefs.py (defaults, minified preset, preference reads), cross-checked with '
        'vars(Preferences()) of the working tree',
        'extraction tools/harness/c06_extract.py: preference-independent DOM queries are inputs of the model '
        '(namespace prefix lookup, _getUsedURIs, property.valid, variable lookup, float facts of numbers)',
    )
    assumptions = (
        'text.encode(encoding, "escapecss") (the last step of do_CSSStyleSheet) is outside C06 (C08)',
        'indentSpecificities (EXPERIMENTAL): its effect while switched on is not modelled; that nothing of it outlives '
        'the serialization of one sheet is (doSheet does not read the state) and is checked by the restore oracle',
    )
    rule = ('sheets: grammar generator (style/@media nested/@import/@namespace/@page+margin boxes/@font-face/@charset/'
            '@variables/unknown at-rules/comments at every level/values with hashes, numbers, strings, urls, functions, '
            'calc, var) + shipped sheets; preference records: default, each preference alone with each alternative '
            'value, ALL PAIRS of preferences, minified preset, random full records. A case = (sheet, record); '
            'non-trivial = its output differs from the default output of the same sheet (or it is the default record). '
            'append scripts: random call sequences over the punctuation/type vocabulary of Out.append.')

    # ------------------------------------------------------------------------------------------
    def translate(self, ctx):
        files, info = c06_prefs.files(ctx.repo)
        err = c06_prefs.crosscheck(ctx.repo, info)
        if err:
            raise RuntimeError('translator cross-check: %s' % err)
        names = [n for n, _ in info['defaults']]
        if sorted(names) != sorted(X.PREF_ORDER):
            raise RuntimeError('preference fields changed: %r' % (sorted(set(names) ^ set(X.PREF_ORDER)),))
        ctx.notes['prefs_documented'] = len(info['documented'])
        ctx.notes['prefs_defaulted'] = len(info['defaults'])
        ctx.notes['prefs_read'] = len(info['read'])
        ctx.notes['serializer_state_outside_prefs'] = info['serializer_state']
        return files

    # ------------------------------------------------------------------------------------------
    def run(self, ctx):
        im = Impl()
        self.im = im
        try:
            for part in (self.oracle_record, self.run_corpus, self.corr_append, self.run_pairs, self.run_namespaces, self.run_block_ends, self.run_cascade,
                         self.run_sheets, self.run_files, self.oracle_restore):
                t0 = time.time()
                ctx.phase(part, ctx, im)
                ctx.notes.setdefault('phase_s', {})[part.__name__] = round(time.time() - t0, 1)
        finally:
            im.cu.ser.prefs.useDefaults()

    # -- useDefaults() restores the record, whatever was assigned (needs no model) -------------------
    def oracle_record(self, ctx, im):
        P = im.cu.serialize.Preferences
        fresh = dict(vars(P()))
        for k in X.PREF_ORDER:
            alts = ALT.get(k, [True, False])
            for v in alts:
                p = P()
                setattr(p, k, v)
                p.useDefaults()
                ctx.case(key=('record', k, repr(v)), nontrivial=True, kind='record-restore')
                if dict(vars(p)) != fresh:
                    ctx.violate('useDefaults() does not restore the preference record',
                                {'history': ['%s = %r' % (k, v), 'useDefaults()']},
                                {'after': {a: b for a, b in vars(p).items() if fresh.get(a, None) != b}})
        p = P()
        p.useMinified()
        p.useDefaults()
        if dict(vars(p)) != fresh:
            ctx.violate('useDefaults() does not restore the preference record',
                        {'history': ['useMinified()', 'useDefaults()']}, None)
        # the documented constructor `Preferences(**initials)` assigns what it is given
        for k in X.PREF_ORDER:
            for v in ALT.get(k, [True, False]):
                ctx.case(key=('ctor', k, repr(v)), nontrivial=True, kind='record-constructor')
                q = P(**{k: v})
                if getattr(q, k) != v:
                    ctx.violate('Preferences(%s=%r) does not set the preference' % (k, v),
                                {'history': ['Preferences(%s=%r)' % (k, v)]}, {'value': getattr(q, k)})
        missing = [k for k in X.PREF_ORDER if k not in fresh]
        if missing:
            raise RuntimeError('preferences missing from a fresh record: %r' % missing)

    # -- preference records ----------------------------------------------------------------------
    def singles(self, im, rng=None):
        out = []
        for k in X.PREF_ORDER:
            if k in ALT:
                for v in ALT[k]:
                    out.append({k: v})
            else:
                out.append({k: not im.defaults[k]})
        return out

    def alt_value(self, im, k, rng):
        if k in ALT:
            # the empty string is the alternative that matters most for the spacers
            return ALT[k][0] if rng.random() < 0.6 else rng.choice(ALT[k])
        return not im.defaults[k]

    def pairs(self, im, rng):
        return [{a: self.alt_value(im, a, rng), b: self.alt_value(im, b, rng)}
                for a, b in itertools.combinations(X.PREF_ORDER, 2)]

    def random_record(self, im, rng):
        d = {}
        q = rng.choice([0.15, 0.3, 0.5])
        for k in X.PREF_ORDER:
            if rng.random() < q:
                d[k] = rng.choice(ALT[k]) if k in ALT else (not im.defaults[k])
        if rng.random() < 0.03:
            d['lineSeparator'] = ' '
        return d

    def full(self, im, d):
        p = dict(im.defaults)
        p.update(d)
        return p

    # -- many sheets in the process pool -----------------------------------------------------------
    def par(self, ctx, im, jobs):
        """jobs: dicts with the arguments of `check_sheet` (`rng` given as a seed). Each job — implementation runs,
        oracles, model requests and their comparison — runs in a forked worker against a recording context; the
        records are replayed here in job order, so the run is deterministic for a seed. A job whose worker hung or
        died is run once more in this process, where a time limit or exception surfaces as it did before."""
        def work(job):
            rec = Rec(ctx)
            try:
                rng = random.Random(job['seed']) if job.get('seed') is not None else None
                pending = self.check_sheet(rec, im, job['src'], job['records'], job['kind'],
                                           oracle_share=job.get('oracle_share', 1.0), rng=rng,
                                           roundtrip=job.get('roundtrip', True))
                self.flush(rec, pending)
            finally:
                im.cu.ser.prefs.useDefaults()
            return rec.events, rec.traces

        if len(jobs) < 4:
            results = [(j, ('inline', None)) for j in jobs]
        else:
            results = pool.run_cases(work, jobs, nproc=min(8, max(2, (os.cpu_count() or 4) // 2)), timeout=300.0)
        for job, res in results:
            if res[0] != 'ok':
                if res[0] != 'inline':
                    ctx.count('pool-job-rerun-inline:' + res[0])
                rng = random.Random(job['seed']) if job.get('seed') is not None else None
                self.flush(ctx, self.check_sheet(ctx, im, job['src'], job['records'], job['kind'],
                                                 oracle_share=job.get('oracle_share', 1.0), rng=rng,
                                                 roundtrip=job.get('roundtrip', True)))
                continue
            events, traces = res[1]
            ctx.traces += traces
            for ev in events:
                if ev[0] == 'case':
                    ctx.case(key=ev[1], nontrivial=ev[2], sample=ev[3], kind=ev[4])
                elif ev[0] == 'count':
                    ctx.count(ev[1], ev[2])
                elif ev[0] == 'violate':
                    ctx.violate(ev[1], ev[2], ev[3], known=ev[4])
                else:
                    ctx.disagree(ev[1], ev[2], ev[3], ev[4])

    # -- one sheet under many records -------------------------------------------------------------
    NEUTRAL = {'keepComments': True, 'keepEmptyRules': True, 'keepUnknownAtRules': True,
               'keepUsedNamespaceRulesOnly': False, 'keepAllProperties': True, 'validOnly': False,
               'resolveVariables': False, 'minimizeColorHash': False, 'omitLeadingZero': False,
               'omitLastSemicolon': False}

    def check_sheet(self, ctx, im, src, records, kind, oracle_share=1.0, rng=None, roundtrip=True):
        """Runs the implementation and the oracles now; returns the pending (line, case) pairs for the model.

        Two DOMs per source text: the raw parse, and (with `roundtrip`) the reparse of the sheet's own filter-free
        serialization. What a plain serialise/parse round trip loses or changes is C03's subject, so on the raw DOM
        the oracle only runs when the raw DOM passes it under the DEFAULT record, and then on a sample of the records;
        the model correspondence runs on both DOMs under every record."""
        try:
            sh = im.parse(src)
        except TimeLimit:
            raise
        except Exception as e:
            ctx.count('parse-exception:' + type(e).__name__)   # C01's business; the sheet is skipped here
            return []
        pending = []
        if roundtrip:
            pending += self.one_dom(ctx, im, sh, src, records, kind + '-raw', 0.3 * oracle_share, rng, raw=True)
            rn, _ = im.serialize(sh, self.full(im, self.NEUTRAL))
            if rn[0] != 'OK':
                ctx.count('neutral-serialization-raises:' + rn[1])
                return pending
            src = rn[1]
            try:
                sh = im.parse(src)
            except TimeLimit:
                raise
            except Exception as e:
                ctx.count('reparse-exception:' + type(e).__name__)
                return pending
        return pending + self.one_dom(ctx, im, sh, src, records, kind, oracle_share, rng, raw=False)

    def one_dom(self, ctx, im, sh, src, records, kind, oracle_share, rng, raw):
        try:
            toks = X.sheet(sh)
        except X.Unmodelled as e:
            toks = None
            ctx.count('unmodelled:' + str(e)[:40])
        kinds = rule_kinds(sh)
        d0, _ = im.serialize(sh, im.defaults)
        cache = {}
        oracle_on = True
        if raw:
            # dry run under the default record: a DOM that does not survive a plain round trip is not judged here
            # (under the default record and under the filter-free record, which also writes @variables rules)
            probe = Probe()
            self.oracle_case(probe, im, sh, src, im.defaults, {}, d0, d0, kinds, cache, deep=True)
            if not probe.hit:
                neutral = self.full(im, self.NEUTRAL)
                rn, _ = im.serialize(sh, neutral)
                self.oracle_case(probe, im, sh, src, neutral, diff_prefs(neutral, im.defaults), rn, d0, kinds, cache,
                                 deep=True)
            oracle_on = not probe.hit
            if not oracle_on:
                ctx.count('raw-dom-fails-plain-round-trip')
        pending = []
        for d in records:
            prefs = self.full(im, d)
            res, line = im.serialize(sh, prefs, toks)
            dp = diff_prefs(prefs, im.defaults)
            nontrivial = (not dp) or res != d0
            ctx.case(key=(raw, src_key(src), tuple(sorted((k, repr(v)) for k, v in dp.items()))), nontrivial=nontrivial,
                     sample={'src': src[:300], 'prefs': dp, 'impl': res[1][:300] if res[0] == 'OK' else res[:3]},
                     kind='%s:%s' % (kind, 'default' if not dp else ('single' if len(dp) == 1 else
                                                                    ('pair' if len(dp) == 2 else 'multi'))))
            if line is not None:
                pending.append((line, {'src': src, 'prefs': dp, 'res': res, 'raw': raw}))
            if oracle_on:
                self.oracle_case(ctx, im, sh, src, prefs, dp, res, d0, kinds, cache,
                                 deep=(rng is None or rng.random() < oracle_share))
        return pending

    def flush(self, ctx, pending):
        if not pending or not ctx.model_ok or getattr(ctx, 'search_mode', False):
            return      # (the search looks for a failing input on the implementation: oracle only)
        n = len(pending)
        # every request twice: `sheet` = the model serializer on the DOM under the record; `effsheet` = the model
        # serializer on the TRANSFORMED DOM (`effectSheet`) under the record with the leaf preferences neutral
        outs = ctx.driver([l for l, _ in pending] + ['eff' + l for l, _ in pending])
        for (line, case), m, me in zip(pending, outs[:n], outs[n:]):
            res = case['res']
            if res[0] == 'OK':
                got = 'OK ' + enc(res[1])
                if got != m and m.startswith('OK '):
                    # the code encodes with the 'escapecss' handler as its last step; do the same to the model's text
                    try:
                        if dec(m[3:]).encode(res[3], 'escapecss') == res[2]:
                            ctx.count('escapecss-applied')
                            got = m
                    except Exception:
                        pass
            else:
                got = 'ERR ' + res[1]
            if got != m:
                a = res[1] if res[0] == 'OK' else got
                bm = dec(m[3:]) if m.startswith('OK ') else m
                prefs = case['prefs']
                if len(ctx.disagreements) < 3:
                    prefs = self.shrink_prefs(ctx, case['src'], prefs)
                ctx.disagree('sheet.cssText', {'src': case['src'], 'prefs': prefs, 'shrunk_from': case['prefs'],
                                               'raw': case.get('raw', False)}, a[:3000], bm[:3000])
            elif me != m:
                # the model agrees with the code on the DOM, but the transformed DOM under the neutral record is
                # written differently: the DOM rewrite is not the whole effect of the leaf preferences
                ctx.disagree('effect DOM under the neutral record', {'src': case['src'], 'prefs': case['prefs'],
                                                                     'raw': case.get('raw', False)},
                             (dec(m[3:]) if m.startswith('OK ') else m)[:3000],
                             (dec(me[3:]) if me.startswith('OK ') else me)[:3000])

    def disagrees(self, ctx, src, d):
        im = self.im
        try:
            sh = im.parse(src)
            toks = X.sheet(sh)
        except Exception:
            return False
        res, line = im.serialize(sh, self.full(im, d), toks)
        if line is None:
            return False
        m = ctx.driver([line])[0]
        if res[0] != 'OK':
            return m != 'ERR ' + res[1]
        if m == 'OK ' + enc(res[1]):
            return False
        try:
            return not (m.startswith('OK ') and dec(m[3:]).encode(res[3], 'escapecss') == res[2])
        except Exception:
            return True

    def shrink_prefs(self, ctx, src, prefs):
        """greedy: drop every preference assignment that is not needed for the disagreement"""
        cur = dict(prefs)
        try:
            if not self.disagrees(ctx, src, cur):
                return prefs
            for k in sorted(prefs):
                t = dict(cur)
                del t[k]
                if self.disagrees(ctx, src, t):
                    cur = t
        except Exception:
            return prefs
        return cur

    # -- the oracle on one (sheet, record) ----------------------------------------------------------
    def oracle_case(self, ctx, im, sh, src, prefs, dp, res, d0, kinds, cache, deep=True):
        wit = {'src': src, 'prefs': dp}
        # 1. never raises
        if res[0] == 'ERR':
            ctx.violate('serializing raises %s' % res[1], wit, res[2])
            return
        if prefs['lineNumbers'] or prefs['indentSpecificities']:
            return   # the output is a numbered listing / EXPERIMENTAL: not claimed to be the same style sheet
        text = res[1]
        # 2. layout preferences change white space only
        lay = {k: v for k, v in dp.items() if k in O.LAYOUT}
        if lay:
            q = dict(prefs)
            for k in O.LAYOUT:
                q[k] = im.defaults[k]
            key = tuple(sorted((k, repr(v)) for k, v in q.items()))
            if key not in cache:
                cache[key] = im.serialize(sh, q)[0] if diff_prefs(q, im.defaults) else d0
            base = cache[key]
            if base[0] == 'OK':
                self.layout_oracle(ctx, wit, prefs, text, base[1], im)
        # 3. reparse = documented effect
        if deep:
            self.content_oracle(ctx, im, sh, wit, prefs, text)

    def layout_oracle(self, ctx, wit, prefs, text, base, im):
        try:
            with time_limit(30):
                a, b = O.nontoks(text), O.nontoks(base)
        except TimeLimit:
            raise
        except Exception as e:
            ctx.violate('output cannot be tokenized', wit, repr(e))
            return
        if a == b:
            return
        seps = [s for s in (prefs['lineSeparator'], im.defaults['lineSeparator']) if s]

        def n3(ts):   # region of C06-indent-inside-token: a token whose text contains the line separator
            return [(t, re.sub(r'\s+', '', v)) if any(s in v for s in seps) else (t, v) for t, v in ts]

        def n4(ts):   # region of C06-nth-plus-fusion: `+` glued to the following number
            out = []
            for t, v in ts:
                if t in ('NUMBER', 'DIMENSION', 'PERCENTAGE') and v.startswith('+'):
                    out.append(('CHAR', '+'))
                    out.append((t, v[1:]))
                else:
                    out.append((t, v))
            return out
        def n9(ts):   # region of C06-op-equals-fusion: `* | ^ $` + `=` written as one token when the spacer is empty
            out = []
            for t, v in ts:
                if t in FUSED_MATCH and v == FUSED_MATCH[t]:
                    out.append(('CHAR', v[0]))
                    out.append(('CHAR', '='))
                else:
                    out.append((t, v))
            return out
        # (the region of the former finding C06-op-equals-fusion is gone: fixed by 77b59e6)
        if n3(a) == n3(b):
            ctx.violate('layout preferences change a non-whitespace token', wit,
                        self.first_diff(a, b), known='C06-indent-inside-token')
        elif prefs['selectorCombinatorSpacer'] == '' and n4(a) == n4(b):
            ctx.violate('layout preferences change the token sequence', wit,
                        self.first_diff(a, b), known='C06-nth-plus-fusion')
        elif prefs['selectorCombinatorSpacer'] == '' and n3(n4(a)) == n3(n4(b)):
            ctx.violate('layout preferences change the token sequence', wit,
                        self.first_diff(a, b), known='C06-nth-plus-fusion')
        else:
            ctx.violate('layout preferences change the non-whitespace token sequence', wit, self.first_diff(a, b))

    @staticmethod
    def first_diff(a, b):
        k = next((i for i in range(min(len(a), len(b))) if a[i] != b[i]), min(len(a), len(b)))
        return {'index': k, 'with_prefs': a[max(0, k - 2):k + 3], 'with_default_layout': b[max(0, k - 2):k + 3]}

    def content_oracle(self, ctx, im, sh, wit, prefs, text):
        leaf = {k: prefs[k] for k in O.LEAF}
        leaf.update(O.LEAF_FIXED)
        try:
            expected = im.with_prefs(leaf, lambda: O.effect(O.canon(sh), prefs, O.used_uris(sh)))
            sh2 = im.parse(text)
            got = im.with_prefs(leaf, lambda: O.strip_flags(O.canon(sh2)))
        except TimeLimit:
            raise
        except Exception as e:
            ctx.violate('output cannot be reparsed / projected', wit, repr(e))
            return
        if got == expected:
            return
        seps = [x for x in (prefs['lineSeparator'], im.defaults['lineSeparator']) if x]

        def n3(x):   # region of C06-indent-inside-token: a text that contains the line separator
            if isinstance(x, str):
                return re.sub(r'\s+', '', x) if any(sp in x for sp in seps) else x
            if isinstance(x, (list, tuple)):
                return [n3(y) for y in x]
            return x

        def n4(x):   # region of C06-nth-plus-fusion: `+` glued to the following number (token tuples of leaf texts)
            if isinstance(x, (list, tuple)):
                if len(x) == 2 and isinstance(x[0], str) and x[0] in ('NUMBER', 'DIMENSION', 'PERCENTAGE') \
                        and isinstance(x[1], str) and x[1].startswith('+'):
                    return ['+', [x[0], x[1][1:]]]
                out = []
                for y in x:
                    z = n4(y)
                    if isinstance(z, list) and len(z) == 2 and z[0] == '+':
                        out.append(['CHAR', '+'])
                        out.append(z[1])
                    else:
                        out.append(z)
                return out
            return x

        def n9(x):   # region of C06-op-equals-fusion: `* | ^ $` + `=` written as one token when the spacer is empty
            if isinstance(x, (list, tuple)):
                out = []
                for y in x:
                    if isinstance(y, (list, tuple)) and len(y) == 2 and isinstance(y[0], str) \
                            and FUSED_MATCH.get(y[0]) == y[1]:
                        out.append(['CHAR', y[1][0]])
                        out.append(['CHAR', '='])
                    else:
                        out.append(n9(y))
                return out
            return x
        # the normalisations whose region predicate holds for this case, applied to both sides
        norms = [('C06-indent-inside-token', n3)]
        if prefs['selectorCombinatorSpacer'] == '':
            norms.append(('C06-nth-plus-fusion', n4))

        def apply(fs, x):
            for _, f in fs:
                x = f(x)
            return json.loads(json.dumps(x))
        if apply(norms, got) == apply(norms, expected):
            # attribute to the first normalisation that cannot be left out
            for i in range(len(norms)):
                rest = norms[:i] + norms[i + 1:]
                if apply(rest, got) != apply(rest, expected):
                    ctx.violate('reparse differs from the documented effect', wit, self.first_diff(got, expected),
                                known=norms[i][0])
                    return
            ctx.violate('reparse differs from the documented effect', wit, self.first_diff(got, expected),
                        known=norms[0][0])
            return
        ctx.violate('reparse differs from the documented effect of the preferences', wit,
                    self.first_diff(got, expected))

    # -- streams --------------------------------------------------------------------------------
    def run_corpus(self, ctx, im):
        d = os.path.join(ctx.verif, 'tools', 'corpus', 'C06')
        pending = []
        for fn in sorted(glob.glob(os.path.join(d, '*.json'))):
            for entry in json.load(open(fn)):
                pending += self.check_sheet(ctx, im, entry['src'], [entry.get('prefs', {})], 'corpus', roundtrip=False)
        self.flush(ctx, pending)

    # -- every place a namespace prefix can be used in, one at a time ----------------------------------
    NS_PLACES = {
        'top-level type selector': 'p|a{x:y}',
        'top-level universal': 'p|*{x:y}',
        'second selector of a list': 'b, c > p|a{x:y}',
        'attribute selector': 'a[p|x=y]{x:y}',
        'inside :not()': 'a:not(p|b){x:y}',
        'attribute inside :not()': 'a:not([p|x]){x:y}',
        '@media depth 1': '@media print{p|a{x:y}}',
        '@media depth 1 after another rule': '@media print{b{x:y} p|a{x:y}}',
        '@media depth 2': '@media print{@media screen{p|a{x:y}}}',
        '@media depth 3': '@media print{@media screen{@media tv{c{x:y} p|a{x:y}}}}',
        'default namespace, top level': 'a{x:y}',
        'default namespace, @media depth 1': '@media print{a{x:y}}',
    }

    def run_namespaces(self, ctx, im):
        """Sheets in which each namespace prefix is used in exactly ONE place, under the default record, every
        content preference alone and the minified preset: the reparse must be the original DOM minus the unused
        @namespace rules (checked by the general content oracle against the independent `effect`)."""
        content = [k for k in X.PREF_ORDER if k not in O.LAYOUT and k not in ('lineNumbers', 'indentSpecificities')]
        recs = [{}] + [{k: (ALT[k][0] if k in ALT else not im.defaults[k])} for k in content] \
            + [diff_prefs(im.minified, im.defaults)]
        jobs = []
        for place, body in self.NS_PLACES.items():
            if place.startswith('default namespace'):
                heads = ['@namespace "u0";@namespace q "u2";', '@namespace q "u2";@namespace "u0";@namespace r "u3";']
            else:
                heads = ['@namespace p "u1";@namespace q "u2";', '@namespace q "u2";@namespace p "u1";',
                         '@namespace "u0";@namespace p "u1";@namespace q "u2";']
            for head in heads:
                for tail in ('', 'd{left:0}'):
                    jobs.append({'src': head + body + tail, 'records': recs, 'kind': 'namespace-place'})
        self.par(ctx, im, jobs)

    # -- what a block ends with, for every kind of block ------------------------------------------------
    BLOCK_TAILS = ['e\\ ', 'x e\\ ', '"s"', 'f(x)', '1px', '#aabbcc', 'url(a\\ )',
                   'red /*c*/', 'e\\  /*c*/', 'e\\\\', 'red !important']
    BLOCK_KINDS = ['a{x:%s}', 'a{x:%s;}', '@variables{a:%s} b{x:var(a)}', '@variables{c:1px;a:%s}',
                   '@variables{a:%s;}', '@page{x:%s}', '@page{x:%s;@top-left{y:%s}}', '@font-face{font-family:%s}',
                   'a{x:%s;/*last*/}', '@variables{a:%s;/*last*/}', 'a{x:%s;@foo bar;}', 'a{y:1;x:%s;@foo bar;@baz "s";}',
                   '@page{x:%s;@foo bar;}', 'a{x:%s;@foo bar;/*c*/}', 'a{@foo bar;x:%s}']

    def run_block_ends(self, ctx, im):
        """Every kind of declaration / variables block ending in every kind of value (escaped blank, string, function,
        comment, ...) under the default record, every single preference and the minified preset: the end of a block is
        where the last-semicolon omission, the closing brace and the final strip of the block text meet."""
        singles = self.singles(im)
        if ctx.n(True, False):
            # quick tier: one alternative per preference (the first: the empty string for the layout strings)
            first = {}
            for d in singles:
                first.setdefault(next(iter(d)), d)
            singles = list(first.values())
        recs = [{}] + singles + [diff_prefs(im.minified, im.defaults),
                                         {'resolveVariables': False, 'omitLastSemicolon': False},
                                         {'resolveVariables': False, 'lineSeparator': ''},
                                         {'resolveVariables': False, 'keepComments': False}]
        self.par(ctx, im, [{'src': kind.replace('%s', tail), 'records': recs, 'kind': 'block-end'}
                           for kind in self.BLOCK_KINDS for tail in self.BLOCK_TAILS])

    # -- the cascade inside one block: every priority pattern of a name declared two or three times ---------
    def run_cascade(self, ctx, im):
        """`keepAllProperties=False` keeps, of the declarations of one name, the last `!important` one, else the last
        one: all patterns of (normal | important) for a name declared twice and three times, in three spellings of the
        name, alone and with another property in between, in a style rule, @page, margin rule and @media."""
        spell = ['color', 'COLOR', 'c\\olor']
        vals = ['red', 'blue', 'green']
        blocks = []
        for k in (2, 3):
            for pat in itertools.product(['', ' !important'], repeat=k):
                ds = ['%s: %s%s' % (spell[i % 3], vals[i], pat[i]) for i in range(k)]
                blocks.append(';'.join(ds))
                blocks.append(';'.join([ds[0], 'margin: 0'] + ds[1:]) + ';top: 1px !important')
        recs = [{}, {'keepAllProperties': False}, {'keepAllProperties': False, 'defaultPropertyName': False},
                {'keepAllProperties': False, 'validOnly': True}, {'keepAllProperties': False, 'omitLastSemicolon': False},
                {'keepAllProperties': False, 'defaultPropertyPriority': False},
                dict(diff_prefs(im.minified, im.defaults), keepAllProperties=False)]
        wraps = ['a{%s}', '@page{%s}', '@page{@top-left{%s}}', '@media print{a{%s}}']
        self.par(ctx, im, [{'src': wraps[i % 4] % b, 'records': recs, 'kind': 'cascade'} for i, b in enumerate(blocks)])

    def run_sheets(self, ctx, im):
        rng = ctx.sub_rng('sheets' + getattr(self, 'salt', ''))
        singles = self.singles(im)
        n_all = ctx.n(10, 60)         # sheets that get singles + ALL PAIRS + minified + random records
        n_some = ctx.n(80, 1500)      # sheets that get default, minified, a few singles, pairs and random records
        jobs = []
        for i in range(n_all):
            src = G.sheet(rng)
            recs = [{}] + singles + self.pairs(im, rng) + [diff_prefs(im.minified, im.defaults)] \
                + [self.random_record(im, rng) for _ in range(ctx.n(40, 200))]
            jobs.append({'src': src, 'records': recs, 'kind': 'gen', 'oracle_share': ctx.n(0.25, 0.5),
                         'seed': rng.getrandbits(48)})
        allpairs = list(itertools.combinations(X.PREF_ORDER, 2))
        for i in range(n_some):
            src = G.sheet(rng)
            recs = [{}, diff_prefs(im.minified, im.defaults)] + rng.sample(singles, 4)
            for a, b in rng.sample(allpairs, 6):
                recs.append({a: self.alt_value(im, a, rng), b: self.alt_value(im, b, rng)})
            recs += [self.random_record(im, rng) for _ in range(6)]
            jobs.append({'src': src, 'records': recs, 'kind': 'gen', 'oracle_share': 0.6, 'seed': rng.getrandbits(48)})
        self.par(ctx, im, jobs)

    def run_files(self, ctx, im):
        rng = ctx.sub_rng('files' + getattr(self, 'salt', ''))
        files = sorted(glob.glob(os.path.join(ctx.repo, 'sheets', '*.css'))
                       + glob.glob(os.path.join(ctx.repo, 'cssutils', 'tests', 'sheets', '*.css')))
        limit = ctx.n(12000, 120000)
        jobs = []
        seen = set()
        for f in files:
            data = open(f, 'rb').read()
            if len(data) > limit or data in seen:
                continue
            seen.add(data)
            try:
                src = data.decode('utf-8')
            except UnicodeDecodeError:
                src = data.decode('latin-1')
            big = len(data) > 3000
            recs = [{}, diff_prefs(im.minified, im.defaults)]
            recs += rng.sample(self.singles(im), ctx.n(2, 8) if big else ctx.n(6, 30))
            recs += [self.random_record(im, rng) for _ in range(ctx.n(2, 6) if big else ctx.n(4, 20))]
            jobs.append({'src': src, 'records': recs, 'kind': 'file', 'oracle_share': 0.5, 'seed': rng.getrandbits(48)})
        jobs.sort(key=lambda j: -len(j['src']) * len(j['records']))     # the long ones first
        self.par(ctx, im, jobs)

    # -- Out.append scripts against the real Out class ----------------------------------------------
    VALS = ['+', '>', '~', ',', ':', '{', ';', ')', ']', '/', '=', '}', '[', '(', '-', '*', 'a', 'b c', 'x ', ' ', '', '  ',
            '1px', '"s"', 'f(', '#aabbcc', '#abc', '#aabbcd', ')]', '/=', '+>', '()', '{}', 'a\nb', '\n', 'url(x)', 'a b',
            '#AABBCC', '}\n', '!important', '|', '^', '$', '*x', '*=', '/*c*/', '**', '@x', '.5', 'é', '\t', 'a\t', 'a\x7fb', 'a\x01', 'b\\ ', '\\ ', 'x\\\\ ', 'c\\  ']
    TYPES = ['COMMENT', 'S', 'STRING', 'URI', 'HASH', 'FUNCTION', 'adjacent-sibling', 'child', 'following-sibling', 'plus',
             'styletext', 'IDENT', 'CHAR', 'CHAR', 'CHAR', None, None, None, 'DIMENSION', 'Value', 'operator', 'COMMA',
             'descendant', 'ATKEYWORD', 'COLOR_VALUE']

    def corr_append(self, ctx, im):
        rng = ctx.sub_rng('append')
        Out = im.cu.serialize.Out

        class Obj:
            def __init__(self, t):
                self.cssText = t

        class Mq:
            def __init__(self, t):
                self.mediaText = t

        lines, cases = [], []
        for _ in range(ctx.n(4000, 150000)):
            prefs = self.full(im, self.random_record(im, rng))
            n = rng.choice([1, 2, 2, 3, 4, 6, 9])
            script, ptoks = [], []
            for _ in range(n):
                v = rng.choice(self.VALS)
                t = rng.choice(self.TYPES)
                k = rng.random()
                if t == 'COMMENT':
                    mode = 'o'           # the code reads val.cssText
                elif t in ('STRING', 'URI', 'HASH'):
                    mode = 'n' if (t == 'STRING' and k < 0.1) else 's'
                else:
                    mode = 'o' if k < 0.15 else ('m' if k < 0.2 else 's')
                fl = (rng.random() < 0.7, rng.random() < 0.3, rng.random() < 0.12, rng.random() < 0.15)
                script.append((mode, v, t, fl))
                ptoks += [{'s': 's', 'o': 'o', 'm': 'o', 'n': 'n'}[mode]] + ([] if mode == 'n' else [enc(v)]) \
                    + [X.ty(t)] + [X.b(x) for x in fl]
            lines.append('calls 1 ' + ' '.join(X.prefs_tokens(prefs)) + ' %d ' % n + ' '.join(ptoks))

            def go():
                o = Out(im.cu.ser)
                for mode, v, t, fl in script:
                    val = {'s': v, 'o': Obj(v), 'm': Mq(v), 'n': None}[mode]
                    o.append(val, t, space=fl[0], keepS=fl[1], indent=fl[2], alwaysS=fl[3])
                return o.value()
            try:
                got = 'OK ' + enc(im.with_prefs(prefs, go))
            except Exception as e:
                got = 'ERR ' + type(e).__name__
            cases.append((script, diff_prefs(prefs, im.defaults), got))
            ctx.case(key=('append', repr(script), repr(sorted(prefs.items()))), nontrivial=True, kind='append-script')
        if not ctx.model_ok:
            return
        for (script, dp, got), m in zip(cases, ctx.driver(lines)):
            if got != m:
                ctx.disagree('Out.append script', {'script': [list(s) for s in script], 'prefs': dp},
                             dec(got[3:]) if got.startswith('OK ') else got, dec(m[3:]) if m.startswith('OK ') else m)

    # -- every adjacent pair of lexemes, on the real Out class and the real tokenizer ---------------------
    PAIR_CHARS = '!#$%&*+,-./:;<=>?@[]^{|}~()'
    PAIR_WORDS = [('a', 'IDENT'), ('-a', 'IDENT'), ('u', 'IDENT'), ('url', 'IDENT'), ('1', 'NUMBER'), ('.5', 'NUMBER'),
                  ('-1', 'NUMBER'), ('+1', 'NUMBER'), ('1px', 'DIMENSION'), ('1e', 'DIMENSION'), ('1%', 'PERCENTAGE'),
                  ('#ab', 'HASH'), ('s', 'STRING'), ('x', 'URI'), ('f(', 'FUNCTION'), ('@x', 'ATKEYWORD'),
                  ('U+26', 'UNICODE-RANGE'), ('!important', None), ('/*c*/', 'COMMENT')]

    def run_pairs(self, ctx, im):
        """The pair table of `Lemmas/OutPairs.lean` on the implementation (same 46 lexemes): two calls on a fresh `Out`,
        tokenized by cssutils' tokenizer; the tokens must be those of the first call followed by those of the second —
        under the default record, the minified layout strings, and every single layout string emptied."""
        Out = im.cu.serialize.Out

        class Obj:
            def __init__(self, t):
                self.cssText = t
        lex = [(c, 'CHAR') for c in self.PAIR_CHARS] + self.PAIR_WORDS
        lay = {k: '' for k in O.LAYOUT if k != 'indentClosingBrace'}
        records = [{}, lay] + [{k: ''} for k in sorted(lay)]

        def text(calls):
            o = Out(im.cu.ser)
            for v, t in calls:
                o.append(Obj(v) if t == 'COMMENT' else v, t)
            return o.value()

        def toks(calls):
            return [t for t in O.nontoks(text(calls)) if t[0] != 'EOF']
        for d in records:
            prefs = self.full(im, d)

            def go():
                bad = []
                single = {x: toks([x]) for x in lex}
                for a in lex:
                    for b in lex:
                        if toks([a, b]) != single[a] + single[b]:
                            bad.append((a, b, text([a, b])))
                return bad
            bad = im.with_prefs(prefs, go)
            ctx.case(key=('pairs', repr(sorted(d.items()))), nontrivial=True, kind='lexeme-pairs')
            for a, b, t in bad:
                region = False      # former finding C06-op-equals-fusion: fixed by 77b59e6, no region left
                ctx.violate('two adjacent lexemes are written as another token', {'script': [['s', a[0], a[1], [True, False, False, False]], ['s', b[0], b[1], [True, False, False, False]]], 'prefs': d},
                            {'text': t}, known='C06-op-equals-fusion' if region else None)

    # -- useDefaults() restores the default output byte for byte ------------------------------------
    def oracle_restore(self, ctx, im):
        rng = ctx.sub_rng('restore')
        cu = im.cu
        fixed = ['a{b:c} a.x{c:d} a.x.y{e:f}', 'a{b:c} @media print{a.x{c:d}} a.x.y{e:f}']
        for n in range(ctx.n(40, 800) + len(fixed)):
            src = fixed[n] if n < len(fixed) else G.sheet(rng)
            try:
                sh = im.parse(src)
                d0 = sh.cssText
                r0 = [r.cssText for r in sh.cssRules]     # also every rule serialized on its own
            except TimeLimit:
                raise
            except Exception:
                continue
            p = cu.ser.prefs
            history = []
            try:
                for _ in range(rng.randint(1, 4)):
                    k = rng.random()
                    if k < 0.15:
                        p.useMinified()
                        history.append('useMinified()')
                    else:
                        d = self.random_record(im, rng)
                        if rng.random() < 0.15 or n < len(fixed):
                            d['indentSpecificities'] = True
                        for kk, v in d.items():
                            setattr(p, kk, v)
                        history.append(d)
                    try:
                        with time_limit(30):
                            sh.cssText
                    except TimeLimit:
                        raise
                    except Exception:
                        pass
                p.useDefaults()
                same_record = dict(vars(p)) == im.defaults
                r1 = [r.cssText for r in sh.cssRules]    # first: serializing the sheet resets the state itself
                d1 = sh.cssText
            finally:
                p.useDefaults()
            ctx.case(key=('restore', src, repr(history)), nontrivial=True, kind='restore-history')
            wit = {'src': src, 'history': history}
            if not same_record:
                ctx.violate('useDefaults() does not restore the preference record', wit, None)
            elif d1 != d0 or r1 != r0:
                ctx.violate('useDefaults() does not restore the default output', wit,
                            {'default': d0.decode('utf-8', 'replace')[:300], 'after': d1.decode('utf-8', 'replace')[:300]})

    # ------------------------------------------------------------------------------------------
    SEARCH_BUDGET_S = 75

    def search(self, ctx):
        """A proof obligation or the correspondence broke: look for a concrete failing input ON THE IMPLEMENTATION
        (oracle only, no model), time-boxed. First the inputs on which model and code disagree — under the record of
        the disagreement, each of its assignments alone, the minified preset; then fresh generator rounds of quick
        size in the pool until a violation shows or the budget is used up."""
        ctx.search_mode = True
        im = getattr(self, 'im', None) or Impl()
        self.im = im
        t0 = time.time()
        try:
            seen = set()
            for d in list(ctx.disagreements):
                inp = d.get('input') if isinstance(d.get('input'), dict) else None
                if not inp or 'src' not in inp:
                    continue
                full = inp.get('shrunk_from') or inp.get('prefs') or {}
                recs = [inp.get('prefs') or {}, full] + [{k: v} for k, v in full.items()] \
                    + [{}, diff_prefs(im.minified, im.defaults)]
                key = (inp['src'], repr(recs))
                if key in seen:
                    continue
                seen.add(key)
                self.check_sheet(ctx, im, inp['src'], recs, 'search-disagreement')
                if ctx.violations:
                    return
            rnd = 0
            while not ctx.violations and time.time() - t0 < self.SEARCH_BUDGET_S:
                rnd += 1
                self.salt = '/search%d' % rnd
                self.run_sheets(ctx, im)
                if rnd % 4 == 1 and not ctx.violations:
                    self.run_files(ctx, im)
            ctx.notes['search_rounds'] = rnd
        finally:
            self.salt = ''
            im.cu.ser.prefs.useDefaults()

    def known(self, ctx, finding):
        im = getattr(self, 'im', None) or Impl()
        w = finding['witness']['data']
        fid = finding['id']
        try:
            sh = im.parse(w['src'])
            prefs = self.full(im, w['prefs'])
            res, _ = im.serialize(sh, prefs)
            if res[0] != 'OK':
                return True
            if fid in ('C06-indent-inside-token', 'C06-nth-plus-fusion', 'C06-op-equals-fusion'):
                q = dict(prefs)
                for k in O.LAYOUT:
                    q[k] = im.defaults[k]
                base, _ = im.serialize(sh, q)
                return O.nontoks(res[1]) != O.nontoks(base[1])
        finally:
            im.cu.ser.prefs.useDefaults()
        return True

    def replay_history(self, ctx, im, w):
        cu = im.cu
        cu.setSerializer(cu.serialize.CSSSerializer())
        sh = im.parse(w['src'])
        d0 = sh.cssText
        p = cu.ser.prefs
        try:
            for step in w['history']:
                if step == 'useMinified()':
                    p.useMinified()
                elif isinstance(step, dict):
                    for k, v in step.items():
                        setattr(p, k, v)
                try:
                    sh.cssText
                except Exception:
                    pass
            p.useDefaults()
            d1 = sh.cssText
        finally:
            p.useDefaults()
        if d1 != d0:
            ctx.violate('useDefaults() does not restore the default output', w, None)
        cu.setSerializer(cu.serialize.CSSSerializer())

    def replay_script(self, ctx, im, w):
        Out = im.cu.serialize.Out

        class Obj:
            def __init__(self, t):
                self.cssText = t
        prefs = self.full(im, w.get('prefs', {}))
        ptoks = []
        for mode, v, t, fl in w['script']:
            ptoks += [{'s': 's', 'o': 'o', 'm': 'o', 'n': 'n'}[mode]] + ([] if mode == 'n' else [enc(v)]) \
                + [X.ty(t)] + [X.b(x) for x in fl]

        def go():
            o = Out(im.cu.ser)
            for mode, v, t, fl in w['script']:
                val = {'s': v, 'o': Obj(v), 'm': Obj(v), 'n': None}[mode]
                o.append(val, t, space=fl[0], keepS=fl[1], indent=fl[2], alwaysS=fl[3])
            return o.value()
        got = 'OK ' + enc(im.with_prefs(prefs, go))
        m = ctx.driver(['calls 1 ' + ' '.join(X.prefs_tokens(prefs)) + ' %d ' % len(w['script']) + ' '.join(ptoks)])[0]
        if got != m:
            ctx.disagree('Out.append script', w, got, m)

    def replay(self, ctx, data):
        im = Impl()
        self.im = im
        try:
            wits = []
            if data.get('witness'):
                wits.append(data['witness'])
            for bk in data.get('broken', []):
                if isinstance(bk.get('input'), dict):
                    wits.append(bk['input'])
            for w in wits:
                if 'history' in w:
                    if 'src' in w:
                        self.replay_history(ctx, im, w)
                    else:
                        self.oracle_record(ctx, im)
                    continue
                if 'script' in w:
                    self.replay_script(ctx, im, w)
                    continue
                pending = self.check_sheet(ctx, im, w['src'], [w.get('prefs', {})], 'replay', roundtrip=False)
                self.flush(ctx, pending)
        finally:
            im.cu.ser.prefs.useDefaults()


CHECK = C06()
