"""C17: direct property oracle on the implementation, independent of the Lean model.

The specification used here is written from the property text, not from the code:

* grammar: a list is one or more queries separated by commas; a query is `[only|not]? type (and expr)*` or
  `expr (and expr)*`, `expr` = `( ident [: value]? )`, value = length / number / percentage / ident / hex colour /
  string / colour function; white space and comments may stand between tokens. (`spec_chunks`)
* a list text denotes the ordered set obtained from its queries: a simple `all` absorbs everything, a simple
  media type is kept once (first occurrence), everything else keeps its place. (`spec_canon`)
* edits: append of a present simple type moves it to the end, append to `all` is rejected, append of `all`
  replaces everything; delete removes exactly that type, delete of an absent type is rejected; item assignment
  replaces the i-th medium and keeps the set canonical. (`spec_append`, `spec_delete`, `spec_setitem`)

Checked clauses (each on every step of every generated history):
  parse      wellformed <=> grammar; the media of a well-formed text are the canonical ordered set, every query
             keeps all its significant tokens in order; a rejected text changes nothing
  edit       the operation refines the ordered-set specification; outcome accepted / rejected as specified
  canonical  no operation produces duplicates of a simple type or `all` next to other media
  count      length, item(i) and iteration agree
  reparse    the text of the list parses to an equal list and is a fixpoint
  owner      the list of an @media / @import rule equals the stand-alone list for the same tokens
"""
import re

# fixed in the repository (known/C17.json, status fixed): no region any more — a recurrence is reported as a violation
KNOWN_COMMENT = None
KNOWN_CASE = None
KNOWN_MISSING = None      # C17-missing-handback: fixed (ed45313)
KNOWN_COLOUR = None

NUM = ('DIMENSION', 'NUMBER', 'PERCENTAGE')
HEXCOLOR = re.compile(r'^#(?:[0-9a-fA-F]{3}|[0-9a-fA-F]{6})$')
COLOUR_FUNCS = ('rgb(', 'rgba(', 'hsl(', 'hsla(')
EXPR = r'\([IPTA](?::[VIPTA])?\)'
QUERY = re.compile(r'^(?:P?T|%s)(?:A%s)*$' % (EXPR, EXPR))
# a complete query followed by `and` that is not followed by a complete expression
MISSING_REGION = re.compile(r'^(?:P?T|%s)(?:A%s)*A(?!%s)' % (EXPR, EXPR, EXPR))


def norm(v):
    return re.sub(r'\\([^0-9a-fA-F])', r'\1', v, flags=re.S).lower()


class Spec:
    def __init__(self, impl):
        import harness.c17_gen as G
        self.impl = impl
        self.types = list(G.MEDIA_TYPES)

    # -- tokens -> symbols -------------------------------------------------------------------------
    def significant(self, toks):
        """drop white space and comments; group a colour function with its arguments into one pseudo token"""
        out, i = [], 0
        toks = [t for t in toks if t[0] not in ('S', 'COMMENT')]
        while i < len(toks):
            t = toks[i]
            if t[0] == 'FUNCTION' and norm(t[1]) in COLOUR_FUNCS:
                j = i + 1
                while j < len(toks) and toks[j][1] != ')':
                    j += 1
                text = ''.join(x[1] for x in toks[i:j + 1])
                out.append(('COLOURFN', text))
                i = j + 1
            else:
                out.append(t)
                i += 1
        return out

    def sym(self, t):
        typ, val = t
        if typ == 'IDENT':
            n = norm(val)
            if n in ('only', 'not'):
                return 'P'
            if n in self.types:
                return 'T'
            if n == 'and':
                return 'A'
            return 'I'
        if typ == 'CHAR' and val in ('(', ')', ':', ','):
            return val
        if typ in NUM or typ in ('STRING', 'UNICODE-RANGE') or (typ == 'HASH' and HEXCOLOR.match(val)):
            return 'V'
        if typ == 'COLOURFN':
            return 'V' if self.colour_ok(val) else 'B'
        return 'X'

    def colour_ok(self, text):
        from cssutils.css import value
        log = self.impl.cssutils.log
        old = log.raiseExceptions
        log.raiseExceptions = False
        try:
            return bool(value.ColorValue(text).wellformed)
        except Exception:
            return False
        finally:
            log.raiseExceptions = old

    def key(self, t):
        if t[0] == 'COLOURFN':
            return ('FN', re.sub(r'\s+', '', t[1]).lower())
        return self.impl.tok_key(t)

    def spec_chunks(self, toks):
        """-> (valid, [chunk]) with chunk = (symbols, entry, raw media type or None)"""
        sig = self.significant(toks)
        chunks, cur = [], []
        for t in sig:
            if t == ('CHAR', ','):
                chunks.append(cur)
                cur = []
            else:
                cur.append(t)
        chunks.append(cur)
        out, valid = [], True
        for c in chunks:
            s = ''.join(self.sym(t) for t in c)
            if not QUERY.match(s):
                valid = False
            if s == 'T':
                out.append((s, ('s', norm(c[0][1])), c[0][1]))
            else:
                out.append((s, ('c', tuple(self.key(t) for t in c)), None))
        return valid, out

    # -- the ordered-set specification ---------------------------------------------------------------
    @staticmethod
    def spec_canon(entries):
        if ('s', 'all') in entries:
            return [('s', 'all')]
        out = []
        for e in entries:
            if e[0] == 's' and e in out:
                continue
            out.append(e)
        return out

    @staticmethod
    def canonical(view):
        simple = [e for e in view if e[0] == 's']
        if len(set(simple)) != len(simple):
            return False
        if ('s', 'all') in view and len(view) > 1:
            return False
        return True

    @staticmethod
    def spec_append(view, e):
        """-> (new view, accepted)"""
        if ('s', 'all') in view:
            return view, False
        if e[0] == 's' and e in view:
            return [x for x in view if x != e] + [e], True
        if e == ('s', 'all'):
            return [e], True
        return view + [e], True

    @staticmethod
    def spec_delete(view, n):
        e = ('s', n)
        if e in view:
            v = list(view)
            v.remove(e)
            return v, True
        return view, False

    @staticmethod
    def spec_setitem(view, i, e):
        """-> (new view, 'ok' | 'index')"""
        n = len(view)
        if not -n <= i < n:
            return view, 'index'
        k = i if i >= 0 else n + i
        if e == ('s', 'all'):
            return [e], 'ok'
        v = list(view)
        v[k] = e
        return [x for j, x in enumerate(v) if j == k or not (e[0] == 's' and x == e)], 'ok'

    # -- views of the implementation -------------------------------------------------------------------
    def view(self, ml):
        out = []
        for q in ml:
            mt = q.value.mediaType
            if mt:
                out.append(('s', norm(mt)))
            else:
                sig = self.significant(self.impl.tokenize(q.value.mediaText))
                out.append(('c', tuple(self.key(t) for t in sig)))
        return out

    def comments_in_list(self, ml):
        return any(not isinstance(i.value, self.impl.MediaQuery) for i in ml.seq)

    def malformed_queries(self, ml):
        """symbol strings of the queries of the list that are not queries of the grammar"""
        bad = []
        for q in ml:
            s = ''.join(self.sym(t) for t in self.significant(self.impl.tokenize(q.value.mediaText)))
            if not QUERY.match(s):
                # a value object that is not well-formed serialises to nothing: name it in the symbols
                if any(getattr(i.value, 'wellformed', True) is False for i in q.value.seq):
                    s = s.replace(':)', ':B)') if ':)' in s else s + 'B'
                bad.append(s)
        return bad


def attribute_malformed(syms):
    """known finding whose region contains a list with these query symbol strings that was accepted although it is
    not in the grammar. Every malformed query must be explained: by a malformed colour function in value position
    (which ends where its own parser gives up, possibly before its closing parenthesis), or by a complete query
    followed by `and` without a complete expression; an empty query directly after such a query is the comma that
    the stop-and-hand-back swallowed."""
    colour = missing = False
    prev_explained = False
    for s in syms:
        if QUERY.match(s):
            prev_explained = False
            continue
        if 'B' in s and (QUERY.match(s.replace('B', 'V')) or QUERY.match(s.replace('B', 'V)'))):
            colour = True
            prev_explained = True
        elif MISSING_REGION.match(s.replace('B', 'V')):
            missing = True
            if 'B' in s:
                colour = True
            prev_explained = True
        elif s == '' and prev_explained:
            prev_explained = False
        else:
            return None
    if colour:
        return KNOWN_COLOUR
    if missing:
        return KNOWN_MISSING
    return None


class Collector:
    def __init__(self):
        self.found = []

    def __call__(self, clause, witness, detail, known=None):
        self.found.append((clause, witness, detail, known))


def witness(h, upto=None, **kw):
    w = {'context': h.context, 'start': h.start, 'raising': h.raising,
         'ops': [list(o) for o in (h.ops if upto is None else h.ops[:upto])]}
    w.update(kw)
    return w


def check_history(impl, spec, h, report, count=lambda k: None):
    """run one history on the implementation and check every clause; `report(clause, witness, detail, known)`"""
    ML = impl.MediaList
    log = impl.cssutils.log

    # ---- start
    if h.context == 'alone':
        ml = ML()
        start_toks = impl.tokenize(h.start)
        out = impl.call(h.raising, lambda: setattr(ml, 'mediaText', h.start))
        check_parse(impl, spec, h, 0, ml, [], False, start_toks, out, report, count, from_text=True)
    else:
        css = ('@media %s {a{b:c}}' if h.context.startswith('media') else '@import "x" %s;') % h.start
        impl.captured = []
        try:
            (impl.parser_nc if h.context.endswith('-nc') else impl.parser).parseString(css)
            cap = impl.captured
        finally:
            impl.captured = None
        if len(cap) != 1:
            return
        ml, start_toks = cap[0]
        check_parse(impl, spec, h, 0, ml, [], False, start_toks, 'ret:None', report, count, from_text=False)
        check_owner(impl, spec, h, ml, start_toks, report, count)
    check_state(impl, spec, h, 0, ml, True, report, count)

    # ---- operations
    for n, op in enumerate(h.ops):
        pre = spec.view(ml)
        pre_canon = spec.canonical(pre)
        pre_comments = spec.comments_in_list(ml)
        pre_wf = bool(ml.wellformed)
        pre_text = ml.mediaText
        line, out = impl.apply(ml, h.raising, op)
        post = spec.view(ml)
        w = witness(h, n + 1)
        k = op[0]
        if k == 'set':
            check_parse(impl, spec, h, n + 1, ml, pre, pre_wf, impl.tokenize(op[1]), out, report, count, from_text=True,
                        pre_text=pre_text)
        elif k == 'item':
            pass        # covered by the count clause in check_state
        elif not pre_canon:
            count('edit-skipped:pre-state-not-canonical')
        else:
            known = KNOWN_COMMENT if pre_comments else None
            if k == 'append':
                e, ok_e, known_e = medium_entry(impl, spec, op[1])
                if e is None:
                    want, acc = pre, False
                else:
                    want, acc = spec.spec_append(pre, e)
                got_acc = accepted(out, h.raising, 'append')
                if known_e and got_acc and not ok_e:
                    report('edit: a malformed medium is rejected', w, {'medium': op[1], 'outcome': out}, known_e)
                elif post != want or got_acc != acc_expected(acc, e, pre, h.raising, 'append'):
                    report('edit: appendMedium refines the ordered-set specification (present type moves to the end, '
                           'append to `all` rejected, `all` replaces everything)', w,
                           {'before': pre, 'after': post, 'expected': want, 'outcome': out}, known)
                if not acc and ml.mediaText != pre_text:
                    report('edit: a rejected edit changes nothing', w, {'before': pre_text, 'after': ml.mediaText},
                           known)
                count('edit:append:' + ('accepted' if acc else 'rejected'))
            elif k == 'delete':
                nn = norm(op[1])
                if not re.match(r'^[a-z][a-z0-9-]*$', nn):
                    count('edit-skipped:delete-argument-not-a-type-name')
                else:
                    want, acc = spec.spec_delete(pre, nn)
                    got_acc = accepted(out, h.raising, 'delete')
                    bad = post != want or (h.raising and got_acc != acc)
                    if bad:
                        report('edit: deleteMedium removes exactly that type; an absent type is rejected', w,
                               {'before': pre, 'after': post, 'expected': want, 'outcome': out}, known)
                    if not acc and ml.mediaText != pre_text:
                        report('edit: a rejected edit changes nothing', w,
                               {'before': pre_text, 'after': ml.mediaText}, known)
                    count('edit:delete:' + ('accepted' if acc else 'rejected'))
            elif k == 'setitem':
                e, ok_e, known_e = medium_entry(impl, spec, op[2])
                if e is None:
                    want, res = pre, 'rejected'
                else:
                    want, res = spec.spec_setitem(pre, op[1], e)
                if known_e and not ok_e and post != pre:
                    report('edit: a malformed medium is rejected', w, {'medium': op[2], 'outcome': out}, known_e)
                elif post != want or (res == 'index') != (out == 'raised:IndexError'):
                    report('edit: item assignment replaces the i-th medium and keeps the set canonical', w,
                           {'before': pre, 'after': post, 'expected': want, 'outcome': out}, known)
                if res != 'ok' and ml.mediaText != pre_text:
                    report('edit: a rejected edit changes nothing', w, {'before': pre_text, 'after': ml.mediaText},
                           known)
                count('edit:setitem:' + res)
        check_state(impl, spec, h, n + 1, ml, pre_canon, report, count)


def accepted(out, raising, kind):
    if out.startswith('raised:'):
        return False
    if kind == 'append':
        return out == 'ret:True'
    return True


def acc_expected(acc, e, pre, raising, kind):
    """what `accepted()` reads from the outcome for a specified acceptance: in log mode appendMedium reports the
    well-formedness of the new medium (True) also when `all` blocks it"""
    if kind == 'append' and not raising and e is not None:
        return True
    return acc


def medium_entry(impl, spec, text):
    """entry of a new medium given as text -> (entry or None, valid, known-finding id for an accepted invalid one)"""
    if text == '':
        return None, False, None
    toks = impl.tokenize(text)
    if not [t for t in toks if t[0] not in ('S', 'COMMENT')]:
        return None, False, None
    valid, chunks = spec.spec_chunks(toks)
    if len(chunks) != 1 or not valid:
        known = None
        if len(chunks) == 1 and 'B' in chunks[0][0] and QUERY.match(chunks[0][0].replace('B', 'V')):
            known = KNOWN_COLOUR
        return None, False, known
    return chunks[0][1], True, None


def check_parse(impl, spec, h, n, ml, pre, pre_wf, toks, out, report, count, from_text, pre_text=None):
    w = witness(h, n)
    valid, chunks = spec.spec_chunks(toks)
    syms = [c[0] for c in chunks]
    post = spec.view(ml)
    rejected = out.startswith('raised:') or not ml.wellformed
    count('parse:' + ('valid' if valid else 'invalid'))
    if not valid:
        if not rejected:
            known = attribute_malformed(syms)
            report('parse: one malformed query invalidates the whole list', w,
                   {'symbols': syms, 'mediaText': ml.mediaText, 'wellformed': bool(ml.wellformed)}, known)
        elif post != pre:
            report('parse: a rejected text changes nothing', w, {'before': pre, 'after': post}, None)
        return
    entries = [c[1] for c in chunks]
    want = spec.spec_canon(entries)
    if rejected:
        report('parse: a list of well-formed queries is accepted', w, {'symbols': syms, 'outcome': out}, None)
        return
    if post != want:
        known = None
        # the same canonicalisation with literal comparison of the spellings explains the result
        raws = [c[2] for c in chunks]
        lit = []
        seen = []
        hit_all = False
        for c in chunks:
            if c[2] == 'all':
                lit = [c[1]]
                hit_all = True
                break
            if c[2] is not None:
                if c[2] in seen:
                    continue
                seen.append(c[2])
            lit.append(c[1])
        spell_differs = any(r is not None and r != norm(r) for r in raws)
        if lit == post and spell_differs:
            known = KNOWN_CASE
        report('parse: the media of a text are the canonical ordered set of its queries (`all` absorbs, a simple '
               'type is kept once, order and content of the queries intact)', w,
               {'queries': entries, 'expected': want, 'got': post}, known)


def check_state(impl, spec, h, n, ml, pre_canon, report, count):
    w = witness(h, n)
    v = spec.view(ml)
    # canonical
    if pre_canon and not spec.canonical(v):
        # reported by the clause of the operation that produced it (parse: canonical set); keep one generic line for
        # operations that passed their own clause
        count('state:not-canonical')
    # count / index / iteration
    types = [q.value.mediaType for q in ml]
    log = impl.cssutils.log
    items = []
    for i in range(ml.length + 1):
        items.append(impl.call(False, lambda i=i: ml.item(i)))
    want = ['ret:%s' % t for t in types] + ['ret:None']
    if ml.length != len(types) or items != want:
        report('count: length, item(i) and iteration agree', w,
               {'length': ml.length, 'iteration': types, 'item(0..length)': items},
               KNOWN_COMMENT if spec.comments_in_list(ml) else None)
    # reparse
    text = ml.mediaText
    if ml.length == 0:
        if text != 'all':
            report('reparse: an empty list means all', w, {'mediaText': text},
                   KNOWN_COMMENT if spec.comments_in_list(ml) else None)
        return
    if not spec.canonical(v):
        # produced (and reported) by the operation before; its text cannot denote the same list
        count('reparse-skipped:state-not-canonical')
        return
    ml2 = impl.MediaList()
    out = impl.call(False, lambda: setattr(ml2, 'mediaText', text))
    v2 = spec.view(ml2)
    # comments keep their order but may change sides of a comma (a comment between a comma and a query belongs to
    # the list, after a query to that query): texts are compared as significant tokens + sequence of comments
    t1, t2 = impl.tokenize(text), impl.tokenize(ml2.mediaText)
    same_text = [t for t in t1 if t[0] not in ('S', 'COMMENT')] == [t for t in t2 if t[0] not in ('S', 'COMMENT')] \
        and [t for t in t1 if t[0] == 'COMMENT'] == [t for t in t2 if t[0] == 'COMMENT']
    same = bool(ml2.wellformed) and v2 == v and same_text and \
        [q.value.mediaType for q in ml2] == types
    count('reparse')
    if not same:
        known = None
        known = attribute_malformed(spec.malformed_queries(ml))
        report('reparse: the text of the list parses to an equal list and is a fixpoint', w,
               {'mediaText': text, 'reparsed': ml2.mediaText, 'wellformed': bool(ml2.wellformed),
                'view': v, 'view_reparsed': v2}, known)


def check_owner(impl, spec, h, ml, toks, report, count):
    """the list owned by a rule = the stand-alone list for the same significant tokens"""
    alone = impl.MediaList()
    impl.call(False, lambda: setattr(alone, 'mediaText', h.start))
    a = [t for t in impl.tokenize(h.start) if t[0] not in ('S', 'COMMENT')]
    b = [t for t in toks if t[0] not in ('S', 'COMMENT')]
    if a != b:
        count('owner-skipped:rule-took-other-tokens')
        return
    count('owner')
    if bool(alone.wellformed) != bool(ml.wellformed) or (alone.wellformed and spec.view(alone) != spec.view(ml)):
        valid, chunks = spec.spec_chunks(toks)
        known = attribute_malformed([c[0] for c in chunks])
        if known != KNOWN_MISSING:
            known = None
        report('owner: the list of an @media / @import rule equals the stand-alone list', witness(h, 0),
               {'alone': [bool(alone.wellformed), alone.mediaText], 'owned': [bool(ml.wellformed), ml.mediaText]},
               known)


# the ten media types of the property statement (CSS 2.1 section 7.3), written here independently of the code
TEN_MEDIA_TYPES = {'all', 'braille', 'embossed', 'handheld', 'print', 'projection', 'screen', 'speech', 'tty', 'tv'}


def check_vocabulary(ctx, impl):
    """the lists are over the ten known media types: each of them is a medium, nothing else is"""
    for t in sorted(TEN_MEDIA_TYPES) + ['foo', 'aural', 'tvx', 'only', 'not', 'and']:
        ml = impl.MediaList()
        impl.call(False, lambda: setattr(ml, 'mediaText', t))
        ok = bool(ml.wellformed) and [q.value.mediaType for q in ml] == [t]
        ctx.case(key=('vocabulary', t), nontrivial=True, kind='vocabulary')
        if ok != (t in TEN_MEDIA_TYPES):
            ctx.violate('vocabulary: the media types are the ten known ones', {'context': 'alone', 'start': t,
                                                                                'ops': [], 'raising': False},
                        {'accepted': ok})


def run_oracle(ctx, impl, hist, rng, extra=True):
    from lib.framework import time_limit
    spec = Spec(impl)

    def report(clause, w, detail, known=None):
        ctx.violate(clause, w, detail, known=known)

    def count(k):
        ctx.count('oracle:' + k)
    for h in hist:
        with time_limit(20):
            check_history(impl, spec, h, report, count)
        # self-check of the oracle's grammar against the generator: a text rendered from ASTs is valid
        if h.asts is not None and h.kind == 'grammar':
            valid, chunks = spec.spec_chunks(impl.tokenize(h.start))
            if not valid or len(chunks) != len(h.asts):
                ctx.disagree('oracle self-check: generated well-formed list is not valid for the oracle grammar',
                             {'start': h.start}, [c[0] for c in chunks], len(h.asts))


def replay_known(impl, finding):
    """True if the witness of the finding still fails on the implementation in the way the finding says"""
    import harness.c17_gen as G
    spec = Spec(impl)
    d = finding['witness']['data']
    h = G.History(d.get('context', 'alone'), d['start'], [tuple(o) for o in d.get('ops', [])],
                  raising=d.get('raising', False), kind='known')
    c = Collector()
    check_history(impl, spec, h, c)
    return any(k == finding['id'] for (_, _, _, k) in c.found)
