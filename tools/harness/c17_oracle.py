"""stub"""
def run_oracle(ctx, impl, hist, rng, extra=True):
    pass
def replay_known(impl, finding):
    return True
