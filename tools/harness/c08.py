"""C08 — sheet/import encoding precedence; serialised bytes decodable and lossless.

model:    lean/CssVerif/Model/EncLadder.lean (ladder, import hand-over), EncSheet.lean (charset under edits),
          EncEscape.lean (escapecss, unicodesub scanner);  theorems: lean/CssVerif/Props/C08.lean
correspondence (model vs implementation, canonical observables):
  A  `_readUrl` on the FULL table override x HTTP x content header x parent x bytes/text x fetcher result shape
     over mutually distinguishable encodings: (encoding, enctype, decoded text | exception class)
  B  import trees of depth <= 3 through CSSParser(fetcher=recording).parseString / parseUrl: fetch log, and per
     import rule (depth, href, hrefFound, parentEncoding handed to _readUrl, enctype, encoding used, decoded text,
     reported sheet.encoding)
  C  histories of public edits on a CSSStyleSheet (encoding=, insertRule/add of every rule kind, deleteRule,
     rule.encoding=, cssText=): per operation exception class, rule kinds, sheet.encoding
  D  escapecss: text.encode(enc, 'escapecss') vs `escape`; Tokenizer.unicodesub (through COMMENT tokens) vs `unescape`
oracle (implementation only, independent of the model): the precedence written as a first-match list over the
  tree description; override reaches every nested import; reported encoding == encoding used; encoding mirrors the
  @charset rule after every edit and the bytes decode in it; serialise -> decode -> reparse gives the same DOM for
  content streams x target encodings.
"""
import codecs
import itertools
import logging
import re

from lib.framework import Check, enc, encb, time_limit

from harness import c08_gen as G
from harness import c08_tok as T
from gen import c08_productions as gen_prod

U8 = 'utf-8'


def silence():
    import cssutils
    cssutils.log.setLevel(logging.CRITICAL + 10)
    cssutils.log.raiseExceptions = True
    return cssutils


# ------------------------------------------------------------------------------------------------
# protocol helpers
def on(name):
    return 'N' if name is None else enc(name)


def ocontent(c):
    return ('B:' + encb(c)) if isinstance(c, bytes) else ('T:' + enc(c))


def oshape(r):
    """a fetcher result as the protocol shape"""
    if not r:
        return 'none'
    if len(r) != 2:
        return 'badlen'
    if r[1] is None:
        return 'nc:' + on(r[0])
    return 'p:%s:%s' % (on(r[0]), ocontent(r[1]))


def py_lookup(name):
    try:
        codecs.lookup(name)
        return True
    except (LookupError, ValueError, TypeError):
        return False


def dec_entries(names, blobs):
    """D / K words: what CPython's codecs do for every (name, bytes) in question"""
    words = []
    seen = set()
    for n in names:
        if n is None or n in seen:
            continue
        seen.add(n)
        if G.impl_valid_name(n):
            words += ['K', enc(n)]
        if not py_lookup(n):
            continue
        for b in blobs:
            try:
                t = codecs.getdecoder(n)(b)[0]
                if not isinstance(t, str):
                    continue
                words += ['D', enc(n), encb(b), 'OK:' + enc(t)]
            except UnicodeDecodeError:
                words += ['D', enc(n), encb(b), 'UERR']
            except Exception:
                continue
    return words


def name_closure(names):
    out = []
    for n in names:
        if n is None:
            continue
        for v in (n, n.lower()):
            if v not in out:
                out.append(v)
    for v in G.DETECT_NAMES:
        if v not in out:
            out.append(v)
    return out


# ------------------------------------------------------------------------------------------------
class C08(Check):
    id = 'C08'
    props_module = 'CssVerif.Props.C08'
    driver_exe = 'drv_c08'
    sources = ('cssutils/util.py', 'cssutils/parse.py', 'cssutils/css/cssstylesheet.py',
               'cssutils/css/cssimportrule.py', 'cssutils/css/csscharsetrule.py', 'cssutils/serialize.py',
               'cssutils/codec.py', 'cssutils/tokenize2.py', 'cssutils/cssproductions.py')
    trusted_base = (
        'hand-written models lean/CssVerif/Model/EncLadder.lean (_readUrl, _setHref, _resolveImport, '
        '_setCssTextWithEncodingOverride, parseString/parseUrl), EncSheet.lean (insertRule/deleteRule/encoding), '
        'EncEscape.lean (_escapecss, unicodesub as a scanner), tied to the source by the correspondences of this run',
        'CPython codecs are an oracle of the model (World.dec / World.known): their answers for the names and byte '
        'strings of each case are computed by the harness and handed to the model',
        'the sheet parser is a parameter of the import model (World.view); the driver instantiates it with a small '
        'scanner that is checked against the real parser only on the sheets the generator writes',
        'the harness reads the arguments/results of _readUrl by wrapping the module attribute '
        'cssutils.css.cssstylesheet._readUrl and CSSStyleSheet._setCssTextWithEncodingOverride (pass-through)',
    )
    assumptions = (
        '@import hrefs in generated sheets are absolute URLs (urljoin is the identity on them)',
        'encoding names are ASCII without CSS escapes',
        'escapecss: the encodings used are stateless (representability is a predicate on single characters)',
    )
    rule = ('A: the full table {override None/""/name} x {HTTP None/""/name} x {parent None/""/name} x {17 byte contents, '
            '8 text contents, 5 results without content, list-for-tuple}, per round a fresh injective assignment of 7 mutually '
            'distinguishable encodings (each decodes the probe bytes C3 A4 / E4 to a different text), last round with a name '
            'CPython does not know; B: 11 fixed + generated import trees (1-5 nodes, depth<=3, missing/recursive/duplicate/late '
            'imports, comment or white space first, bytes/text nodes, 5 @import spellings) x parseString/parseUrl x override; '
            'C: 4 fixed + random edit histories of 1-9 public operations; D: texts over an escape-relevant alphabet x 12 target '
            'encodings, and for unicodesub; R: 22 fixed + generated sheets from 21 position-wise templates x target encodings. '
            'non-trivial = not decided by the default (an encoding other than UTF-8-by-default is chosen, a charset rule is '
            'involved, something had to be escaped, the unescaped text differs from the text)')

    # ------------------------------------------------------------------------------------------
    def run(self, ctx):
        cssutils = silence()
        G.install_wrappers()
        for part in (self.corpus, self.part_a, self.part_b, self.part_c, self.part_d, self.part_e, self.oracle_reparse):
            ctx.phase(part, ctx, cssutils)

    def translate(self, ctx):
        # the tokenizer's productions of THIS source (Lemmas/EncTokTable.lean proves them equal to the table the theorems use)
        _, text = gen_prod.build(ctx.repo)
        return {'CssVerif/Gen/C08Productions.lean': text}

    # == E: escapecss against the tokenizer (T8.4c) ====================================================
    def part_e(self, ctx, cssutils):
        T.part(self, ctx, cssutils)

    # -- corpus: minimized past failures, run first ---------------------------------------------------
    def corpus(self, ctx, cssutils):
        import json
        import os
        d = os.path.join(ctx.verif, 'tools', 'corpus', 'C08')
        n = 0
        if os.path.isdir(d):
            for fn in sorted(os.listdir(d)):
                if fn.endswith('.json'):
                    for item in json.load(open(os.path.join(d, fn))):
                        self.replay_item(ctx, cssutils, item)
                        n += 1
        ctx.notes['corpus_items'] = n

    def replay_item(self, ctx, cssutils, item):
        k = item.get('kind')
        if k == 'readurl':
            self.check_readurl(ctx, cssutils, [G.ReadCase.from_json(item)])
        elif k == 'tree':
            self.check_trees(ctx, cssutils, [G.TreeCase.from_json(item)])
        elif k == 'edits':
            self.check_edits(ctx, cssutils, [item['ops']])
        elif k == 'escape':
            self.check_escape(ctx, cssutils, [(item['text'], item['encoding'])])
        elif k == 'unescape':
            self.check_unescape(ctx, cssutils, [(m, item['text']) for m in ([item['token']] if item.get('token') else ['name', 'str'])])
        elif k == 'reparse':
            self.check_reparse(ctx, cssutils, item['text'], item['encoding'])
        elif k in ('tokesc', 'tokfirst', 'tokescf'):
            T.check(self, ctx, cssutils, [(item['text'], item['encoding'])])

    # == A: the ladder =================================================================================
    def part_a(self, ctx, cssutils):
        rng = ctx.sub_rng('A')
        cases = list(G.readurl_table(rng, rounds=ctx.n(2, 12)))
        ctx.notes['A_table_rows'] = len(cases)
        self.check_readurl(ctx, cssutils, cases)

    def check_readurl(self, ctx, cssutils, cases):
        from cssutils.util import _readUrl
        lines = []
        for c in cases:
            blobs = [c.content] if isinstance(c.content, bytes) else []
            names = name_closure([c.override, c.http, c.parent] + c.extra_names)
            lines.append(' '.join(['readurl', on(c.override), on(c.parent), oshape(c.result)] +
                                  dec_entries(names, blobs)))
        out = ctx.driver(lines) if ctx.model_ok else [None] * len(lines)
        for c, m in zip(cases, out):
            try:
                with time_limit(10):
                    r = _readUrl('http://h/x.css', fetcher=lambda url, c=c: c.result,
                                 overrideEncoding=c.override, parentEncoding=c.parent)
                if r == (None, None, None):
                    got = 'NONE'
                else:
                    got = 'OK %s %d %s' % (enc(r[0]), r[1], 'N' if r[2] is None else enc(r[2]))
            except LookupError:
                r, got = 'LookupError', 'ERR LookupError'
            except Exception as e:      # anything else is reported as is
                r, got = type(e).__name__, 'ERR ' + type(e).__name__
            want = c.spec()
            ctx.case(key=('A', c.key()), nontrivial=(want is not None and want[1] != 5),
                     kind='A:' + (got.split()[0] if got[:2] != 'OK' else 'enctype%d' % r[1]),
                     sample={'readurl': c.to_json(), 'impl': got})
            if m is not None and m != got:
                ctx.disagree('_readUrl', c.to_json(), got, m)
            # oracle: the precedence as a first-match list, independent of the code and of the model
            if want == 'skip':
                continue
            if want is None:
                if got != 'NONE':
                    ctx.violate('a fetcher result without content yields no sheet', c.to_json(), {'impl': got})
            elif isinstance(r, tuple) and r[0] is not None:
                if (r[0], r[1]) != (want[0], want[1]):
                    ctx.violate('the encoding is the first applicable of override / HTTP / BOM-or-@charset / parent / UTF-8',
                                c.to_json(), {'impl': [r[0], r[1]], 'spec': list(want[:2])})
                elif want[2] == 'lookup':
                    # an encoding the runtime does not know: the sheet is not readable, nothing raises
                    if r[2] is not None:
                        ctx.violate('content in an encoding the runtime does not know is not read', c.to_json(),
                                    {'impl': r[2]})
                elif want[2] != 'skip' and r[2] != want[2]:
                    ctx.violate('the content is decoded with the chosen encoding (text content is left alone)',
                                c.to_json(), {'impl': r[2], 'spec': want[2]})
            elif got.startswith('ERR'):
                ctx.violate('reading an imported sheet never raises', c.to_json(), {'impl': got})

    # == B: import trees =================================================================================
    def part_b(self, ctx, cssutils):
        rng = ctx.sub_rng('B')
        cases = list(G.fixed_trees()) + G.bom_trees() + [G.gen_tree(rng) for _ in range(ctx.n(3000, 40000))]
        self.check_trees(ctx, cssutils, cases)

    def check_trees(self, ctx, cssutils, cases):
        lines = []
        for c in cases:
            names = name_closure(c.all_names())
            words = []
            for url, r in c.files.items():
                words += ['F', enc(url), oshape(r)]
            words += dec_entries(names, c.all_blobs())
            if c.mode == 'ps':
                lines.append(' '.join(['load', 'ps', '8', on(c.override), on(c.href), ocontent(c.root)] + words))
            else:
                lines.append(' '.join(['load', 'pu', '8', on(c.override), on(c.href)] + words))
        out = ctx.driver(lines) if ctx.model_ok else [None] * len(lines)
        for c, m in zip(cases, out):
            with time_limit(20):
                res = G.run_tree(cssutils, c)
            got = G.show_tree_result(res)
            nontriv = res.get('recs') is not None and any(r['found'] and r['enctype'] != 5 for r in res['recs'])
            ctx.case(key=('B', c.key()), nontrivial=nontriv, kind='B:%s:%s' % (c.mode, res['status']),
                     sample={'tree': c.to_json(), 'impl': got[:400]})
            for r in res.get('recs') or []:
                if r['found']:
                    ctx.count('B:enctype%d:depth%d' % (r['enctype'], r['depth']))
                else:
                    ctx.count('B:notfound')
            if m is not None and G.mask_model_tree(m) != got:
                ctx.disagree('import tree (%s)' % c.mode, c.to_json(), got, G.mask_model_tree(m))
            self.oracle_tree(ctx, c, res)

    def oracle_tree(self, ctx, c, res):
        """the statement of the property on the DOM that came out, from the tree description alone"""
        if res['status'] != 'ok':
            if res['status'] in ('LookupError', 'UnicodeDecodeError') and c.mode == 'ps' and isinstance(c.root, bytes):
                # documented for the root sheet given as bytes — when its own bytes do not decode in the encoding the
                # precedence gives (override, else BOM/@charset, else UTF-8) or that name is unknown to the runtime
                want = c.override if c.override is not None else (G.spec_explicit(c.root) or 'utf-8')
                try:
                    c.root.decode(want)
                except (LookupError, UnicodeDecodeError):
                    return
            if res['status'] == 'none':
                return
            ctx.violate('loading sheets in known encodings does not raise', c.to_json(), {'impl': res['status']})
            return
        if c.has_unknown_names():
            return          # outside the quantifier (the correspondence still covers these cases)
        for v in G.spec_tree_violations(c, res):
            ctx.violate(v['clause'], c.to_json(), v['detail'])

    # == C: edits ======================================================================================
    def part_c(self, ctx, cssutils):
        rng = ctx.sub_rng('C')
        hist = [G.gen_edits(rng) for _ in range(ctx.n(2000, 30000))]
        self.check_edits(ctx, cssutils, G.fixed_edits() + hist)

    def check_edits(self, ctx, cssutils, histories):
        valid = [n for n in G.EDIT_NAMES if G.impl_valid_name(n)]
        for n in G.EDIT_NAMES + G.UNKNOWN + [x for v in G.SPELL.values() for x in v] + G.TARGETS:
            want = G.spec_valid_name(n)
            if want != 'either' and (want == 'yes') != G.impl_valid_name(n):
                ctx.violate('CSSCharsetRule accepts exactly the names that are one IDENT and a text encoding of the runtime',
                            {'kind': 'name', 'name': n}, {'impl_accepts': G.impl_valid_name(n), 'spec': want})
        lines = [' '.join(['sheet', 'V'] + [enc(n) for n in valid] + ['O'] + [G.op_word(o) for o in ops])
                 for ops in histories]
        out = ctx.driver(lines) if ctx.model_ok else [None] * len(lines)
        for ops, m in zip(histories, out):
            with time_limit(20):
                steps, final, viol = G.run_edits(cssutils, ops)
            got = ';'.join(steps) + ' = ' + final
            ctx.case(key=('C', tuple(G.op_word(o) for o in ops)), nontrivial=any('charset' in s for s in steps),
                     kind='C:len%d' % min(len(ops), 9), sample={'edits': [G.op_word(o) for o in ops], 'impl': got[:300]})
            for s in steps:
                ctx.count('C:' + s.split(':')[0])
            if m is not None and m != got:
                ctx.disagree('sheet edits', {'ops': ops}, got, m)
            for v in viol:
                ctx.violate(v['clause'], {'kind': 'edits', 'ops': ops}, v['detail'], known=v.get('known'))

    # == D: escapecss / unicodesub =====================================================================
    def part_d(self, ctx, cssutils):
        rng = ctx.sub_rng('D')
        pairs = G.fixed_escape_pairs()
        for _ in range(ctx.n(6000, 80000)):
            pairs.append((G.gen_escape_text(rng), rng.choice(G.TARGETS)))
        self.check_escape(ctx, cssutils, pairs)
        texts = G.fixed_unescape_texts() + [G.gen_unescape_text(rng) for _ in range(ctx.n(12000, 200000))]
        self.check_unescape(ctx, cssutils, texts)

    def check_escape(self, ctx, cssutils, pairs):
        import cssutils.serialize  # noqa: F401  (registers the error handler)
        lines, meta = [], []
        for text, e in pairs:
            unrep = G.unrepresentable(text, e)
            lines.append('esc %s %s' % (enc(unrep), enc(text)))
            lines.append('ok %s %s' % (enc(unrep), enc(text)))
            lines.append('oks %s %s' % (enc(unrep), enc(text)))
            meta.append((text, e, unrep))
        out = ctx.driver(lines) if ctx.model_ok else [None] * len(lines)
        for i, (text, e, unrep) in enumerate(meta):
            b = text.encode(e, 'escapecss')
            ctx.case(key=('Desc', text, e), nontrivial=bool(unrep), kind='D:esc:' + ('escaped' if unrep else 'plain'),
                     sample={'escape': text, 'encoding': e, 'bytes': b.hex()})
            m = out[3 * i]
            if m is not None:
                try:
                    mb = G.dec_str(m).encode(e)
                except UnicodeEncodeError:
                    mb = None
                if mb != b:
                    ctx.disagree('escapecss', {'kind': 'escape', 'text': text, 'encoding': e}, b.hex(), m)
            # oracle: decodable, and the tokenizer reads the same token value as from the unescaped text
            try:
                back = b.decode(e)
            except UnicodeDecodeError as x:
                ctx.violate('the serialised bytes decode in the sheet encoding', {'kind': 'escape', 'text': text, 'encoding': e},
                            {'error': str(x)})
                continue
            for k, mode in ((1, 'name'), (2, 'str')):
                guard_ok = G.py_guard_ok(text, unrep, mode)
                mo = out[3 * i + k]
                if mo is not None and (mo == '1') != guard_ok:
                    ctx.disagree('escape guard (%s)' % mode, {'kind': 'escape', 'text': text, 'encoding': e}, guard_ok, mo)
                orig = G.impl_unescape(cssutils, text, mode)
                if orig is None:
                    continue            # not the body of one IDENT / STRING token
                ctx.count('D:token:' + mode)
                reads = G.impl_unescape(cssutils, back, mode)
                if reads != orig:
                    ctx.violate('escaping what the encoding cannot represent does not change what the tokenizer reads',
                                {'kind': 'reparse-token', 'text': text, 'encoding': e, 'token': mode},
                                {'escaped': back, 'reads': reads, 'original_reads': orig},
                                known=None if guard_ok else 'C08-escaped-unrepresentable')

    def check_unescape(self, ctx, cssutils, texts):
        texts = [(m, t) for (m, t) in texts]
        vals = [G.impl_unescape(cssutils, t, m) for (m, t) in texts]
        keep = [(mt, v) for mt, v in zip(texts, vals) if v is not None]
        ctx.notes['D_unescape_not_a_token_body'] = ctx.notes.get('D_unescape_not_a_token_body', 0) + len(texts) - len(keep)
        lines = [('unesc ' if m == 'name' else 'unescs ') + enc(t) for ((m, t), v) in keep]
        out = ctx.driver(lines) if ctx.model_ok else [None] * len(lines)
        for ((mode, t), v), m in zip(keep, out):
            got = enc(v)
            ctx.case(key=('Dun', mode, t), nontrivial=(v != t), kind='D:unesc:%s:%s' % (mode, 'changed' if v != t else 'same'),
                     sample={'unescape': t, 'token': mode, 'impl': v})
            if m is not None and m != got:
                ctx.disagree('unicodesub' if mode == 'name' else 'stringsub', {'kind': 'unescape', 'text': t, 'token': mode},
                             got, m)

    # == oracle: serialise -> decode -> reparse ===========================================================
    def oracle_reparse(self, ctx, cssutils):
        rng = ctx.sub_rng('R')
        for text in G.fixed_sheets():
            for e in G.TARGETS:
                self.check_reparse(ctx, cssutils, text, e)
        for _ in range(ctx.n(900, 15000)):
            text = G.gen_sheet(rng)
            for e in rng.sample(G.TARGETS, 3):
                self.check_reparse(ctx, cssutils, text, e)

    def check_reparse(self, ctx, cssutils, text, e):
        with time_limit(30):
            r = G.reparse(cssutils, text, e)
        ctx.case(key=('R', text, e), nontrivial=r['escaped'], kind='R:' + r['status'],
                 sample={'sheet': text, 'encoding': e, 'status': r['status']})
        if r['status'] == 'ok':
            return
        ctx.violate(r['clause'], {'kind': 'reparse', 'text': text, 'encoding': e}, r['detail'], known=r.get('known'))

    # ------------------------------------------------------------------------------------------
    def known(self, ctx, finding):
        cssutils = silence()
        G.install_wrappers()
        return G.known_still_fails(cssutils, finding)

    def replay(self, ctx, data):
        cssutils = silence()
        G.install_wrappers()
        w = data.get('witness') or {}
        items = []
        if w:
            items.append(w)
        for b in data.get('broken') or []:
            if isinstance(b.get('input'), dict):
                items.append(b['input'])
        if not items:
            self.run(ctx)
            return
        for item in items:
            if 'ops' in item and 'kind' not in item:
                item = dict(item, kind='edits')
            if item.get('kind') == 'reparse-token':
                item = dict(item, kind='escape')
            self.replay_item(ctx, cssutils, item)


CHECK = C08()
