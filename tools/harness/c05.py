"""C05 — tokenizer: total, lossless, position-accurate, classifies by the grammar.

model:     lean/CssVerif/Model/Tok.lean (+ generated lean/CssVerif/Gen/C05Productions.lean)
theorems:  lean/CssVerif/Props/C05.lean
translate: tools/gen/c05_productions.py (MACROS/PRODUCTIONS, at-keywords, unicodesub/stringsub/_simpleescapes,
           literal constants of Tokenizer.tokenize) — cross-checked against the live objects
correspondence:
  (1) Re level: `re.compile(p).match(s)` vs `Re.first` for every generated production / auxiliary pattern on
      strings over the pattern's own alphabet (validates the sre-faithfulness assumption),
  (2) tokenizer: (type, value, line, col) lists, impl vs model, fullsheet x doComments, on the grammar-token
      stream, its malformed mutations / truncations, the boundary stream and a character soup,
  (3) unicodesub / stringsub (+ _repl) / normalize / error-report helpers.
oracle (implementation only, independent of the model): termination; offsets recomputed from (line, col) tile the
  input; value = independent unescape of the span (+ completion for the last token of a full sheet); exactly one
  EOF, last; classification of grammar tokens rendered with unambiguous separators; error reports.
"""
import json
import os
import re
import sys

from lib.framework import Check, TimeLimit, dec, enc, time_limit
from gen import c05_productions as gen
from gen import relib

HEX = '0123456789abcdefABCDEF'
UNESC_TYPES = ('DIMENSION', 'IDENT', 'HASH', 'FUNCTION', 'UNICODE-RANGE')     # escapes decoded
STRING_TYPES = ('STRING', 'INVALID', 'URI')                                    # one-pass string decoding
# every other type, comments included: the value is the text itself
MODES = ((True, True), (False, True), (True, False), (False, False))


# ----------------------------------------------------------------------------------------------
# independent specification functions (oracle side; nothing here looks at the model or at the code's regexes)
def spec_unescape(s):
    """CSS escapes decoded the way token values carry them: `\\\\` stays, `\\` + 1-6 hex digits + optional single
    white space (CRLF counts as one) becomes the code point (an escaped backslash if it is U+005C; left as written
    above U+10FFFF); everything else is copied"""
    out, i, n = [], 0, len(s)
    while i < n:
        c = s[i]
        if c == '\\' and i + 1 < n:
            d = s[i + 1]
            if d == '\\':
                out.append('\\\\')
                i += 2
                continue
            if d in HEX:
                j = i + 1
                while j < n and j < i + 7 and s[j] in HEX:
                    j += 1
                num = int(s[i + 1:j], 16)
                k = j
                if s[k:k + 2] == '\r\n':
                    k += 2
                elif k < n and s[k] in '\t\r\n\f ':
                    k += 1
                if num == 0x5C:
                    out.append('\\\\')
                elif num <= 0x10FFFF:
                    out.append(chr(num))
                else:
                    out.append(s[i:k])
                i = k
                continue
        out.append(c)
        i += 1
    return ''.join(out)


def esc_units(s):
    """single left-to-right pass over a token text -> list of (kind, text, decoded) units:
    'pair' (escaped backslash), 'hex' (hex escape, decoded = code point), 'cont' (backslash-newline), 'chr'"""
    out, i, n = [], 0, len(s)
    while i < n:
        c = s[i]
        if c == '\\' and i + 1 < n:
            d = s[i + 1]
            if d == '\\':
                out.append(('pair', s[i:i + 2], None))
                i += 2
                continue
            if s[i + 1:i + 3] == '\r\n':
                out.append(('cont', s[i:i + 3], None))
                i += 3
                continue
            if d in '\n\r\f':
                out.append(('cont', s[i:i + 2], None))
                i += 2
                continue
            if d in HEX:
                j = i + 1
                while j < n and j < i + 7 and s[j] in HEX:
                    j += 1
                num = int(s[i + 1:j], 16)
                k = j
                if s[k:k + 2] == '\r\n':
                    k += 2
                elif k < n and s[k] in '\t\r\n\f ':
                    k += 1
                out.append(('hex', s[i:k], num))
                i = k
                continue
        out.append(('chr', c, None))
        i += 1
    return out


def spec_string_value(s):
    """value of a STRING / INVALID token, decoded in ONE pass: escaped backslash kept, backslash-newline dropped,
    hex escapes decoded (U+005C as an escaped backslash, above U+10FFFF as written)"""
    out = []
    for kind, txt, num in esc_units(s):
        if kind == 'cont':
            continue
        if kind == 'hex':
            out.append('\\\\' if num == 0x5C else chr(num) if num <= 0x10FFFF else txt)
        else:
            out.append(txt)
    return ''.join(out)


def spec_value(typ, src):
    if typ in STRING_TYPES:
        return spec_string_value(src)
    if typ in UNESC_TYPES:
        return spec_unescape(src)
    return src


def spec_linecol(text, off):
    """(1 + number of LF before off, 1 + distance to the previous LF)"""
    pre = text[:off]
    return 1 + pre.count('\n'), len(pre) - (pre.rfind('\n') + 1) + 1


def offset_of(text, line, col, starts):
    if line < 1 or line > len(starts) or col < 1:
        return None
    return starts[line - 1] + col - 1


def line_starts(text):
    st = [0]
    for i, c in enumerate(text):
        if c == '\n':
            st.append(i + 1)
    return st


# ----------------------------------------------------------------------------------------------
def impl_tokens(text, full, doc, limit=5.0):
    from cssutils.tokenize2 import Tokenizer
    with time_limit(limit):
        return [tuple(t) for t in Tokenizer(doComments=doc).tokenize(text, fullsheet=full)]


def show_tokens(toks):
    return ' '.join('%s:%s:%d:%d' % (t[0], enc(t[1]), t[2], t[3]) for t in toks)


def parse_reply(line):
    """driver reply -> (stop, [tokens])"""
    head, _, rest = line.partition(' |')
    toks = []
    for w in rest.split():
        typ, val, l, c = w.split(':')
        toks.append((typ, dec(val), int(l), int(c)))
    return head, toks


# ----------------------------------------------------------------------------------------------
# generators
NONASCII = ['\x80', '\xa0', 'é', 'ÿ', 'Ā', 'K', 'İ', '€', '\ud800', '\udfff', '￿', '\U00010000',
            '\U0001F600', '\U0010FFFF', '\xfe', '\xff', '\xef', '\xbb', '\xbf', '﻿', '\x7f']
WS = [' ', '\t', '\n', '\r', '\f', '\r\n']
SOUP = list('aAzZgGuUrRlL019fF_-+.%#@!*/\\"\'(){}[]:;,<>=~|^$&? \t\n\r\f\x00\x0b') + NONASCII + \
    ['/*', '*/', 'url(', '\\\\', '\\41', '\\5c', '@charset ', '<!--', '-->', 'U+', '\r\n', '\\\n']


TERMINATORS = ['', ' ', '\t', '\n', '\r\n', '\f', '\r']
# characters worth writing as hex escapes inside names: the hex form starts with a decimal digit, a letter digit
# (A-F: \E9, \ABCD, \FFFD), mixes both, has 1..6 digits
ESCAPABLE = ['é', 'É', '«', 'µ', 'ö', 'ß', '\xa0', '\ufffd', '\uabcd', '\U0001F600', '\U0010FFFF', '\u03bb', '€', '\x0b']


def hex_spelling(rng, cp):
    """hex digits of cp: letter case chosen per digit, leading zeros up to six digits"""
    digits = ''.join(c.upper() if rng.random() < 0.5 else c for c in '%x' % cp)
    if rng.random() < 0.4:
        digits = digits.rjust(rng.randint(len(digits), 6), '0')
    return digits


def g_escape(rng, ch, always=False):
    """a CSS spelling of the character ch that unescapes to ch: 1-6 hex digits in any letter case, every
    terminator (also when it is not needed, e.g. after six digits)"""
    if always or rng.random() < 0.45:
        return '\\' + hex_spelling(rng, ord(ch)) + rng.choice(TERMINATORS), True
    return ch, False


def g_name_chars(rng, n, start):
    out, val, plain = [], [], True
    for i in range(n):
        pool = 'abcdefghijklmnopqrstuvwxyzABCDEFGHIJKLMNOPQRSTUVWXYZ_' if (start and i == 0) else \
            'abcdefghijklmnopqrstuvwxyzABCDEFGHIJKLMNOPQRSTUVWXYZ_-0123456789'
        r = rng.random()
        if r < 0.75:
            ch = rng.choice(pool)
        elif r < 0.82:
            ch = rng.choice(['é', 'Ā', '€', '\U0001F600', '\x80', '\U0010FFFF', '￿'])
        else:
            ch = rng.choice(pool) if r < 0.91 else rng.choice(ESCAPABLE)
            sp, esc = g_escape(rng, ch, always=ch not in pool)
            if esc:
                # a hex escape without terminator must not be followed by a hex digit / white space issue:
                out.append(('E', sp))
                val.append(ch)
                plain = False
                continue
        out.append(('C', ch))
        val.append(ch)
    # join: an unterminated hex escape (fewer than 6 digits) followed by a hex digit would swallow it
    s = ''
    for k, (kind, sp) in enumerate(out):
        if kind == 'E' and sp[-1] in HEX and len(sp) < 7 and k + 1 < len(out):
            nxt = out[k + 1][1]
            if nxt[0] in HEX or nxt[0] in ' \t\r\n\f':
                sp = sp + ' '
        if kind == 'E' and sp[-1] in HEX and k + 1 == len(out):
            sp = sp + ' '       # an escape that ends a lexeme would swallow the separator
        s += sp
    return s, ''.join(val), plain


def g_ident(rng, escapes=True):
    n = rng.randint(1, 6)
    pre = rng.choice(['', '', '', '-', '--'])
    s, v, plain = g_name_chars(rng, n, True)
    if not escapes or rng.random() < 0.6:
        v = ''.join(rng.choice('abcdefghijklmnopqrstuvwxyzABCDEFGHIJKLMNOPQRSTUVWXYZ_') for _ in range(1)) + \
            ''.join(rng.choice('abcxyzABCXYZ_-019') for _ in range(n - 1))
        s, plain = v, True
    return pre + s, pre + v, plain


def g_num(rng):
    return rng.choice(['', '', '+', '-']) + rng.choice(['0', '1', '12', '007', '.5', '1.5', '0.0', '10.25', '.0'])


RESERVED = ['@font-face', '@import', '@media', '@namespace', '@page', '@variables']
RES_SYM = {'@font-face': 'FONT_FACE_SYM', '@import': 'IMPORT_SYM', '@media': 'MEDIA_SYM',
           '@namespace': 'NAMESPACE_SYM', '@page': 'PAGE_SYM', '@variables': 'VARIABLES_SYM'}


def g_token(rng):
    """-> (expected type, lexeme, expected value, needs_trailing_sep, kind tag); the lexeme is a complete
    grammar token; `plain` lexemes are classified unambiguously when separated by a space"""
    k = rng.choice(['IDENT', 'IDENT', 'FUNCTION', 'ATKEYWORD', 'RESERVED', 'HASH', 'NUMBER', 'PERCENTAGE',
                    'DIMENSION', 'UNICODE-RANGE', 'STRING', 'STRING', 'URI', 'URI', 'OP', 'CDO', 'CDC', 'COMMENT',
                    'CHAR', 'CHAR', 'ANDPAREN', 'CHARSET'])
    if k == 'CHARSET':
        # tokenize2.py:236-241: `@charset` directly followed by a space is CHARSET_SYM, the space belongs to it
        return ('CHARSET_SYM', '@charset ', '@charset ', k)
    if k == 'ANDPAREN':
        # tokenize2.py:181-194: an IDENT directly followed by '(' is a FUNCTION - except `and` (media queries)
        v = rng.choice(['and', 'AND', 'And', 'aNd'])
        return (('IDENT', 'CHAR'), v + '(', (v, '('), k)
    if k == 'IDENT':
        s, v, _ = g_ident(rng)
        return ('IDENT', s, v, k)
    if k == 'FUNCTION':
        s, v, _ = g_ident(rng)
        if v.lower() in ('url', 'and'):
            s = v = 'f'
        return ('FUNCTION', s + '(', v + '(', k)
    if k == 'ATKEYWORD':
        s, v, _ = g_ident(rng)
        if ('@' + v).lower() in RESERVED or v.lower() == 'charset':
            s = v = 'x'
        return ('ATKEYWORD', '@' + s, '@' + s, k)      # the value of an at-keyword is its text as written
    if k == 'RESERVED':
        w = rng.choice(RESERVED)
        s = '@'
        for ch in w[1:]:
            r = rng.random()
            if r < 0.6:
                s += ch
            elif r < 0.8:
                s += ch.upper()
            elif r < 0.9 and ch not in HEX and ch != '-':
                s += '\\' + ch          # simple escape
            else:
                s += '\\%x ' % ord(ch)
        return (RES_SYM[w], s, s, k)
    if k == 'HASH':
        s, v, _ = g_name_chars(rng, rng.randint(1, 6), False)
        return ('HASH', '#' + s, '#' + v, k)
    if k == 'NUMBER':
        s = g_num(rng)
        return ('NUMBER', s, s, k)
    if k == 'PERCENTAGE':
        s = g_num(rng) + '%'
        return ('PERCENTAGE', s, s, k)
    if k == 'DIMENSION':
        u, v, _ = g_ident(rng)
        if u.startswith('-'):
            u, v = u.lstrip('-') or 'x', v.lstrip('-') or 'x'
        if v[0] in 'eE' and False:
            pass
        n = g_num(rng)
        return ('DIMENSION', n + u, n + v, k)
    if k == 'UNICODE-RANGE':
        a = ''.join(rng.choice('0123456789abcdefABCDEF') for _ in range(rng.randint(1, 6)))
        if rng.random() < 0.3:
            a = a[:rng.randint(1, len(a))] + '?' * rng.randint(0, 6 - len(a))
            a = a[:6]
        s = rng.choice('uU') + '+' + a
        if rng.random() < 0.5:
            s += '-' + ''.join(rng.choice('0123456789abcdefABCDEF') for _ in range(rng.randint(1, 6)))
        return ('UNICODE-RANGE', s, s, k)
    if k == 'STRING':
        q = rng.choice('"\'')
        body, val = g_string_body(rng, q)
        return ('STRING', q + body + q, q + val + q, k)
    if k == 'URI':
        u = rng.choice(['url', 'URL', 'Url', 'u\\rl', '\\75rl', 'ur\\4c ', 'u\\72 l', '\\55\\52\\4c', '\\000055\\52\r\n\\00006c'])
        w1 = rng.choice(['', '', ' ', '\t', '\n ', '\r\n'])
        w2 = rng.choice(['', '', ' ', '\f'])
        if rng.random() < 0.5:
            q = rng.choice('"\'')
            body, val = g_string_body(rng, q)
            inner, ival = q + body + q, q + val + q
        else:
            inner = ''.join(rng.choice(['a', 'b', '/', '.', '!', '#', '%', '&', '*', '~', '(', '\t', 'é', 'x.png',
                                        ':', '?', '=', '-', '_', '0'])
                            for _ in range(rng.randint(0, 6)))
            ival = inner
        s = u + '(' + w1 + inner + w2 + ')'
        return ('URI', s, spec_unescape(u) + '(' + w1 + ival + w2 + ')', k)
    if k == 'OP':
        s = rng.choice(['~=', '|=', '^=', '$=', '*='])
        return ({'~=': 'INCLUDES', '|=': 'DASHMATCH', '^=': 'PREFIXMATCH', '$=': 'SUFFIXMATCH',
                 '*=': 'SUBSTRINGMATCH'}[s], s, s, k)
    if k == 'CDO':
        return ('CDO', '<!--', '<!--', k)
    if k == 'CDC':
        return ('CDC', '-->', '-->', k)
    if k == 'COMMENT':
        body = ''.join(rng.choice(['a', ' ', '*', '/ ', '\n', 'é', '{', '"', "'", 'x*', '**', '\r\n', '\\41 ', '\\\\', '\\2a',
                                   '\\\n'])
                       for _ in range(rng.randint(0, 6)))
        body = body.replace('*/', '* /')
        if body.endswith('/') and False:
            pass
        s = '/*' + body + '*/'
        # body must not contain */ after joining
        if '*/' in s[2:-2] or s[2:-2].endswith('*') and False:
            s = '/*x*/'
        if s[2:].find('*/') != len(s) - 4:
            s = '/*x*/'
        return ('COMMENT', s, s, k)
    c = rng.choice(list(',:;{}>[]') + list('.+*/=!()&?<~|^$%') + ['\x00', '\x7f', '\x1f'])
    return ('CHAR', c, c, 'CHAR')


def g_string_body(rng, q):
    parts, vals = [], []
    for _ in range(rng.randint(0, 6)):
        r = rng.random()
        if r < 0.5:
            ch = rng.choice('abz 09-_{}()/*;:é€' + ('"' if q == "'" else "'"))
            parts.append(ch)
            vals.append(ch)
        elif r < 0.6:
            parts.append('\\' + q)
            vals.append('\\' + q)
        elif r < 0.7:
            nl = rng.choice(['\n', '\r\n', '\r', '\f'])
            parts.append('\\' + nl)
            vals.append('')
        elif r < 0.8:
            parts.append('\\\\')
            vals.append('\\\\')
        elif r < 0.9:
            ch = rng.choice('azAZ{"\'\n')
            digits = '%x' % ord(ch)
            digits = digits.rjust(rng.randint(len(digits), 6), '0')
            parts.append('\\' + digits + ' ')
            vals.append(ch)
        else:
            ch = rng.choice('gxyzGXYZ!-')
            parts.append('\\' + ch)
            vals.append('\\' + ch)
    return ''.join(parts), ''.join(vals)


SEPS_SAFE = [' ']


def g_sheet(rng, safe):
    """-> (text, expected list of (type, value)) ; expected is None unless `safe` separators were used"""
    n = rng.randint(1, 8)
    toks = [g_token(rng) for _ in range(n)]
    text, expect = '', []
    for i, (typ, s, v, kind) in enumerate(toks):
        text += s
        if isinstance(typ, tuple):
            expect += list(zip(typ, v))
        else:
            expect.append((typ, v))
        if i + 1 < n:
            if safe:
                sep = ' '
                expect.append(('S', ' '))
            else:
                sep = rng.choice(['', '', ' ', '\n', '\t', '/**/', '\r\n', ' \n ', ';', '{', '}'])
            text += sep
    return text, (expect if safe else None), toks


def mutate(rng, text):
    if not text:
        return rng.choice(SOUP)
    r = rng.random()
    i = rng.randrange(len(text))
    if r < 0.3:
        return text[:i] + text[i + 1:]
    if r < 0.6:
        return text[:i] + rng.choice(SOUP) + text[i:]
    if r < 0.75:
        return text[:i]
    if r < 0.85:
        j = rng.randrange(len(text))
        a, b = min(i, j), max(i, j)
        return text[:a] + text[b:a:-1] + text[b + 1:] if b > a else text
    return text[:i] + rng.choice(SOUP) + text[i + 1:]


def g_soup(rng, maxlen=10):
    return ''.join(rng.choice(SOUP) for _ in range(rng.randint(0, maxlen)))


PREFIXES = ['', '', '', '', '\xef\xbb\xbf', '\xfe\xff', '@charset ', '\xef\xbb\xbf@charset ', '﻿', ' @charset ',
            '@charset', '@CHARSET ', '\xef\xbb\xbf\n', '\xfe']


def class_boundaries(d):
    """representatives of every character class of every generated pattern: lo-1, lo, hi, hi+1"""
    pts = set()

    def walk(r):
        if r[0] == 'cls':
            for lo, hi in r[2]:
                for c in (lo - 1, lo, hi, hi + 1):
                    if 0 <= c <= 0x10FFFF:
                        pts.add(c)
        for x in r[1:]:
            if isinstance(x, tuple) and x and isinstance(x[0], str):
                walk(x)
    for _, r in d['re']:
        walk(r)
    for k in ('re_unicodesub', 're_stringsub', 're_simpleescapes'):
        walk(d[k])
    pts |= {0, 0xD800, 0xDFFF, 0xFFFF, 0x10000, 0x10FFFF, 0x212A, 0x130, 0xFEFF, 0x85, 0x2028}
    return sorted(pts)


FALLBACK_POINTS = [0, 8, 9, 10, 11, 12, 13, 14, 31, 32, 33, 34, 35, 36, 37, 38, 39, 40, 41, 42, 43, 44, 45, 46, 47, 48,
                   57, 58, 59, 60, 61, 62, 63, 64, 65, 70, 71, 90, 91, 92, 93, 94, 95, 96, 97, 102, 103, 122, 123, 124,
                   125, 126, 127, 128, 0xD800, 0xDFFF, 0xFEFF, 0xFFFF, 0x10000, 0x10FFFF, 0x212A, 0x130]


def pattern_alphabet(r):
    pts = set()

    def walk(r):
        if r[0] == 'cls':
            for lo, hi in r[2]:
                pts.add(lo)
                pts.add(hi)
                if lo < hi:
                    pts.add((lo + hi) // 2)
                if lo > 0:
                    pts.add(lo - 1)
                if hi < 0x10FFFF:
                    pts.add(hi + 1)
        for x in r[1:]:
            if isinstance(x, tuple) and x and isinstance(x[0], str):
                walk(x)
    walk(r)
    return sorted(pts)


# ----------------------------------------------------------------------------------------------
class C05(Check):
    id = 'C05'
    props_module = 'CssVerif.Props.C05'
    driver_exe = 'drv_c05'
    sources = gen.SOURCES + ('cssutils/errorhandler.py',)
    trusted_base = (
        'hand-written model lean/CssVerif/Model/Tok.lean of Tokenizer.tokenize / _repl / helper.normalize / the '
        'error-report suffix, tied to the source by the differential correspondence of this run',
        'hand-written model lean/CssVerif/Model/TokPush.lean of the generator with push-back (self._pushed), tied by the '
        'correspondence of consumer scripts of this run',
        'translator tools/gen/c05_productions.py + tools/gen/relib.py (regex text -> Re term through CPython\'s own '
        're._parser); cross-checked each run against Tokenizer._expand_macros and the compiled matchers',
        'sre-faithfulness of Re.first (list-of-successes semantics) — validated each run by the Re-level '
        'differential on every generated pattern',
    )
    assumptions = (
        'the consumer calls Tokenizer.push only while the generator is suspended at a yield (Model/TokPush.lean)',
        'str.lower() produces ASCII only from A-Z, U+212A and U+0130 (checked exhaustively over all code points '
        'each run); its results are compared with ASCII words only',
        'int(x, 16) on hex digits followed by ASCII white space',
    )
    rule = ('texts = grammar-token stream (IDENT FUNCTION ATKEYWORD reserved-at-rules HASH NUMBER PERCENTAGE '
            'DIMENSION UNICODE-RANGE STRING URI match-operators CDO CDC COMMENT CHAR, with CSS escapes / case / '
            'white-space spellings) joined by safe or arbitrary separators, x start prefixes (BOM, @charset ), its '
            'mutations and every truncation, boundary stream (each class boundary of every generated character class '
            'as first/second character after 14 contexts), character soup; each text x fullsheet x doComments. '
            'non-trivial = distinct (text, mode) whose token list is not all CHAR/S tokens')

    # ------------------------------------------------------------------------------------------
    def translate(self, ctx):
        d, text = gen.build(ctx.repo)
        self._data = d
        try:
            problems = gen.crosscheck(d)
        except Exception as e:          # import of the tree failed: the run reports it on the implementation side
            problems = ['cross-check impossible: %r' % (e,)]
        ctx.notes['translator_crosscheck'] = problems or 'ok'
        if problems:
            raise gen.TranslateError('; '.join(problems))
        return {'CssVerif/Gen/C05Productions.lean': text}

    def data(self, ctx):
        if not hasattr(self, '_data'):
            self._data, _ = gen.build(ctx.repo)
        return self._data

    # ------------------------------------------------------------------------------------------
    def setup(self, ctx):
        try:
            d = self.data(ctx)
        except Exception as e:      # translator cannot read the source: the implementation-side oracle still runs
            d = None
            ctx.notes['translator_failed'] = repr(e)
        self.bom_re = re.compile('(?:%s)' % dict(d['expanded'])['BOM']) if d else re.compile('\xfe\xff|\xef\xbb\xbf')
        return d

    def run(self, ctx):
        d = self.setup(ctx)
        ctx.phase(self.run_corpus, ctx)
        ctx.phase(self.check_lower, ctx)
        texts = self.gen_texts(ctx, d)
        ctx.phase(self.corr_tokenize, ctx, texts)
        if d:
            ctx.phase(self.corr_re, ctx, d)
        try:
            self.corr_helpers(ctx)
        except (ValueError, AttributeError, TimeLimit) as e:
            # the helpers are reached from outside on a best-effort basis (a renamed attribute / callback is not a
            # finding; the same code is exercised through tokens by corr_tokenize)
            ctx.notes['helpers_skipped'] = repr(e)
        ctx.phase(self.corr_specs, ctx)
        ctx.phase(self.oracle_classify, ctx)
        ctx.phase(self.corr_lex2, ctx)
        ctx.phase(self.corr_push, ctx)
        ctx.phase(self.oracle_escape_spellings, ctx)
        ctx.phase(self.oracle_completion, ctx)
        ctx.phase(self.oracle_errors, ctx)

    # -- corpus -----------------------------------------------------------------------------------
    def corpus(self, ctx):
        out = []
        cdir = os.path.join(ctx.verif, 'tools', 'corpus', 'C05')
        if os.path.isdir(cdir):
            for fn in sorted(os.listdir(cdir)):
                if fn.endswith('.json'):
                    for e in json.load(open(os.path.join(cdir, fn))):
                        out.append(dec(e['text']))
        return out

    def run_corpus(self, ctx):
        texts = [(t, 'corpus') for t in self.corpus(ctx)]
        self.corr_tokenize(ctx, texts)

    # -- str.lower assumption ---------------------------------------------------------------------
    def check_lower(self, ctx):
        bad = []
        for cp in range(128, 0x110000):
            if cp in (0x212A, 0x130):
                continue
            if any(ord(x) < 128 for x in chr(cp).lower()):
                bad.append(cp)
        if chr(0x212A).lower() != 'k' or chr(0x130).lower() != 'i̇':
            bad.append(0x212A)
        ctx.notes['lower_ascii_exceptions_checked'] = 'all code points; unexpected: %s' % bad
        if bad:
            ctx.disagree('str.lower() assumption', {'codepoints': bad[:10]}, 'produces ASCII', 'assumed non-ASCII')

    # -- (1) Re-level correspondence ----------------------------------------------------------------
    def corr_re(self, ctx, d):
        rng = ctx.sub_rng('re')
        pats = [(n, '(?:%s)' % v, re.U, r) for (n, v), (_, r) in zip(d['expanded'], d['re'])]
        pats.append(('unicodesub', d['unicodesub'][0], d['unicodesub'][1], d['re_unicodesub']))
        pats.append(('stringsub', d['stringsub'][0], d['stringsub'][1], d['re_stringsub']))
        pats.append(('simpleescapes', d['simpleescapes'][0], d['simpleescapes'][1], d['re_simpleescapes']))
        lines, cases = [], []
        per = ctx.n(800, 6000)
        lexemes = [g_token(rng)[1] for _ in range(300)]
        for name, p, fl, r in pats:
            cre = re.compile(p, fl)
            alpha = [chr(c) for c in pattern_alphabet(r)]
            seen = set()
            for i in range(per):
                x = rng.random()
                if x < 0.6:
                    s = ''.join(rng.choice(alpha) for _ in range(rng.randint(0, 9)))
                elif x < 0.8:
                    s = rng.choice(lexemes) + rng.choice(['', ' ', '(', 'a', '\\'])
                    if rng.random() < 0.5:
                        s = s[:rng.randint(0, len(s))]
                else:
                    s = mutate(rng, rng.choice(lexemes))
                if s in seen:
                    continue
                seen.add(s)
                lines.append('re %s %s' % (name, enc(s)))
                cases.append((name, cre, s))
        out = ctx.driver(lines) if ctx.model_ok else [None] * len(lines)
        for (name, cre, s), m in zip(cases, out):
            with time_limit(5):
                mo = cre.match(s)
            got = 'N' if mo is None else str(mo.end())
            ctx.case(key=('re', name, s), nontrivial=mo is not None, kind='re:' + name)
            if m is not None and m != got:
                ctx.disagree('Re.first vs re.match for production %s' % name, {'text': enc(s), 'repr': repr(s)}, got, m)

    # -- (3) helpers --------------------------------------------------------------------------------
    def corr_helpers(self, ctx):
        from cssutils.tokenize2 import Tokenizer
        from cssutils.helper import normalize
        import sys as _sys
        rng = ctx.sub_rng('helpers')
        t = Tokenizer()
        repl = find_repl(t)
        lines, cases = [], []
        alpha = list('\\\\\\\\0123456789abcdefABCDEFgG \t\r\n\f"x') + ['\r\n', '\\5c', '\\5C ', '\\110000', '\\10ffff',
                                                                         '\\0', '\\d800', 'é', 'K', 'İ', '\\a ', '\\d']
        for _ in range(ctx.n(8000, 80000)):
            s = ''.join(rng.choice(alpha) for _ in range(rng.randint(0, 12)))
            for kind in ('subu', 'subs', 'normalize'):
                lines.append('%s %s' % (kind, enc(s)))
                cases.append((kind, s))
        out = ctx.driver(lines) if ctx.model_ok else [None] * len(lines)
        for (kind, s), m in zip(cases, out):
            if kind == 'subu':
                # impl vs independent specification (oracle) vs model (correspondence)
                got = 'OK ' + enc(t.unicodesub(repl, s))
                want = spec_unescape(s)
                ctx.case(key=(kind, s), nontrivial='\\' in s, kind='helper:subu')
                if got != 'OK ' + enc(want):
                    ctx.violate('token values: CSS escapes decoded as the syntax prescribes (unicodesub + _repl)',
                                {'call': 'unicodesub', 'text': enc(s), 'repr': repr(s)},
                                {'impl': got, 'spec': enc(want)})
            elif kind == 'subs':
                got = 'OK ' + enc(t.stringsub(repl, s))
                want = spec_string_value(s)
                ctx.case(key=(kind, s), nontrivial='\\' in s, kind='helper:subs')
                if got != 'OK ' + enc(want):
                    ctx.violate('string values: escapes decoded and backslash-newline removed in one pass over the '
                                'source (stringsub + _repl)', {'call': 'stringsub', 'text': enc(s), 'repr': repr(s)},
                                {'impl': got, 'spec': enc(want)})
            else:
                got = 'OK ' + enc(normalize(s))
                ctx.case(key=(kind, s), nontrivial='\\' in s, kind='helper:normalize')
            if m is not None and m != got:
                ctx.disagree(kind, {'text': enc(s), 'repr': repr(s)}, got, m)

    # -- (4) specification functions: the oracle's Python specs vs the Lean specs the theorems are stated against ---
    def corr_specs(self, ctx):
        rng = ctx.sub_rng('specs')
        alpha = list('\\\\\\0123456789abcdefABCDEFgG \t\r\n\f"x\'') + ['\r\n', '\\5c', '\\5C ', '\\110000', '\\10ffff',
                                                                        '\\0', '\\d800', 'é', '\\a ', '\\d', '\\c ',
                                                                        '\\\r', '\\\n', '\\\\']
        lines, cases = [], []
        for _ in range(ctx.n(6000, 100000)):
            s = ''.join(rng.choice(alpha) for _ in range(rng.randint(0, 10)))
            for f in ('unescape', 'strval', 'lc'):
                lines.append('spec %s %s' % (f, enc(s)))
                cases.append((f, s))
        out = ctx.driver(lines) if ctx.model_ok else []
        for (f, s), m in zip(cases, out):
            if f == 'unescape':
                want = 'OK ' + enc(spec_unescape(s))
            elif f == 'strval':
                want = 'OK ' + enc(spec_string_value(s))
            else:
                want = '%d %d' % spec_linecol(s, len(s))
            ctx.case(key=('spec', f, s), nontrivial='\\' in s, kind='spec:' + f)
            if m != want:
                ctx.disagree('specification function %s (python oracle vs Lean)' % f, {'text': enc(s), 'repr': repr(s)},
                             want, m)

    # -- texts ----------------------------------------------------------------------------------------
    def gen_texts(self, ctx, d):
        rng = ctx.sub_rng('texts')
        texts = []
        # fixed boundary cases
        fixed = ['', 'a', '\xef\xbb\xbfa', '\xfe\xffa', '﻿a', '@charset "x";', '\xef\xbb\xbf@charset "x";',
                 ' @charset "x";', '@charset', '@charset ', 'a{b:c}', '/*', '/* x', '/* x *', '"a', "'a", '"a\\', 'url(',
                 'url(a', 'url("a', "url('a", 'url( a b', 'URL(a', 'u\\rl(a', 'and(', 'AND(', 'a(', '-a(', 'a\\41 b', 'a\\\\41 b',
                 '\\5c', '\\5c a', '"\\5c"', '\\110000 x', '\\0', '\\d800 ', 'a\nb', 'a\r\nb', 'a\rb', 'a\fb',
                 '"a\\\nb"c', '/*\n\n*/a', 'a\tb', '1px', '1.5e3', '.5em', '+.5%', '-1', 'U+0-7F', 'u+??', '#a', '#-1',
                 '#', '@', '@1', '@-a', '<!--', '<!-', '-->', '--', '--a', '-', '~=', '~', '|=', '*=', '$=', '^=',
                 '@import', '@IMPORT', '@im\\port', '@\\69mport', '@\\69 mport', '@font-face', '@charset x',
                 'a @charset "x"', '@charset\t', '@media', '@page', '@namespace', '@variables', '@K', '@İmport',
                 'url(\ta)', 'url(a\t)', "url('a\\'b')", 'url(a)b', 'f(a)', 'é', '\x00', '\U0010FFFF', '\ud800',
                 '"\n', '"a\n"', '\\', '\\\n', '\\a', 'a\\', '/**/', '/***/', '/*/*/', '/* * / */', '/', '*', '/*a',
                 'url(/*a', "'\\'", '"\\"', 'a/*', 'a/**/b', '\xef\xbb\xbf\n a', '\xef\xbb\xbf/*\n*/ a']
        for s in fixed:
            texts.append((s, 'fixed'))
        # boundary stream: each class boundary in a few contexts
        pts = class_boundaries(d) if d else FALLBACK_POINTS
        ctxs = ['%s', '%sa', 'a%s', '\\%s', '\\%s ', '"%s', '"%s"', '#%s', '@%s', '1%s', '-%s', 'url(%s)', '/*%s*/', 'u+%s',
                'a %s', '\\4%s', '\n%s']
        for c in pts:
            for cx in ctxs:
                texts.append((cx % chr(c), 'boundary'))
        ctx.notes['boundary_class_points'] = len(pts)
        # grammar stream
        for _ in range(ctx.n(4000, 60000)):
            safe = rng.random() < 0.4
            text, expect, _ = g_sheet(rng, safe)
            pre = rng.choice(PREFIXES)
            texts.append((pre + text, 'grammar'))
            # malformed: mutations
            m = text
            for _ in range(rng.randint(1, 3)):
                m = mutate(rng, m)
            texts.append((rng.choice(PREFIXES) + m, 'mutated'))
            # truncations at every offset (full-sheet completion)
            if rng.random() < ctx.n(0.12, 0.3):
                for k in range(len(text)):
                    texts.append((text[:k], 'truncated'))
        for _ in range(ctx.n(5000, 60000)):
            texts.append((rng.choice(PREFIXES) + g_soup(rng), 'soup'))
        # exhaustive: all strings of length <= 2 (quick) / 3 (thorough) over a small alphabet
        small = list('a1-\\"/*(u+@ \n') + ['\\41', 'é']
        for a in small:
            for b in small:
                texts.append((a + b, 'exh2'))
                if ctx.tier_counts == 'thorough':
                    for c in small:
                        texts.append((a + b + c, 'exh3'))
        return texts

    # -- (2) tokenizer correspondence + oracle --------------------------------------------------------
    def corr_tokenize(self, ctx, texts):
        lines, cases = [], []
        seen = set()
        for text, kind in texts:
            if text in seen:
                continue
            seen.add(text)
            for full, doc in MODES:
                lines.append('tok %d %d %s' % (full, doc, enc(text)))
                cases.append((text, full, doc, kind))
        out = ctx.driver(lines, timeout=1500) if ctx.model_ok else [None] * len(lines)
        pend = {}
        for (text, full, doc, kind), m in zip(cases, out):
            try:
                toks = impl_tokens(text, full, doc)
                err = None
            except TimeLimit:
                toks, err = None, 'TIMEOUT'
            except Exception as e:      # noqa
                toks, err = None, 'EXC %s' % type(e).__name__
            if err:
                ctx.case(key=('tok', text, full, doc), kind='tok:' + kind)
                ctx.violate('tokenising any text terminates (and does not raise)',
                            {'text': enc(text), 'repr': repr(text), 'full': full, 'doComments': doc}, err)
                got = err
            else:
                nontriv = any(t[0] not in ('CHAR', 'S', 'EOF') for t in toks)
                ctx.case(key=('tok', text, full, doc), nontrivial=nontriv, kind='tok:' + kind,
                         sample={'text': text, 'full': full, 'doComments': doc,
                                 'tokens': [list(t) for t in toks][:8]})
                for t in toks:
                    ctx.dist['type:' + str(t[0])] += 1
                got = 'DONE | ' + show_tokens(toks)
                self.oracle_shrunk(ctx, text, full, doc, toks)
                other = pend.pop((text, doc), None)
                if other is None:
                    pend[(text, doc)] = toks
                else:
                    self.oracle_full_partial(ctx, text, doc, toks if full else other, other if full else toks)
            if m is not None:
                head, mt = parse_reply(m)
                mine = ('DONE | ' + show_tokens(mt)) if head.startswith('DONE') else head
                if mine.strip() != got.strip():
                    ctx.disagree('tokenize', {'text': enc(text), 'repr': repr(text), 'full': full, 'doComments': doc},
                                 got, mine)

    def oracle_full_partial(self, ctx, text, doc, tf, tp):
        """theorem full_sheet_completion, on the implementation: full-sheet mode yields the partial-sheet tokens, or
        a common prefix and ONE completed STRING / URI / COMMENT at the position of the partial-sheet token there"""
        f = tf[:-1] if tf and tf[-1][0] == 'EOF' else tf
        if f == tp:
            return
        i = 0
        while i < len(f) and i < len(tp) and f[i] == tp[i]:
            i += 1
        ok = (len(f) == i + 1 and i < len(tp) and f[i][0] in (('STRING', 'URI', 'COMMENT') if doc else ('STRING', 'URI'))
              and (f[i][2], f[i][3]) == (tp[i][2], tp[i][3]))
        if not ok:
            ctx.violate('full-sheet mode: an unterminated comment, string or url( is completed at the end of input',
                        {'text': enc(text), 'repr': repr(text), 'full': True, 'doComments': doc},
                        {'fullsheet': [list(t) for t in f[i:i + 3]], 'partial': [list(t) for t in tp[i:i + 3]],
                         'common_prefix': i})

    def oracle_shrunk(self, ctx, text, full, doc, toks):
        """run the oracle; a violation that is not a known finding is minimised (delta debugging on the text)"""
        p = Probe()
        self.oracle_one(p, text, full, doc, toks)
        for clause, w, detail, known in p.v:
            if known or len(ctx.violations) >= 8:
                ctx.violate(clause, w, detail, known=known)
                continue

            def fails(t2):
                try:
                    tk = impl_tokens(t2, full, doc)
                except Exception:   # noqa
                    return False
                q = Probe()
                self.oracle_one(q, t2, full, doc, tk)
                return [x for x in q.v if x[0] == clause and not x[3]]
            small = shrink(text, fails)
            hit = fails(small)
            if hit and small != text:
                c2, w2, d2, _ = hit[0]
                w2 = dict(w2, shrunk_from=enc(text))
                ctx.violate(c2, w2, d2)
            else:
                ctx.violate(clause, w, detail)

    def in_bom_region(self, text):
        return self.bom_re.match(text) is not None

    def oracle_one(self, ctx, text, full, doc, toks):
        """the property, checked directly on the implementation's output"""
        w = {'text': enc(text), 'repr': repr(text), 'full': full, 'doComments': doc}
        # EOF
        n_eof = sum(1 for t in toks if t[0] == 'EOF')
        if full and not (n_eof == 1 and toks[-1][0] == 'EOF' and toks[-1][1] == ''):
            ctx.violate('full-sheet mode: exactly one end marker, last', w, {'tokens': show_tokens(toks)})
            return
        if not full and n_eof:
            ctx.violate('no end marker outside full-sheet mode', w, {'tokens': show_tokens(toks)})
            return
        if not doc and any(t[0] == 'COMMENT' for t in toks):
            ctx.violate('doComments=False: comments are filtered out', w, {'tokens': show_tokens(toks)})
            return
        body = [t for t in toks if t[0] != 'EOF']
        starts = line_starts(text)
        bom = self.bom_re.match(text)
        bomlen = bom.end() if bom else 0
        # offsets recomputed from (line, col)
        offs = []
        for i, t in enumerate(body):
            line, col = t[2], t[3]
            off = offset_of(text, line, col, starts)
            if bomlen and line == 1 and not (i == 0 and t[0] == 'BOM'):
                # known finding C05-bom-col: after a BOM the column is not advanced; exact characterisation:
                # columns on line 1 are short by the BOM length — anything else is still a violation
                off2 = off + bomlen if off is not None else None
                if off2 is not None and spec_linecol(text, off2)[0] == 1:
                    ctx.violate('positions: column of a token on line 1 after a BOM', w, {'token': list(t)},
                                known='C05-bom-col')
                    off = off2
            offs.append(off)
        if not doc:
            # filtered comments leave gaps: positions are checked, tiling only between adjacent spans it can see
            pass
        for i, t in enumerate(body):
            if offs[i] is None or offs[i] > len(text):
                ctx.violate('positions: (line, col) designate a character of the input', w, {'token': list(t)})
                return
        prev_end = 0
        for i, t in enumerate(body):
            off = offs[i]
            nxt = offs[i + 1] if i + 1 < len(body) else len(text)
            last = i + 1 == len(body)
            if nxt < off:
                ctx.violate('positions: token positions increase', w, {'token': list(t), 'next': list(body[i + 1])})
                return
            if doc:
                if off != prev_end:
                    ctx.violate('spans tile the input and each token carries the line/column of its first character',
                                w, {'token': list(t), 'offset_from_line_col': off, 'expected_offset': prev_end,
                                    'expected_line_col': list(spec_linecol(text, prev_end))})
                    return
                span = text[off:nxt]
                ok = self.value_ok(ctx, w, t, span, last and full)
                if not ok:
                    ctx.violate('value = span with CSS escapes decoded (strings: continuation removed); '
                                'last token of a full sheet: span + completion', w,
                                {'token': list(t), 'span': span, 'spec_value': spec_value(t[0], span)})
                    return
                prev_end = nxt
            else:
                # comments filtered: the visible token must start at or after the previous visible end, the gap
                # must be comments only, and its value must be a prefix-consistent decoding of the text there
                if off < prev_end:
                    ctx.violate('spans do not overlap', w, {'token': list(t)})
                    return
                gap = text[prev_end:off]
                if gap and not is_comments(gap):
                    ctx.violate('only comments are filtered out', w, {'gap': gap, 'token': list(t)})
                    return
                # find the end of this token: smallest end >= off such that value matches and rest is a comment gap
                end = None
                for e in range(off, nxt + 1):
                    if is_comments(text[e:nxt]) and self.value_ok(ctx, w, t, text[off:e], False, quiet=True):
                        end = e
                        break
                if end is None and last and full and self.value_ok(ctx, w, t, text[off:nxt], True, quiet=True):
                    end = nxt
                if end is not None:
                    self.value_ok(ctx, w, t, text[off:end], last and full and end == nxt)   # count known hits
                if end is None:
                    ctx.violate('value = span with CSS escapes decoded (comments filtered)', w, {'token': list(t)})
                    return
                prev_end = end
        if doc and prev_end != len(text):
            ctx.violate('spans tile the input: the end of the text is covered', w, {'covered': prev_end})
            return
        if not doc and not is_comments(text[prev_end:]) :
            # an unterminated comment at the end in full mode with doComments=False is tokenised as CHARs: covered
            ctx.violate('only comments are filtered out (tail)', w, {'tail': text[prev_end:]})

    def value_ok(self, ctx, w, t, span, may_complete, quiet=False):
        """value of token t = decoding of its span (for the last token of a full sheet: of span + completion)"""
        typ, val = t[0], t[1]
        srcs = [span]
        if may_complete:
            if typ == 'STRING' and span and span[0] in '"\'':
                srcs.append(span + span[0])
            elif typ == 'URI':
                srcs += [span + e for e in ("')", '")', ')')]
            elif typ == 'COMMENT':
                srcs.append(span + '*/')
        for src in srcs:
            if val == spec_value(typ, src):
                return True
        return False

    # -- classification oracle --------------------------------------------------------------------------
    def oracle_classify(self, ctx):
        rng = ctx.sub_rng('classify')
        for _ in range(ctx.n(5000, 60000)):
            text, expect, gtoks = g_sheet(rng, True)
            kinds = [t[3] for t in gtoks]
            lex = []
            for i, t in enumerate(gtoks):
                if isinstance(t[0], tuple):
                    lex += list(t[2])
                else:
                    lex.append(t[1])
                if i + 1 < len(gtoks):
                    lex.append(' ')
            for full in (False, True):
                try:
                    toks = impl_tokens(text, full, True)
                except Exception as e:   # noqa
                    ctx.violate('tokenising any text terminates', {'text': enc(text), 'repr': repr(text)}, repr(e))
                    continue
                got = [(t[0], t[1]) for t in toks if t[0] != 'EOF']
                ctx.case(key=('classify', text, full), nontrivial=True, kind='classify')
                for k in kinds:
                    ctx.dist['lexeme:' + k] += 1
                if got != expect:
                    known = None
                    wtext, wexp, wgot = text, expect, got
                    if not known:
                        # minimise: the first lexeme that is not recovered when tokenised on its own
                        for t in gtoks:
                            e1 = list(zip(t[0], t[2])) if isinstance(t[0], tuple) else [(t[0], t[2])]
                            try:
                                g1 = [(x[0], x[1]) for x in impl_tokens(t[1], full, True) if x[0] != 'EOF']
                            except Exception:   # noqa
                                continue
                            if g1 != e1:
                                wtext, wexp, wgot = t[1], e1, g1
                                break
                    ctx.violate('a text produced from a known sequence of CSS tokens with unambiguous separators is '
                                'recovered with exactly those token types and values',
                                {'text': enc(wtext), 'repr': repr(wtext), 'full': full, 'doComments': True},
                                {'expected': wexp, 'got': wgot}, known=known)

    # -- escape spellings inside names: every name-bearing class x code point x digit spelling x terminator x position
    # -- lexeme separation for all classes: the theorem's statement against the implementation -------------
    def corr_lex2(self, ctx):
        """`lexeme_separation_all` says: for well-formed lexeme lists the MODEL yields `expectedAll` (comments
        filtered when off). Here the Lean definitions (`Lex2.WF` by `decide`, `render2`, `expectedAll`) are evaluated
        by the driver on generated lists and compared with the Python rendering and with what the IMPLEMENTATION
        yields for that text."""
        from harness import c05_lex2
        rng = ctx.sub_rng('lex2')
        lines, cases = [], []
        for _ in range(ctx.n(2500, 40000)):
            words, text, exp = c05_lex2.g_list(rng)
            for doc in (True, False):
                lines.append('lex2 %d %s' % (doc, ' '.join(words)))
                cases.append((words, text, exp, doc))
        out = ctx.driver(lines) if ctx.model_ok else []
        clause = 'a text produced from known CSS tokens with unambiguous separators is recovered'
        for (words, text, exp, doc), m in zip(cases, out):
            head, _, rest = m.partition(' |')
            hw = head.split()
            want = [tv for tv in exp if doc or tv[0] != 'COMMENT']
            ctx.case(key=('lex2', text, doc), nontrivial=True, kind='lex2')
            for w in words:
                ctx.dist['lex2:' + w.split(',')[0]] += 1
            if len(hw) != 2 or hw[0] != '1' or dec(hw[1]) != text:
                ctx.disagree('lexeme list: well-formedness / rendering (python generator vs Lean Lex2.WF, render2)',
                             {'words': words, 'text': enc(text)}, '1 ' + enc(text), head)
                continue
            mexp = []
            for w in rest.split():
                typ, val = w.split(':')
                mexp.append((typ, dec(val)))
            if mexp != want:
                ctx.disagree('lexeme list: expected tokens (python generator vs Lean expectedAll)',
                             {'words': words, 'text': enc(text), 'doc': doc}, repr(want), repr(mexp))
                continue
            for full in (False, True):      # lexeme_separation_all / lexeme_separation_all_fullsheet
                try:
                    got = [(t[0], t[1]) for t in impl_tokens(text, full, doc)]
                except Exception as e:   # noqa
                    ctx.violate('tokenising any text terminates', {'text': enc(text), 'repr': repr(text)}, repr(e))
                    continue
                want2 = mexp + [('EOF', '')] if full else mexp
                if got != want2:
                    ctx.violate(clause, {'text': enc(text), 'full': full, 'doComments': doc, 'repr': repr(text)},
                                'lexemes %r: expected %r, got %r' % (words, want2, got))

    # -- the generator with push-back (Model/TokPush.lean) ----------------------------------------------------
    def corr_push(self, ctx):
        """consumer scripts of next() / push(k fresh tokens) on the real generator and on the model; on the
        implementation side also the theorems' statements: text tokens undisturbed, pushed tokens at most once"""
        from cssutils.tokenize2 import Tokenizer
        rng = ctx.sub_rng('push')
        fixed = ['', 'a', 'a b', '/*c*/a', 'a/*c*/', '/*c*/', '@charset "x"; a', '\xef\xbb\xbfa{b:c}', '"x', 'url(x',
                 'a /*c*/ /*d*/ b', '/* x']
        lines, cases = [], []
        for i in range(ctx.n(2500, 30000)):
            text = rng.choice(fixed) if rng.random() < 0.35 else g_sheet(rng, rng.random() < 0.5)[0][:rng.randint(0, 30)]
            full, doc = rng.random() < 0.5, rng.random() < 0.5
            script = [rng.choice(['n', 'n', 'n', 'n', 'p1', 'p2', 'p0']) for _ in range(rng.randint(1, 16))]
            if rng.random() < 0.3:
                script += ['n'] * 6
            lines.append('push %d %d %s %s' % (full, doc, enc(text), '.'.join(script)))
            cases.append((text, full, doc, script))
        out = ctx.driver(lines) if ctx.model_ok else [None] * len(lines)
        for (text, full, doc, script), m in zip(cases, out):
            tk = Tokenizer(doComments=doc)
            outs, texts, pushed_out, ctr = [], [], [], 0
            try:
                with time_limit(5.0):
                    g = tk.tokenize(text, fullsheet=full)
                    pure = [tuple(t) for t in Tokenizer(doComments=doc).tokenize(text, fullsheet=full)]
                    for a in script:
                        if a == 'n':
                            try:
                                t = next(g)
                            except StopIteration:
                                outs.append('-')
                                continue
                            if t[0] == 'PUSHED':
                                outs.append('P:%X' % t[1])
                                pushed_out.append(t[1])
                            else:
                                outs.append('T:%s:%s:%d:%d' % (t[0], enc(t[1]), t[2], t[3]))
                                texts.append(tuple(t))
                        else:
                            k = int(a[1:])
                            tk.push(*[('PUSHED', ctr + j, 0, 0) for j in range(k)])
                            ctr += k
            except Exception as e:   # noqa
                ctx.violate('tokenising any text terminates (and does not raise)',
                            {'text': enc(text), 'repr': repr(text), 'full': full, 'doComments': doc, 'script': script},
                            repr(e))
                continue
            ctx.case(key=('push', text, full, doc, tuple(script)), nontrivial=any(a != 'n' for a in script),
                     kind='push')
            got = ' '.join(outs)
            w = {'text': enc(text), 'repr': repr(text), 'full': full, 'doComments': doc, 'script': '.'.join(script)}
            if texts != pure[:len(texts)]:
                ctx.violate('push-back does not disturb the tokens of the text', w,
                            {'yielded': texts[:6], 'pure': pure[:6]})
            elif len(set(pushed_out)) != len(pushed_out) or any(x >= ctr for x in pushed_out):
                ctx.violate('a pushed token is yielded at most once', w, {'pushed_out': pushed_out})
            if m is not None and m.strip() != got:
                ctx.disagree('generator with push-back', w, got, m)

    def oracle_escape_spellings(self, ctx):
        cps = [0xE9, 0xC9, 0xAB, 0xB5, 0xF6, 0xDF, 0xA0, 0xFFFD, 0xABCD, 0x1F600, 0x10FFFF, 0x41, 0x6B, 0x3BB, 0x20AC,
               0xB, 0x7A]
        classes = {
            'IDENT': lambda n, v: (n, ('IDENT', v)),
            'HASH': lambda n, v: ('#' + n, ('HASH', '#' + v)),
            'DIMENSION': lambda n, v: ('12' + n, ('DIMENSION', '12' + v)),
            'FUNCTION': lambda n, v: (n + '(', ('FUNCTION', v + '(')),
            'ATKEYWORD': lambda n, v: ('@' + n, ('ATKEYWORD', '@' + n)),
        }
        for cp in cps:
            ch = chr(cp)
            h = '%x' % cp
            spellings = sorted({h, h.upper(), h.capitalize(), h[:-1] + h[-1].upper(), h.rjust(4, '0').upper(),
                                h.rjust(6, '0'), h.upper().rjust(6, '0')})
            for digits in spellings:
                if len(digits) > 6:
                    continue
                for term in TERMINATORS:
                    esc = '\\' + digits + term
                    for pos in ('start', 'mid', 'end'):
                        if term == '' and pos == 'end':
                            continue        # would take the separator as its terminator
                        pre = '' if pos == 'start' else 'x'
                        post = '' if pos == 'end' else 'y'
                        if term == '' and len(digits) == 6:
                            post = post or ''
                        name, val = pre + esc + post, pre + ch + post
                        for cls, mk in classes.items():
                            lexeme, want = mk(name, val)
                            text = lexeme + ' z'
                            expect = [want, ('S', ' '), ('IDENT', 'z')]
                            try:
                                got = [(t[0], t[1]) for t in impl_tokens(text, False, True)]
                            except Exception as e:   # noqa
                                ctx.violate('tokenising any text terminates', {'text': enc(text), 'repr': repr(text)}, repr(e))
                                continue
                            ctx.case(key=('escsp', text), nontrivial=True, kind='escape-spelling:' + cls)
                            if got != expect:
                                ctx.violate('a text produced from a known sequence of CSS tokens with unambiguous '
                                            'separators is recovered with exactly those token types and values',
                                            {'text': enc(text), 'repr': repr(text), 'full': False, 'doComments': True},
                                            {'expected': expect, 'got': got})

    # -- completion oracle: an unterminated last token of a full sheet = the terminated one --------------------
    def oracle_completion(self, ctx):
        rng = ctx.sub_rng('completion')
        n = 0
        while n < ctx.n(4000, 40000):
            text, expect, gtoks = g_sheet(rng, True)
            typ, lexeme = gtoks[-1][0], gtoks[-1][1]
            if typ == 'STRING':
                cut = 1
            elif typ == 'COMMENT':
                cut = 2
            elif typ == 'URI':
                cut = 1
                body = lexeme[:-1].rstrip(' \t\r\n\f')
                if body and body[-1] in '"\'' and rng.random() < 0.5 and lexeme[-2] in '"\'':
                    cut = 2         # drop the closing quote of the inner string too
            else:
                continue
            n += 1
            trunc = text[:-cut]
            try:
                a = [(t[0], t[1]) for t in impl_tokens(text, True, True)]
                b = [(t[0], t[1]) for t in impl_tokens(trunc, True, True)]
            except Exception as e:   # noqa
                ctx.violate('tokenising any text terminates', {'text': enc(trunc), 'repr': repr(trunc)}, repr(e))
                continue
            ctx.case(key=('completion', trunc), nontrivial=True, kind='completion:' + typ)
            if a != b:
                lx = lexeme[:-cut]
                try:
                    b1 = [(t[0], t[1]) for t in impl_tokens(lx, True, True)]
                    a1 = [(t[0], t[1]) for t in impl_tokens(lexeme, True, True)]
                except Exception:    # noqa
                    a1 = b1 = None
                wt = lx if a1 is not None and a1 != b1 else trunc
                ctx.violate('full-sheet mode: an unterminated comment, string or url( is completed at the end of input',
                            {'text': enc(wt), 'repr': repr(wt), 'full': True, 'doComments': True, 'cut': cut,
                             'complete': enc(lexeme if wt is lx else text)},
                            {'terminated': a1 if wt is lx else a, 'unterminated': b1 if wt is lx else b})

    # -- error reports ------------------------------------------------------------------------------------
    def oracle_errors(self, ctx):
        import xml.dom
        import cssutils
        rng = ctx.sub_rng('errors')
        log = cssutils.log
        old = log.raiseExceptions
        lines, cases = [], []
        try:
            log.raiseExceptions = True
            for _ in range(ctx.n(300, 5000)):
                text, _, _ = g_sheet(rng, False)
                toks = impl_tokens(text, True, True)
                if not toks:
                    continue
                tok = rng.choice(toks)
                msg = rng.choice(['Unexpected token', 'x', ''])
                try:
                    log.error(msg, token=tok)
                    got = None
                except xml.dom.SyntaxErr as e:
                    got = (str(e.args[0]) if e.args else '', e.line, e.col)
                want = ('%s [%d:%d: %s]' % (msg, tok[2], tok[3], tok[1]), tok[2], tok[3])
                ctx.case(key=('err', text, tok), nontrivial=True, kind='error-report')
                if got != want:
                    ctx.violate('syntax-error reports carry the position of the token they complain about',
                                {'call': 'log.error', 'msg': msg, 'token': list(tok)}, {'got': got, 'want': want})
                lines.append('report %d %d %s %s' % (tok[2], tok[3], enc(msg), enc(tok[1])))
                cases.append((tok, got))
        finally:
            log.raiseExceptions = old
        out = ctx.driver(lines) if ctx.model_ok else [None] * len(lines)
        for (tok, got), m in zip(cases, out):
            if m is None or got is None:
                continue
            mm = '%s %d %d' % (enc(got[0]), got[1], got[2])
            if m != mm:
                ctx.disagree('error report', {'token': list(tok)}, mm, m)

    # ------------------------------------------------------------------------------------------
    def known(self, ctx, finding):
        w = finding['witness']['data']
        text = dec(w['text'])
        toks = impl_tokens(text, w.get('full', False), True)
        if finding['id'] == 'C05-bom-col':
            t = [t for t in toks if t[0] != 'BOM'][0]
            want = spec_linecol(text, len(toks[0][1]))
            return (t[2], t[3]) != want
        return True

    def replay(self, ctx, data):
        w = data.get('witness') or {}
        if not w and data.get('broken'):
            for b in data['broken']:
                if isinstance(b.get('input'), dict) and 'text' in b['input']:
                    w = b['input']
                    break
        if 'text' in w and 'call' not in w:
            self.setup(ctx)
            text = dec(w['text'])
            modes = [(w['full'], w['doComments'])] if 'full' in w and 'doComments' in w else MODES
            save, self_modes = None, modes
            lines = ['tok %d %d %s' % (f, d_, enc(text)) for f, d_ in modes]
            out = ctx.driver(lines) if ctx.model_ok else [None] * len(lines)
            for (f, d_), m in zip(modes, out):
                try:
                    toks = impl_tokens(text, f, d_)
                except Exception as e:    # noqa
                    ctx.violate('tokenising any text terminates', w, repr(e))
                    continue
                self.oracle_one(ctx, text, f, d_, toks)
                if data.get('clause', '').startswith('a text produced'):
                    exp = (data.get('detail') or {}).get('expected')
                    got = [[t[0], t[1]] for t in toks if t[0] != 'EOF']
                    if exp is not None and got != [list(x) for x in exp]:
                        ctx.violate(data['clause'], w, {'expected': exp, 'got': got})
                if m is not None:
                    head, mt = parse_reply(m)
                    mine = ('DONE | ' + show_tokens(mt)) if head.startswith('DONE') else head
                    got = 'DONE | ' + show_tokens(toks)
                    if mine.strip() != got.strip():
                        ctx.disagree('tokenize', w, got, mine)
        else:
            self.run(ctx)


class Probe:
    """stands in for ctx while a candidate input is probed"""
    def __init__(self):
        self.v = []

    def violate(self, clause, witness, detail=None, known=None):
        self.v.append((clause, witness, detail, known))


def shrink(text, fails):
    """delta debugging: smallest text (by removing chunks) on which `fails` still holds"""
    n = max(1, len(text) // 2)
    while n >= 1:
        i, changed = 0, False
        while i < len(text):
            cand = text[:i] + text[i + n:]
            if cand != text and fails(cand):
                text, changed = cand, True
            else:
                i += n
        if not changed:
            n //= 2
    return text


def is_comments(s):
    """s is a (possibly empty) sequence of complete comments"""
    i = 0
    while i < len(s):
        if not s.startswith('/*', i):
            return False
        j = s.find('*/', i + 2)
        if j < 0:
            return False
        i = j + 2
    return True


def find_repl(t):
    """the replacement callback `_repl` is a closure of Tokenizer.tokenize: take it from the generator's frame — found
    by behaviour (it decodes a hex escape when handed to unicodesub), not by name"""
    gen_ = t.tokenize(' ')
    try:
        next(gen_)
        cands = [v for v in gen_.gi_frame.f_locals.values() if callable(v) and hasattr(v, '__code__')
                 and v.__code__.co_argcount == 1]
    finally:
        gen_.close()
    for f in cands:
        try:
            if t.unicodesub(f, '\\41 x') == 'Ax':
                return f
        except Exception:   # noqa
            continue
    raise ValueError('replacement callback of unicodesub not found in Tokenizer.tokenize')


CHECK = C05()
