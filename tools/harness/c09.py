"""C09 — a stylesheet stays structurally valid under any sequence of DOM edits.

model: lean/CssVerif/Model/SheetEdit.lean (+ generated kind tables Gen/C09RuleKinds.lean), Model/SheetBlocks.lean (declaration
blocks and properties as heap objects), Model/SheetRaw.lean (edits around the DOM methods); theorems: Props/C09.lean
correspondence: edit histories on a CSSStyleSheet and on the rule lists of its @media/@page rules, run on the real
objects and on the model (drv_c09) in lock step; after EVERY operation both sides print: outcome class (returned index /
None / exception class), sheet.encoding, the namespaces dict, the tree of rule types with the raw back pointers
(_parentStyleSheet, _parentRule) of every rule, the declaration block of every rule that has one with its raw _parentRule and
the name and raw _parent of each property, the same for every rule object that is no longer in the tree, and the replaced
blocks / loose properties seen so far.
oracle (implementation only, independent tables): order ranks, @charset position, kinds allowed in nested lists, parent
links of rules / declaration blocks / properties through the public API, removed objects name no parent, returned index,
and serialise + reparse keeps every rule.
"""
import codecs
import itertools
import json
import os
import re

from lib.framework import Check, enc, time_limit

from harness import c09_ops as ops_mod
from harness.c09_ops import Spec


class C09(Check):
    id = 'C09'
    props_module = 'CssVerif.Props.C09'
    driver_exe = 'drv_c09'
    sources = ('cssutils/css/cssstylesheet.py', 'cssutils/css/cssrule.py', 'cssutils/css/cssmediarule.py',
               'cssutils/css/csspagerule.py', 'cssutils/css/cssrulelist.py', 'cssutils/util.py',
               'cssutils/css/cssnamespacerule.py', 'cssutils/css/csscharsetrule.py')
    trusted_base = (
        'hand-written model lean/CssVerif/Model/SheetEdit.lean of insertRule/add/deleteRule/_cleanNamespaces/encoding/'
        'cssText/namespaces[...] and of the nested insertRule/deleteRule/cssText of @media and @page, tied to the source '
        'by the lock-step correspondence of this run (every operation of every history compared)',
        'kind tuples, type constants, dispatcher levels and isinstance chains are regenerated from the source by '
        'tools/gen/c09_rulekinds.py (AST); the control structure around them is hand-modelled',
        'a rule object is abstracted to kind, prefix/URI, encoding, used namespace URIs, nested list and the two raw '
        'back pointers; that parsing the serialisation of a well-formed rule gives a rule of the same kind and '
        'parameters is C03, here exercised by the reparse oracle only',
        'hand-written heap model lean/CssVerif/Model/SheetBlocks.lean of declaration blocks and properties as objects '
        '(_setStyle of the four rule classes, CSSStyleDeclaration._setCssText / setProperty / removeProperty / item '
        'assignment, the block replacement of CSSPageRule._setCssText) and lean/CssVerif/Model/SheetRaw.lean of raw list '
        'edits and re-insertion, tied by the same lock-step dumps (block of every rule, raw _parentRule / _parent, replaced '
        'blocks, loose properties); that a fresh rule object comes with a block naming it is an assumption of the model '
        'checked on every dump',
    )
    assumptions = (
        'the theorems about all operations (step_valid, dstep_valid) assume fresh objects and edits through the DOM '
        'methods (OpOK / DOpOK); a contained block / property / rule handed in again and raw edits of the list object '
        'are modelled as separate operations with witness theorems and are listed known findings; a history ends after '
        'a raw list insert or a re-insertion (see docs/C09.md, limits of the model)',
        'property names of the block operations come from a pool of four; the declarations rules are generated with '
        'have other names and are shown as one anonymous property',
        'codecs.lookup decides which encoding names are valid (passed to the model as a flag)',
        'serialisation for the reparse check runs with ser.prefs.resolveVariables = False (otherwise @variables rules '
        'are not written at all) and keeps comments; defaults are restored afterwards',
    )
    rule = ('histories: ALL sequences of length <= 2 (quick) / <= 3 (thorough) over {add, insertRule at every index, '
            'deleteRule at every index} x 10 rule kinds from the empty sheet, + every ordered sheet x ordered add, + '
            'CSSRuleList arguments (allowed and forbidden kinds, sheet / @media / @page), + boundary indexes, + random walks (length '
            '60) over all operations incl. text replace, encoding, namespaces[p]=u / del, string and object arguments, '
            'nested @media/@page lists to depth 3, raise and log-only mode, + ALL sequences of length <= 2 / 3 over 27 '
            'operations on the declaration block of a style rule in both modes, every block operation on every kind of '
            'rule with a style at every depth followed by the removal of the rule, shared blocks / properties, raw list '
            'edits followed by legitimate operations, re-insertion of every rule at several indexes. non-trivial = distinct (history prefix, '
            'operation) whose operation is not an append to an empty sheet')

    def translate(self, ctx):
        from gen import c09_rulekinds
        return c09_rulekinds.generate(ctx.repo)

    # ------------------------------------------------------------------------------------------
    def run(self, ctx):
        env = ops_mod.Env(ctx)
        try:
            for phase in (self.corpus, self.exhaustive, self.on_valid_sheets, self.boundary, self.blocks, self.around, self.random_walks):
                ctx.phase(phase, ctx, env)
            ctx.phase(env.flush)
        finally:
            env.restore()
        ctx.notes['known_region_hits'] = dict(ctx.known_hits)

    def corpus(self, ctx, env):
        d = os.path.join(ctx.verif, 'tools', 'corpus', 'C09')
        if not os.path.isdir(d):
            return
        for fn in sorted(os.listdir(d)):
            if fn.endswith('.json'):
                data = json.load(open(os.path.join(d, fn)))
                env.history(ops_mod.ops_from_json(data['ops']), raising=data.get('raising', True), kind='corpus')

    def exhaustive(self, ctx, env):
        depth = ctx.n(2, 3)
        sample3 = ctx.n(900, 0)
        rng = ctx.sub_rng('exh')
        count = [0]

        def rec(prefix, lens):
            """lens: list length after the prefix as the implementation reports it"""
            cands = ops_mod.basic_ops(lens)
            for op in cands:
                h = prefix + [op]
                n = env.history(h, raising=True, kind='exhaustive-%d' % len(h), fresh_ns=True)
                count[0] += 1
                if len(h) < depth:
                    rec(h, n)
        rec([], 0)
        ctx.notes['exhaustive_depth'] = depth
        ctx.notes['exhaustive_histories'] = count[0]
        if sample3:
            # quick tier: a random sample of the length-3 histories
            for _ in range(sample3):
                h, n = [], 0
                for _ in range(3):
                    op = rng.choice(ops_mod.basic_ops(n))
                    h.append(op)
                    n = None if n is None else ops_mod.predict_len(n, op)
                    if n is None:
                        break
                env.history(h, raising=True, kind='sampled-3', fresh_ns=True)

    def on_valid_sheets(self, ctx, env):
        """every ordered sheet of length <= n over seven kinds (comments / unknown rules anywhere), parsed from text,
        then one add / insertRule(index) / insertRule(index, inOrder=True): the scans for the insertion point see
        every arrangement of rules that must stay ahead and rules that are transparent"""
        alph = ['charset', 'import', 'namespace', 'variables', 'style', 'comment', 'unknown']
        rank = {'charset': 0, 'import': 1, 'namespace': 2, 'variables': 3, 'style': 4}
        rng = ctx.sub_rng('valid-sheets')
        half = ctx.sub_rng('valid-sheets-ins')   # quick tier: insertRule at every index into the longest sheets for the
        # kinds with a position scan, and for a sample of the others (all of them in the thorough tier)

        def valid(seq):
            last = -1
            for i, k in enumerate(seq):
                if k == 'charset' and i != 0:
                    return False
                if k in rank:
                    if rank[k] < last:
                        return False
                    last = rank[k]
            return True
        full, adds_only = ctx.n(3, 4), ctx.n(4, 5)
        sample = ctx.n(120, 4000)
        count = 0
        for n in range(0, adds_only + 1):
            bases = [seq for seq in itertools.product(alph, repeat=n) if valid(seq)]
            if n > full and len(bases) > sample:
                bases = rng.sample(bases, sample)
            for seq in bases:
                specs = [ops_mod.basic_spec(k) if k != 'namespace' else Spec(k, pre='b%d' % i, uri='w%d' % i)
                         for i, k in enumerate(seq)]
                base = ('text', specs)
                for k in ops_mod.KINDS10:
                    s = ops_mod.basic_spec(k)
                    env.history([base, ('add', s, 0)], kind='valid-sheet-add')
                    count += 1
                    if n <= full and (n < full or ctx.tier_counts != 'quick' or k in ('namespace', 'variables', 'import', 'charset')
                                      or half.random() < 0.4):
                        for i in range(n + 1):
                            # (quick tier: the serialise + reparse oracle on a third of these; all of them have it after `add`)
                            rp = ctx.tier_counts != 'quick' or half.random() < 0.33
                            env.history([base, ('ins', s, i, 0)], kind='valid-sheet-ins', reparse=rp)
                            if k in ('namespace', 'variables', 'import', 'charset'):
                                env.history([base, ('insord', s, i, 0)], kind='valid-sheet-insord', reparse=rp)
                            count += 1
        ctx.notes['valid_sheet_histories'] = count

    def boundary(self, ctx, env):
        for h in ops_mod.boundary_histories():
            for raising in (True, False):
                env.history(h, raising=raising, kind='boundary')

    def blocks(self, ctx, env):
        """declaration blocks and properties as objects: ALL sequences of length <= 2 (quick) / 3 (thorough) over the
        operations on the block of one style rule, both modes; every operation on every kind of rule with a style at
        every depth, followed by operations that remove the rule (its block stays with it)"""
        S = Spec
        mar = S('margin', pre='@top-left')
        base = ('text', [S('style'), S('media', kids=[S('style'), S('page', kids=[mar])]), S('fontface'), S('page', kids=[mar])])
        paths = [(0,), (1, 0), (1, 1), (1, 1, 0), (2,), (3,), (3, 0)]
        good, mixed, bad = [('top', 1), ('color', 1)], [('top', 0), ('color', 1)], [('right', 0)]

        def alphabet(p, full=True):
            forms = (0, 1) if p in ((1, 1), (3,)) else (0, 1, 2)         # the text of an @page rule is a rule-list operation
            a = [('dnew', p, it, f) for f in forms for it in ((good, mixed, bad, []) if full else (good, mixed))]
            a += [('dtext', p, it) for it in (good, mixed, bad, [])]
            a += [('dset', p, 'top', 1, 0, 1), ('dset', p, 'top', 1, 0, 0), ('dset', p, 'top', 0, 0, 1), ('dset', p, 'top', 1, 1, 1),
                  ('dset', p, 'right', 1, 0, 1), ('dset', p, 'color', 1, 1, 0), ('dsetobj', p, 'top'), ('dsetobj', p, 'right'),
                  ('ddel', p, 'top'), ('ddel', p, 'color'), ('dshare', p, p)]
            return a
        depth = ctx.n(2, 3)
        count = 0
        small = alphabet((0,), full=False)
        for n in range(1, depth + 1):
            for seq in itertools.product(alphabet((0,)) if n < 3 else small, repeat=n):
                for raising in (True, False):
                    env.history([base] + list(seq), raising=raising, kind='blocks-exhaustive-%d' % n)
                    count += 1
        removers = {(0,): [('del', 0)], (1, 0): [('ndel', (1,), 0)], (1, 1): [('ntext', (1,), [S('style')])],
                    (1, 1, 0): [('ndel', (1, 1), 0)], (2,): [('text', [])], (3,): [('del', -1)], (3, 0): [('ntext', (3,), [])]}
        for p in paths:
            for op in alphabet(p):
                for raising in (True, False):
                    env.history([base, op, ('dset', p, 'color', 1, 0, 1)] + removers[p] + [('add', S('style'), 0)],
                                raising=raising, kind='blocks-boundary')
                    count += 1
        # a contained object handed in a second time (known findings): the model mirrors the aliasing
        for a, b in ((0,), (2,)), ((1, 0), (0,)), ((3, 0), (1, 1, 0)), ((0,), (0,)):
            for raising in (True, False):
                env.history([base, ('dset', b, 'top', 1, 0, 1), ('dshare', a, b), ('dset', a, 'color', 1, 0, 1), ('dnew', a, good, 1),
                             ('dnew', b, good, 0)], raising=raising, kind='blocks-shared')
                env.history([base, ('dshare', a, b), ('dnew', b, good, 0), ('ddel', a, 'top')], raising=raising, kind='blocks-shared')
                env.history([base, ('dset', b, 'top', 1, 0, 1), ('dshareprop', a, b, 1), ('dshareprop', a, b, 1), ('ddel', b, 'top'),
                             ('dtext', a, good)], raising=raising, kind='blocks-shared')
                env.history([base, ('dset', b, 'top', 1, 0, 1), ('dshareprop', a, b, 1), ('ddel', a, 'top'), ('dtext', b, [])],
                            raising=raising, kind='blocks-shared')
                count += 4
        ctx.notes['block_histories'] = count

    def around(self, ctx, env):
        """edits that go around the DOM methods (known findings C09-raw-list-edit, C09-rule-reinserted): the model
        (Model/SheetRaw.lean) mirrors them; legitimate operations follow the raw edits"""
        S = Spec
        mar = S('margin', pre='@top-left')
        base = ('text', [S('import'), S('style'), S('media', kids=[S('style'), S('comment'), S('page', kids=[mar])]), S('fontface')])
        tail = [('add', S('style'), 0), ('add', S('import'), 0), ('del', 0), ('text', [S('style')])]
        count = 0
        for raising in (True, False):
            for i in range(-4, 4):
                env.history([base, ('rawdel', (), i)] + tail, raising=raising, kind='around-rawdel')
                count += 1
            for p, m in (((2,), 3), ((2, 2), 1)):
                for i in range(-m, m):
                    env.history([base, ('rawdel', p, i), ('nins', p, S('style') if len(p) == 1 else mar, None, 0), ('ndel', p, 0),
                                 ('del', 2)], raising=raising, kind='around-rawdel')
                    count += 1
            for k in ('style', 'import', 'charset', 'comment', 'variables', 'fontface', 'unknown'):
                for i in (-6, -1, 0, 1, 4, 9):
                    env.history([base, ('rawins', ops_mod.basic_spec(k), i)] + tail, raising=raising, kind='around-rawins')
                    count += 1
            for p in ((0,), (1,), (3,), (2, 0), (2, 1), (2, 2, 0)):
                for i in (None, 0, 1, 2, 4, 7):
                    env.history([base, ('reins', p, i)], raising=raising, kind='around-reinsert')
                    env.history([base, ('del', 0), ('reins', p if p[0] < 1 else (p[0] - 1,) + p[1:], i)], raising=raising,
                                kind='around-reinsert')
                    count += 2
        ctx.notes['around_histories'] = count

    def random_walks(self, ctx, env):
        rng = ctx.sub_rng('walks')
        for i in range(ctx.n(150, 2000)):
            env.walk(rng, length=ctx.n(40, 60))

    # ------------------------------------------------------------------------------------------
    def known(self, ctx, finding):
        env = ops_mod.Env(ctx, quiet=True)
        try:
            return env.replay_known(finding)
        finally:
            env.restore()

    def replay(self, ctx, data):
        env = ops_mod.Env(ctx)
        try:
            w = data.get('witness') or {}
            if not w and data.get('broken'):
                w = (data['broken'][0].get('input') or {})
            if 'ops' in w:
                env.history(ops_mod.ops_from_json(w['ops']), raising=w.get('raising', True), kind='replay')
                env.flush()
            else:
                self.run(ctx)
        finally:
            env.restore()


CHECK = C09()
