"""C15 — namespace declarations and namespaced selectors stay consistent.

model: lean/CssVerif/Model/Ns.lean; theorems: lean/CssVerif/Props/C15.lean; driver: lean/Drv/C15.lean
correspondence: generated namespace histories (parse, insertRule of @namespace rules as objects and as text,
sheet.namespaces[p]=u, del sheet.namespaces[p], deleteRule, rule.prefix=, selectorText=, insertRule of style
rules as text and as foreign objects) run on the implementation and on the model; after every operation the
outcome (return value / exception class) and the canonical state (mapping, rules with their seq, resolved
selector items, selector texts, well-formedness of the @namespace texts) are compared. Plus detached
Selector((text, dict)) resolution and serialisation.
oracle (implementation only): mapping = independent reading of the rule list, used URIs declared, selector
items unchanged by namespace operations, reparse of cssText gives the same mapping / rules / items,
undeclared prefix rejected, rejected operation changes nothing.
"""
import itertools
import json
import os
import xml.dom

from lib.framework import Check, enc, dec, time_limit

import harness.c15_gen as G

KINDS = {'charset': '@charset "utf-8";', 'import': '@import "x.css";', 'comment': '/*c*/',
         'variables': '@variables { v: 1 }', 'page': '@page { margin: 0 }',
         'fontface': '@font-face { font-family: f }', 'unknown': '@foo bar;'}


def impl():
    import logging
    import cssutils
    cssutils.log.setLevel(logging.FATAL)      # messages are not observables; exceptions are
    return cssutils


# ----------------------------------------------------------------------------------------------
# canonical projection of the implementation's state (same text as Drv/C15.lean `showState`)
def canon_item(item):
    t, v = item.type, item.value
    if isinstance(v, tuple):
        k = {'type-selector': 't', 'universal': 'u', 'attribute-selector': 'a', 'negation-type-selector': 'n'}.get(t)
        if k is None:
            return '?tuple:' + t
        ns, name = v
        if ns is None:
            nsw = 'n'
        elif ns == -1:
            nsw = 'a'
        elif isinstance(ns, str):
            nsw = 'u' + enc(ns)
        else:
            return '?ns:%r' % (ns,)
        return 'q:%s:%s:%s' % (k, nsw, enc(name))
    if not isinstance(v, str):
        return '?val:' + t
    if t == 'attribute-selector':
        return 'b:' + enc(v)
    return 'o:%s:%s' % (enc(v), enc(G.ser_of(t, v)))


def canon_sels(rule):
    return ','.join('+'.join(canon_item(i) for i in sel.seq) for sel in rule.selectorList)


def canon_rule(r):
    if r.type == r.NAMESPACE_RULE:
        seq = []
        for i in r.seq:
            if i.type == 'prefix':
                seq.append('p' + enc(i.value))
            elif i.type == 'namespaceURI':
                seq.append('u' + enc(i.value))
            elif i.type == 'COMMENT':
                seq.append('c')
            else:
                seq.append('?' + i.type)
        return 'N=%s:%s:%s' % (enc(r.prefix), enc(r.namespaceURI), '+'.join(seq))
    if r.type == r.STYLE_RULE:
        return 'S=' + canon_sels(r)
    if r.type == r.MEDIA_RULE:
        return 'M=' + '/'.join(canon_sels(c) for c in r.cssRules if c.type == c.STYLE_RULE)
    name = {r.CHARSET_RULE: 'charset', r.IMPORT_RULE: 'import', r.COMMENT: 'comment', r.VARIABLES_RULE: 'variables',
            r.PAGE_RULE: 'page', r.FONT_FACE_RULE: 'fontface', r.UNKNOWN_RULE: 'unknown'}.get(r.type, '?%s' % r.type)
    return 'O=' + name


def ns_text_wf(c, r):
    """the serialised @namespace rule, parsed on its own, is a rule for the same prefix and URI"""
    old = c.log.raiseExceptions
    c.log.raiseExceptions = False
    try:
        r2 = c.css.CSSNamespaceRule(cssText=r.cssText)
        return bool(r2.wellformed and r2.prefix == r.prefix and r2.namespaceURI == r.namespaceURI)
    except Exception:
        return False
    finally:
        c.log.raiseExceptions = old


def canon_state(c, sheet):
    d = 'D' + ','.join('%s~%s' % (enc(k), enc(v)) for k, v in sheet.namespaces.items())
    rules = ';'.join(canon_rule(r) for r in sheet.cssRules) or '_'
    texts = []
    for r in sheet.cssRules:
        if r.type == r.STYLE_RULE:
            texts.append(enc(r.selectorText))
        elif r.type == r.MEDIA_RULE:
            texts += [enc(x.selectorText) for x in r.cssRules if x.type == x.STYLE_RULE]
    wf = ''.join('1' if ns_text_wf(c, r) else '0' for r in sheet.cssRules if r.type == r.NAMESPACE_RULE)
    return 'V=%s R=%s T=%s W=%s' % (d, rules, ';'.join(texts) or '_', wf or '_')


def prop_state(st):
    """the canonical state at the level of the property: an empty prefix item in the seq of an @namespace rule
    writes nothing and means nothing"""
    import re
    return re.sub(r'(?<=[:+])p-\+|\+p-(?=[;+ ])', '', st)


def split_state(st):
    return dict(w.split('=', 1) for w in st.split(' '))


# ----------------------------------------------------------------------------------------------
# running one operation on the implementation
DOM_ERRS = ('NamespaceErr', 'NoModificationAllowedErr', 'SyntaxErr', 'IndexSizeErr', 'HierarchyRequestErr',
            'InvalidModificationErr')


class Impl:
    def __init__(self, c):
        self.c = c
        self.parser = c.CSSParser(fetcher=lambda url: (None, ''))
        self.sheet = c.css.CSSStyleSheet()

    def reset(self):
        self.sheet = self.c.css.CSSStyleSheet()

    raising = True

    def apply(self, op):
        """returns the outcome word"""
        c = self.c
        old = c.log.raiseExceptions
        c.log.raiseExceptions = self.raising
        try:
            with time_limit(20):
                ret = self._apply(op)
            return 'ok:%s' % ('n' if ret is None else ret)
        except xml.dom.DOMException as e:
            return 'err:' + type(e).__name__
        except Exception as e:  # anything else is not a documented rejection
            if type(e).__name__ == 'TimeLimit':
                raise
            return 'exc:' + type(e).__name__
        finally:
            c.log.raiseExceptions = old

    def _apply(self, op):
        c, s = self.c, self.sheet
        k = op[0]
        if k == 'parse':
            _, init, src = op
            text = G.render_src(src)
            if init:
                new = c.css.CSSStyleSheet()
                c.log.raiseExceptions = False
                new._setFetcher(lambda url: (None, ''))
                new.cssText = (text, dict(init))
            else:
                new = self.parser.parseString(text)
            self.sheet = new
            return None
        if k == 'insns':
            _, p, u, idx, io = op
            rule = c.css.CSSNamespaceRule(prefix=p, namespaceURI=u)
            return s.insertRule(rule, idx, io)
        if k == 'insnstext':
            _, p, u, cc, idx, io = op
            return s.insertRule(G.render_ns(p, u, cc), idx, io)
        if k == 'setns':
            s.namespaces[op[1]] = op[2]
            return None
        if k == 'delns':
            del s.namespaces[op[1]]
            return None
        if k == 'delrule':
            s.deleteRule(op[1])
            return None
        if k == 'setprefix':
            s.cssRules[op[1]].prefix = op[2]
            return None
        if k == 'setsel':
            s.cssRules[op[1]].selectorText = G.render_sels(op[2])
            return None
        if k == 'insstyle':
            _, sels, idx, io = op
            return s.insertRule(G.render_sels(sels) + ' { x: 1 }', idx, io)
        if k == 'setnstext':
            s.cssRules[op[1]].cssText = G.render_ns(op[2], op[3], op[4])
            return None
        if k == 'rawdel':
            if op[2] == 'pop':
                s.cssRules.pop(op[1])
            else:
                del s.cssRules[op[1]]
            return None
        if k == 'insobj':
            _, sels, nsdict, idx, io = op
            rule = c.css.CSSStyleRule(selectorText=(G.render_sels(sels), dict(nsdict)), style='x: 1')
            return s.insertRule(rule, idx, io)
        raise ValueError(k)


# ----------------------------------------------------------------------------------------------
# independent readings used by the oracle
def spec_view(pairs):
    """'the last declaration of a URI wins, one prefix per URI'; should two effective rules carry the same
    prefix, the later declaration of the prefix wins (CSS Namespaces §2)"""
    eff = []
    for i, (p, u) in enumerate(pairs):
        if all(u2 != u for _, u2 in pairs[i + 1:]):
            eff.append((p, u))
    out = {}
    for p, u in eff:
        out[p] = u
    return out


def sheet_pairs(sheet):
    return [(r.prefix, r.namespaceURI) for r in sheet.cssRules if r.type == r.NAMESPACE_RULE]


def sheet_items(sheet):
    """per style rule (also inside @media): per selector: the (type, value) items"""
    out = []
    for r in sheet.cssRules:
        rs = [r] if r.type == r.STYLE_RULE else ([x for x in r.cssRules if x.type == x.STYLE_RULE]
                                                 if r.type == r.MEDIA_RULE else [])
        for x in rs:
            out.append([[(i.type, i.value) for i in sel.seq if i.type != 'COMMENT'] for sel in x.selectorList])
    return out


def ns_info(sheet):
    """(index, prefix, URI, type of the first seq item) of every @namespace rule"""
    return [(i, r.prefix, r.namespaceURI, r.seq[0].type if len(r.seq) else None)
            for i, r in enumerate(sheet.cssRules) if r.type == r.NAMESPACE_RULE]


def used_uris(items):
    return {v[0] for rule in items for sel in rule for t, v in sel if isinstance(v, tuple) and isinstance(v[0], str)}


class C15(Check):
    id = 'C15'
    props_module = 'CssVerif.Props.C15'
    driver_exe = 'drv_c15'
    sources = ('cssutils/util.py', 'cssutils/css/cssstylesheet.py', 'cssutils/css/cssnamespacerule.py',
               'cssutils/css/selector.py', 'cssutils/css/selectorlist.py', 'cssutils/css/cssstylerule.py',
               'cssutils/serialize.py')
    trusted_base = (
        'hand-written model lean/CssVerif/Model/Ns.lean of _Namespaces / _cleanNamespaces / deleteRule / the '
        '@namespace branch of insertRule / CSSNamespaceRule setters / New.append / do_css_Selector, tied to the '
        'source by the differential correspondence of this run (outcome and full canonical state after every '
        'operation of generated histories)',
        'selectors enter the model as item lists (qualified names with the four prefix forms + verbatim other '
        'items); tokenising and the selector grammar are outside this kernel',
        'rendering of generated abstract sheets/selectors to CSS text and the canonical projection in '
        'tools/harness/c15.py, c15_gen.py',
    )
    assumptions = (
        'DOM calls run with cssutils.log.raiseExceptions = True (the default); parseString runs in logging mode',
        '@namespace rules with an empty URI, negative indices, comments inside selectors and nested @media are '
        'not generated (not modelled)',
    )
    rule = ('histories: a parsed start sheet (0-4 @namespace rules with/without prefix and comments, style rules, '
            '@media, other rule kinds in and out of order, declared and undeclared prefixes) followed by 1-10 '
            'operations drawn from 10 kinds over small vocabularies of prefixes/URIs/names so that collisions are '
            'frequent; selectors: type, universal, attribute, :not() names with the prefix forms name, *|name, '
            '|name, p|name. non-trivial = distinct (state before, operation) pairs in which the sheet has an '
            '@namespace rule or the operation mentions a prefix')

    # ------------------------------------------------------------------------------------------
    def run(self, ctx):
        c = impl()
        self.kf = KnownRegions()
        rng = ctx.sub_rng('c15')
        hist = []
        corpus = os.path.join(ctx.verif, 'tools', 'corpus', 'C15')
        if os.path.isdir(corpus):
            for fn in sorted(os.listdir(corpus)):
                if fn.endswith('.json'):
                    for h in json.load(open(os.path.join(corpus, fn))).get('histories', []):
                        hist.append(('corpus', G.from_json(h)))
        for h in G.boundary_histories():
            hist.append(('boundary', h))
        ctx.phase(self.run_histories, ctx, c, hist, rng, generate=ctx.n(2000, 25000))
        ctx.phase(self.corr_detached, ctx, c, rng)
        ctx.phase(self.oracle_logmode, ctx, c, ctx.sub_rng('c15-logmode'))
        ctx.phase(self.oracle_media_insert, ctx, c, ctx.sub_rng('c15-media'))
        ctx.phase(self.oracle_comment_after_prefix, ctx, c, ctx.sub_rng('c15-comment'))
        # report the smallest failing history first
        ctx.violations.sort(key=lambda v: len(json.dumps(v['witness'], default=repr)))
        ctx.disagreements.sort(key=lambda d: len(json.dumps(d['input'], default=repr)))

    # -- histories: the ops of a history are chosen while the implementation runs (indices refer to its state)
    def run_histories(self, ctx, c, fixed, rng, generate):
        im = Impl(c)
        records = []        # (kind, history index, op, pre-state, outcome, post-state, extra)
        lines = []
        hidx = 0
        for kind, ops in fixed:
            self.one_history(ctx, c, im, kind, hidx, iter(ops), records, lines)
            hidx += 1
        for _ in range(generate):
            gen = G.HistoryGen(rng)
            self.one_history(ctx, c, im, gen.kind, hidx, gen, records, lines)
            hidx += 1
        out = ctx.driver(lines) if ctx.model_ok else None
        if out is not None:
            j = 0
            for rec in records:
                if rec is None:
                    j += 1
                    continue
                kind, h, op, pre, outcome, post = rec
                m = out[j]
                j += 1
                got = outcome + ' ' + post
                if m != got:
                    ctx.disagree('history step', {'history': h, 'op': G.to_json_op(op), 'pre': pre,
                                                  'ops_so_far': self.hist_ops.get(h)},
                                 got, m)
        ctx.notes['histories'] = hidx

    hist_ops = {}

    def one_history(self, ctx, c, im, kind, h, ops, records, lines):
        im.reset()
        lines.append('reset')
        records.append(None)
        tainted = None
        done = []
        self.hist_ops[h] = done
        if isinstance(ops, G.HistoryGen):
            ops.bind(im)
        for op in ops:
            pre = canon_state(c, im.sheet)
            pre_sheet = im.sheet
            pre_items = sheet_items(pre_sheet)
            pre_map = dict(pre_sheet.namespaces.items())
            pre_map['#ns'] = ns_info(pre_sheet)
            outcome = im.apply(op)
            post = canon_state(c, im.sheet)
            done.append(G.to_json_op(op))
            lines.append(G.op_line(op))
            records.append((kind, h, op, pre, outcome, post))
            nontrivial = ('N=' in pre) or G.mentions_prefix(op)
            ctx.case(key=(pre, G.op_line(op)), nontrivial=nontrivial, kind='%s:%s:%s' % (kind, op[0], outcome.split(':')[0]),
                     sample={'pre': pre, 'op': G.to_json_op(op), 'outcome': outcome, 'post': post})
            if tainted is None:
                tainted = self.oracle(ctx, c, im, h, done, op, pre, pre_items, pre_map, outcome, post)
            else:
                ctx.count('steps-after-known-finding')
            if len(self.hist_ops) > 64:
                self.hist_ops.pop(next(iter(self.hist_ops)))

    # -- oracle on the implementation --------------------------------------------------------------
    def oracle(self, ctx, c, im, h, done, op, pre, pre_items, pre_map, outcome, post):
        """returns the id of a known finding when this step entered its region (the rest of the history is
        then only used for the correspondence), else None"""
        sheet = im.sheet
        pre_map = dict(pre_map)
        pre_ns = pre_map.pop('#ns')
        wit = {'ops': list(done)}
        bad = []
        soft = []        # (clause, detail, finding id): violations inside a state-defined region, no taint
        if outcome.startswith('exc:'):
            bad.append(('a namespace operation raises only documented DOM exceptions', {'outcome': outcome}))
        # attachment decides whose namespaces a rule resolves and serialises with, and which sheet a prefix setter
        # checks: every rule that is in cssRules belongs to this sheet (also after a rejected, rolled-back call)
        loose = [(i, r.type) for i, r in enumerate(sheet.cssRules) if r.parentStyleSheet is not sheet]
        if loose:
            bad.append(('every rule in cssRules is attached to the sheet (parentStyleSheet)',
                        {'index_and_type_of_detached_rules': loose}))
        pairs = sheet_pairs(sheet)
        mapping = dict(sheet.namespaces.items())
        want = spec_view(pairs)
        if mapping != want:
            bad.append(('the namespace mapping equals the effective @namespace rules (last declaration of a URI '
                         'wins, one prefix per URI)', {'mapping': mapping, 'rules': pairs, 'expected': want}))
        items = sheet_items(sheet)
        used = used_uris(items)
        missing = sorted(u for u in used if u != '' and u not in mapping.values())
        if missing:
            bad.append(('every namespace URI used by a selector is declared', {'undeclared': missing, 'mapping': mapping}))
        if op[0] in ('insns', 'insnstext', 'setns', 'delns', 'setprefix', 'setnstext') or \
                (op[0] == 'delrule' and outcome.startswith('err')):
            if items != pre_items:
                bad.append(('a namespace operation does not change the (URI, name) pairs stored in selectors',
                            {'before': pre_items, 'after': items}))
        if outcome.startswith('err') and op[0] != 'parse' and post != pre:
            bad.append(('a rejected operation leaves mapping, rules and selectors unchanged', {'pre': pre, 'post': post}))
        # what an accepted call must have achieved (read off the mapping / the rule list, not the model)
        if outcome.startswith('ok'):
            if op[0] == 'setns' and mapping.get(op[1]) != op[2]:
                bad.append(("after sheet.namespaces[p] = u the mapping binds p to u", {'p': op[1], 'u': op[2], 'mapping': mapping}))
            if op[0] == 'delns' and (op[1] in mapping or len(pairs) != len(pre_ns) - 1):
                bad.append(("after del sheet.namespaces[p] the prefix is gone and exactly one @namespace rule less",
                            {'p': op[1], 'mapping': mapping, 'rules_before': [x[1:3] for x in pre_ns], 'rules': pairs}))
            if op[0] in ('insns', 'insnstext') and outcome != 'ok:n':
                k = int(outcome.split(':')[1])
                at = sheet.cssRules[k] if 0 <= k < len(sheet.cssRules) else None
                io = op[4] if op[0] == 'insns' else op[5]
                if io and at is not None:
                    after = [r.type for r in sheet.cssRules[k + 1:]]
                    before = [r.type for r in sheet.cssRules[:k]]
                    if any(t in (at.CHARSET_RULE, at.IMPORT_RULE) for t in after) or \
                            any(t in (at.VARIABLES_RULE, at.MEDIA_RULE, at.PAGE_RULE, at.STYLE_RULE, at.FONT_FACE_RULE)
                                for t in before):
                        bad.append(("insertRule(inOrder=True) puts an @namespace rule after @charset/@import and "
                                    "before @variables, @media, @page, @font-face and style rules",
                                    {'index': k, 'kinds': [r.type for r in sheet.cssRules]}))
                if at is None or at.type != at.NAMESPACE_RULE or (at.prefix, at.namespaceURI) != (op[1], op[2]):
                    bad.append(("insertRule returns the index at which the inserted @namespace rule is",
                                {'rule': [op[1], op[2]], 'returned': k, 'rules': pairs,
                                 'kinds': [r.type for r in sheet.cssRules]}))
            rpre = split_state(pre)['R']
            if op[0] == 'delrule' and len(sheet.cssRules) != (0 if rpre == '_' else rpre.count(';') + 1) - 1:
                bad.append(("deleteRule removes exactly one rule", {'pre': pre, 'post': post}))
        if op[0] in ('setsel', 'insstyle'):
            und = [p for p in G.named_prefixes(op) if p not in pre_map]
            if und and not outcome.startswith('err'):
                bad.append(('a selector using an undeclared prefix is rejected', {'undeclared_prefixes': und}))
        st = split_state(post)
        if '0' in st['W']:
            bad.append(('the serialised @namespace rules stay well-formed',
                        {'rules': [r.cssText for r in sheet.cssRules if r.type == r.NAMESPACE_RULE]}))
        # reparse of the serialisation
        try:
            with time_limit(20):
                text = sheet.cssText
                again = im.parser.parseString(text)
            if dict(again.namespaces.items()) != mapping or sheet_pairs(again) != pairs:
                bad.append(('reparse of cssText gives the same namespace declarations',
                            {'cssText': text.decode('utf-8', 'replace'), 'mapping': mapping,
                             'reparsed': dict(again.namespaces.items())}))
            else:
                items2 = sheet_items(again)
                diffs = item_diffs(items, items2)
                if diffs is None:
                    bad.append(('the serialisation of every selector re-resolves to the same (URI, name) pairs',
                                {'cssText': text.decode('utf-8', 'replace'), 'items': items, 'reparsed_items': items2}))
                else:
                    for a, b in diffs:
                        kid = KnownRegions.item_region(mapping, a)
                        det = {'cssText': text.decode('utf-8', 'replace'), 'item': a, 'reparsed_item': b}
                        clause = 'the serialisation of every selector re-resolves to the same (URI, name) pairs'
                        if kid:
                            soft.append((clause, det, kid))
                        else:
                            bad.append((clause, det))
        except xml.dom.DOMException as e:
            bad.append(('reparse of cssText gives the same namespace declarations', {'exception': repr(e)}))
        for clause, detail, kid in soft:
            ctx.violate(clause, wit, detail, known=kid)
        if not bad:
            return None
        kid = self.kf.classify(op, pre_map, pre_ns, outcome, pre != post)
        for clause, detail in bad:
            ctx.violate(clause, wit, detail, known=kid)
        return kid or 'unattributed'

    # -- the error mode does not decide what a call does to the sheet ---------------------------------
    def oracle_logmode(self, ctx, c, rng):
        """the same history on two sheets, once with cssutils.log.raiseExceptions = True and once with False
        (errors only logged): after every operation both sheets are in the same state — a call that is rejected
        when raising changes nothing when the error is only logged"""
        a, b = Impl(c), Impl(c)
        b.raising = False
        for _ in range(ctx.n(250, 4000)):
            a.reset()
            b.reset()
            gen = G.HistoryGen(rng)
            gen.bind(a)
            done = []
            for op in gen:
                pre_ns = ns_info(a.sheet)
                oa = a.apply(op)
                ob = b.apply(op)
                sa, sb = prop_state(canon_state(c, a.sheet)), prop_state(canon_state(c, b.sheet))
                done.append(G.to_json_op(op))
                ctx.case(key=('logmode', sa, G.op_line(op)), nontrivial=oa.startswith('err'),
                         kind='logmode:%s:%s' % (op[0], oa.split(':')[0]))
                if ob.startswith('exc:'):
                    ctx.violate('a namespace operation raises only documented DOM exceptions',
                                {'ops': list(done), 'raiseExceptions': False}, {'outcome': ob})
                    break
                if sa != sb:
                    ctx.violate('what an operation does to the sheet does not depend on the error mode: a call that is '
                                'rejected with raiseExceptions=True changes nothing when the error is only logged',
                                {'ops': list(done), 'raiseExceptions': False},
                                {'outcome_raising': oa, 'outcome_logging': ob, 'state_raising': sa, 'state_logging': sb})
                    break

    # -- a selector means the same inside @media as at the top level of the same sheet ------------------
    def oracle_media_insert(self, ctx, c, rng):
        old = c.log.raiseExceptions
        c.log.raiseExceptions = True
        try:
            for _ in range(ctx.n(300, 5000)):
                start = G.gen_start(rng)
                src = [r for r in start[2] if r[0] != 'media'] + [('media', [[[('q', 't', 'N', 'z')]]])]
                text = G.render_src(src)
                s1 = Impl(c).parser.parseString(text)
                s2 = Impl(c).parser.parseString(text)
                declared = [p for p in dict(s1.namespaces.items())]
                sels = G.gen_sels(rng, G.pick_prefixes(rng, declared), bad=0)
                rule_text = G.render_sels(sels) + ' { x: 1 }'
                media = [r for r in s1.cssRules if r.type == r.MEDIA_RULE]
                if not media:
                    continue

                def run(f):
                    try:
                        f()
                        return 'ok'
                    except xml.dom.DOMException as e:
                        return 'err:' + type(e).__name__
                    except Exception as e:
                        return 'exc:' + type(e).__name__
                o1 = run(lambda: media[0].insertRule(rule_text))
                o2 = run(lambda: s2.insertRule(rule_text))
                it1 = sheet_items(s1)[-1] if o1 == 'ok' else None
                it2 = sheet_items(s2)[-1] if o2 == 'ok' else None
                wit = {'sheet': text, 'call': 'sheet.cssRules[i].insertRule(%r) on the @media rule' % rule_text}
                ctx.case(key=('media-insert', text, rule_text), nontrivial=bool(declared), kind='media-insert:' + o1,
                         sample=wit)
                if (o1, it1) != (o2, it2):
                    ctx.violate('a selector inserted into an @media rule resolves its prefixes and the default namespace '
                                'as the same selector inserted at the top level of the same sheet does', wit,
                                {'in_media': [o1, it1], 'top_level': [o2, it2],
                                 'namespaces': dict(s1.namespaces.items())})
        finally:
            c.log.raiseExceptions = old

    # -- a comment is not part of a name ---------------------------------------------------------------
    def oracle_comment_after_prefix(self, ctx, c, rng):
        old = c.log.raiseExceptions
        c.log.raiseExceptions = True
        try:
            for _ in range(ctx.n(600, 10000)):
                d = G.gen_dict(rng)
                sel = G.gen_selector(rng, [p for p in d if p], bad=0)
                cand = [i for i, it in enumerate(sel) if it[0] == 'q' and it[2] != 'N']
                if not cand:
                    continue
                k = rng.choice(cand)
                plain = G.render_sel(sel)
                commented = ''.join(G.render_ps(it[2]) + '/*c*/' + it[3] if i == k else G.render_item(it)
                                    for i, it in enumerate(sel))

                def items(text):
                    try:
                        s = c.css.Selector((text, dict(d)))
                        return [norm_item((i.type, i.value)) for i in s.seq if i.type != 'COMMENT']
                    except xml.dom.DOMException as e:
                        return 'err:' + type(e).__name__
                a, b = items(plain), items(commented)
                ctx.case(key=('comment', commented, tuple(sorted(d.items()))), nontrivial=True, kind='comment-after-prefix',
                         sample={'selector': commented, 'namespaces': d})
                if a != b and not (isinstance(b, str) and not isinstance(a, str)):
                    # (being rejected because of the comment is the grammar's business, not a change of meaning)
                    ctx.violate('a comment between a namespace prefix and the name does not change what the name denotes '
                                '(an accepted selector has the same items as without the comment)',
                                {'selector': commented, 'namespaces': d}, {'with_comment': b, 'without': a})
        finally:
            c.log.raiseExceptions = old

    # -- detached selectors: Selector((text, dict)) -------------------------------------------------
    def corr_detached(self, ctx, c, rng):
        lines, cases = [], []
        for _ in range(ctx.n(1500, 40000)):
            d = G.gen_dict(rng)
            sel = G.gen_selector(rng, [p for p in d if p] + (['zz'] if rng.random() < 0.3 else []))
            lines.append('resolve %s %s' % (G.dict_word(d), G.ssel_word(sel)))
            cases.append((d, sel))
        out = ctx.driver(lines) if ctx.model_ok else [None] * len(lines)
        old = c.log.raiseExceptions
        c.log.raiseExceptions = True
        try:
            for (d, sel), m in zip(cases, out):
                text = G.render_sel(sel)
                try:
                    s = c.css.Selector((text, dict(d)))
                    got = 'ok %s %s' % ('+'.join(canon_item(i) for i in s.seq), enc(s.selectorText))
                    # oracle: the text written with the selector's own prefixes re-resolves to the same items
                    s2 = c.css.Selector((s.selectorText, dict(d)))
                    a = [norm_item((i.type, i.value)) for i in s.seq]
                    b = [norm_item((i.type, i.value)) for i in s2.seq]
                    if a != b:
                        kid = KnownRegions.detached(d, a)
                        ctx.violate('the serialisation of every selector re-resolves to the same (URI, name) pairs',
                                    {'selector': text, 'namespaces': d}, {'items': a, 'text': s.selectorText,
                                                                         'reparsed': b}, known=kid)
                except xml.dom.DOMException as e:
                    got = 'err:' + type(e).__name__
                    if got == 'err:NamespaceErr' and not [p for p in G.sel_named_prefixes(sel) if p not in d]:
                        ctx.violate('NamespaceErr only for an undeclared prefix', {'selector': text, 'namespaces': d}, got)
                if [p for p in G.sel_named_prefixes(sel) if p not in d] and got.startswith('ok'):
                    ctx.violate('a selector using an undeclared prefix is rejected', {'selector': text, 'namespaces': d}, got)
                ctx.case(key=('detached', text, tuple(sorted(d.items()))), nontrivial='|' in text,
                         kind='detached:' + got.split(' ')[0], sample={'selector': text, 'namespaces': d, 'impl': got})
                if m is not None and m != got:
                    ctx.disagree('detached selector', {'selector': text, 'namespaces': d}, got, m)
        finally:
            c.log.raiseExceptions = old

    # ------------------------------------------------------------------------------------------
    def known(self, ctx, finding):
        c = impl()
        self.kf = KnownRegions()
        w = finding['witness']['data']
        if 'python' in w:
            # a direct reproduction on the implementation: the snippet sets `fails` (True = still wrong)
            env = {'cssutils': c}
            old = c.log.raiseExceptions
            try:
                exec(w['python'], env)
            finally:
                c.log.raiseExceptions = old
            return bool(env.get('fails'))
        if 'selector' in w:
            s = c.css.Selector((w['selector'], dict(w['namespaces'])))
            s2 = c.css.Selector((s.selectorText, dict(w['namespaces'])))
            return [(i.type, i.value) for i in s.seq] != [(i.type, i.value) for i in s2.seq]
        probe = Probe()
        self.replay_ops(probe, c, [G.from_json_op(o) for o in w['ops']])
        return any(k == finding['id'] for _, _, _, k in probe.v)

    def replay_ops(self, ctx, c, ops):
        im = Impl(c)
        im.reset()
        done = []
        tainted = None
        for op in ops:
            pre = canon_state(c, im.sheet)
            pre_items = sheet_items(im.sheet)
            pre_map = dict(im.sheet.namespaces.items())
            pre_map['#ns'] = ns_info(im.sheet)
            outcome = im.apply(op)
            post = canon_state(c, im.sheet)
            done.append(G.to_json_op(op))
            if tainted is None:
                tainted = self.oracle(ctx, c, im, 0, done, op, pre, pre_items, pre_map, outcome, post)

    def replay(self, ctx, data):
        c = impl()
        self.kf = KnownRegions()
        w = data.get('witness') or {}
        if data.get('kind') == 'impl-violates' and 'ops' in w:
            self.replay_ops(ctx, c, [G.from_json_op(o) for o in w['ops']])
        elif data.get('kind') == 'impl-violates' and 'selector' in w:
            self.corr_one_detached(ctx, c, w)
        else:
            done = False
            for b in data.get('broken', []):
                inp = b.get('input') or {}
                if 'ops_so_far' in inp and inp['ops_so_far']:
                    ops = [G.from_json_op(o) for o in inp['ops_so_far']]
                    self.run_histories(ctx, c, [('replay', ops)], ctx.sub_rng('replay'), generate=0)
                    done = True
            if not done:
                self.run(ctx)

    def corr_one_detached(self, ctx, c, w):
        s = c.css.Selector((w['selector'], dict(w['namespaces'])))
        s2 = c.css.Selector((s.selectorText, dict(w['namespaces'])))
        a = [(i.type, i.value) for i in s.seq]
        b = [(i.type, i.value) for i in s2.seq]
        if a != b:
            ctx.violate('the serialisation of every selector re-resolves to the same (URI, name) pairs', w,
                        {'items': a, 'reparsed': b})


class Probe:
    """minimal ctx stand-in that records violations with their attribution"""
    def __init__(self):
        self.v = []

    def violate(self, clause, witness, detail=None, known=None):
        self.v.append((clause, witness, detail, known))

    def count(self, *a):
        pass


def norm_item(it):
    """an attribute name in the namespace '' is an attribute name in no namespace: [|a] and [a] denote the same"""
    t, v = it
    if t == 'attribute-selector' and isinstance(v, tuple) and v[0] == '':
        return (t, v[1])
    return it


def item_diffs(items, items2):
    """pairs (item, reparsed item) that differ; None when the shapes differ"""
    if len(items) != len(items2):
        return None
    out = []
    for r1, r2 in zip(items, items2):
        if len(r1) != len(r2):
            return None
        for s1, s2 in zip(r1, r2):
            if len(s1) != len(s2):
                return None
            for a, b in zip(s1, s2):
                if norm_item(a) != norm_item(b):
                    out.append((a, b))
    return out


class KnownRegions:
    """region predicates of the findings listed in known/C15.json"""

    @staticmethod
    def item_region(mapping, item):
        """state-defined regions: the stored item cannot be written back with the current mapping"""
        t, v = item
        if not isinstance(v, tuple):
            return None
        ns = v[0]
        dflt = mapping.get('')
        if ns is None and dflt is not None and t in ('type-selector', 'universal', 'negation-type-selector'):
            return 'C15-default-added-later'
        if t == 'attribute-selector' and isinstance(ns, str) and dflt is not None and ns == dflt:
            return 'C15-attribute-in-default-namespace'
        return None

    def classify(self, op, pre_map, pre_ns, outcome, changed):
        """operation-defined regions: (operation, state before it) -> finding id"""
        k = op[0]
        if k == 'rawdel' and outcome.startswith('ok'):
            hit = [u for j, p, u, t0 in pre_ns if j == op[1]]
            if hit and [u for j, p, u, t0 in pre_ns].count(hit[0]) == 1:
                return 'C15-rulelist-bypass'
        if k == 'insobj':
            d = dict(op[2])
            uris = set()
            for sel in op[1]:
                for it in sel:
                    if it[0] == 'q' and isinstance(it[2], tuple):
                        uris.add(d[it[2][1]])
                    elif it[0] == 'q' and it[2] == 'N' and it[1] != 'a' and '' in d:
                        uris.add(d[''])
            if any(u != '' and u not in pre_map.values() for u in uris):
                return 'C15-foreign-style-rule'
        if k == 'parse':
            if op[1]:
                return 'C15-tuple-namespaces'
            kinds = [r[1] if r[0] == 'other' else r[0] for r in op[2]]
            if 'variables' in kinds and 'ns' in kinds[kinds.index('variables'):]:
                return 'C15-namespace-after-variables'
        return None

    @staticmethod
    def detached(d, items):
        for it in items:
            k = KnownRegions.item_region(d, it)
            if k:
                return k
        return None


CHECK = C15()
