"""C16 generators: a selector AST from the CSS3 selector grammar with *known* specificity, its rendering under
independent spelling choices, the canonical projection the oracle compares, token soups and list histories.

Nothing here looks at the Lean model or at selector.py's state machine; the expected counts come from the AST.

AST (tuples)
  selector  = [compound, (comb, compound), ...]          comb in ' ', '>', '+', '~'
  compound  = {'type': None | ('type', prefix, name), 'simples': [simple...], 'pe': None | pseudo-element}
  prefix    = None | '*' | '' | declared prefix;   name = ident | '*'
  simple    = ('id', n) | ('class', n) | ('attr', prefix, n, op, value) | ('pc', n) | ('func', 1, n, atoms)
            | ('not', arg)        arg = ('type', ..) | ('id', n) | ('class', n) | ('attr', ..) | ('pc', n) | ('func', ..) | pe
  pe        = ('pe2', n) | ('pe1', n) (the four legacy one-colon ones) | ('func', 2, n, atoms)
  value     = ('ident', v) | ('string', content)
  atoms     = list of strings making up an+b / ident / string arguments, e.g. ['2n', '+', '1']
"""

ELEMS = ['a', 'div', 'p', 'span', 'h1', 'li', 'ul', 'x-y', '-moz-z', '_a', 'Body', 'TD', 'é', 'a\\:b', 'b\\.c', 'not', 'n']
IDS = ['x', 'main', 'a-b', '_1', 'Top', 'é1', 'a\\#b', 'FFF', 'c0ffee']
CLASSES = ['c', 'warn', 'a-b', '_x', 'Big', 'ü', 'a\\.b', 'not', 'first-line']
ATTRS = ['href', 'lang', 'data-x', 'Title', 'a', '_b', 'xml\\:lang']
PCLASSES = ['hover', 'focus', 'first-child', 'link', 'visited', 'active', 'last-child', 'empty', 'root', 'checked',
            'only-child', 'target', 'x-y', 'befor', 'after-x', 'b\\.c', 'x\\:y', 'p\\(q', 'm\\ n', '\\-x', 'u\\\\v']
LEGACY = ['first-line', 'first-letter', 'before', 'after']
PELEMS = ['before', 'after', 'first-line', 'selection', 'x-thing', 'placeholder']
FUNCS = ['nth-child', 'nth-of-type', 'nth-last-child', 'nth-last-of-type', 'lang', 'x-fn', 'before']
ANB = [['odd'], ['even'], ['2n', '+', '1'], ['2n'], ['3'], ['-n', '+', '3'], ['n'], ['+', '3'], ['2n', '-', '1'],
       ['-', '2n', '+', '1'], ['+3n', '-', '2'], ['10n', '+', '0'], ['fr'], ['"fr"'], ["'de-AT'"], ['fr', 'be'], ['-n'],
       ['0n', '+', '5'], ['-', '1']]
OPS = ['=', '~=', '|=', '^=', '$=', '*=']
ATTVALS = [('ident', 'x'), ('ident', 'en-US'), ('ident', '_v'), ('string', 'x'), ('string', ''), ('string', 'a b'),
           ('string', 'it\'s'), ('string', 'say "hi"'), ('string', ']'), ('string', 'a,b'), ('string', '/*no*/'),
           ('string', ' '), ('string', ')('), ('ident', 'É')]
WS = [' ', '  ', '\t', '\n', ' \n ', '\r\n', '\f', ' \t']
COMMENTS = ['/*c*/', '/**/', '/* x */', '/*a*b*/', '/***/', '/*,*/', '/*]*/', '/*)*/', '/* a b */']
NSENVS = [
    {},
    {'p': 'urn:p'},
    {'p': 'urn:p', '': 'urn:d'},
    {'p': 'urn:p', 'q': 'urn:q', '': 'urn:d'},
    {'p': 'urn:same', 'q': 'urn:same'},
    {'': 'urn:d'},
]


# --------------------------------------------------------------------------------------------------
# AST
def gen_type(rng, ns, neg=False):
    r = rng.random()
    prefixes = [None, None, None, '*', ''] + [p for p in ns if p]
    prefix = rng.choice(prefixes)
    name = '*' if rng.random() < 0.2 else rng.choice(ELEMS)
    return ('type', prefix, name)


def gen_attr(rng, ns):
    prefix = rng.choice([None, None, None, None, '*', ''] + [p for p in ns if p])
    name = rng.choice(ATTRS)
    if rng.random() < 0.3:
        return ('attr', prefix, name, None, None)
    return ('attr', prefix, name, rng.choice(OPS), rng.choice(ATTVALS))


def gen_pe(rng):
    r = rng.random()
    if r < 0.4:
        return ('pe2', rng.choice(PELEMS))
    if r < 0.8:
        return ('pe1', rng.choice(LEGACY))
    return ('func', 2, rng.choice(FUNCS), list(rng.choice(ANB)))


def gen_simple(rng, ns, allow_not=True):
    r = rng.random()
    if r < 0.18:
        return ('id', rng.choice(IDS))
    if r < 0.42:
        return ('class', rng.choice(CLASSES))
    if r < 0.60:
        return gen_attr(rng, ns)
    if r < 0.75:
        return ('pc', rng.choice(PCLASSES))
    if r < 0.85:
        return ('func', 1, rng.choice(FUNCS), list(rng.choice(ANB)))
    if allow_not:
        return ('not', gen_negarg(rng, ns))
    return ('class', rng.choice(CLASSES))


def gen_negarg(rng, ns):
    r = rng.random()
    if r < 0.3:
        return gen_type(rng, ns, neg=True)
    if r < 0.45:
        return ('id', rng.choice(IDS))
    if r < 0.65:
        return ('class', rng.choice(CLASSES))
    if r < 0.8:
        return gen_attr(rng, ns)
    if r < 0.85:
        return ('pc', rng.choice(PCLASSES))
    if r < 0.95:
        return ('func', rng.choice([1, 1, 1, 2]), rng.choice(FUNCS), list(rng.choice(ANB)))
    return rng.choice([('pe2', rng.choice(PELEMS)), ('pe1', rng.choice(LEGACY))])


def gen_compound(rng, ns, depth_bias):
    typ = gen_type(rng, ns) if rng.random() < 0.6 else None
    n = rng.choice([0, 0, 1, 1, 1, 2, 2, 3, 4, depth_bias])
    simples = [gen_simple(rng, ns) for _ in range(n)]
    pe = gen_pe(rng) if rng.random() < 0.2 else None
    if typ is None and not simples and pe is None:
        simples = [gen_simple(rng, ns)]
    return {'type': typ, 'simples': simples, 'pe': pe}


def gen_selector(rng, ns, max_compounds=4):
    k = rng.choice([1, 1, 1, 2, 2, 3, max_compounds])
    sel = [gen_compound(rng, ns, rng.randint(0, 6))]
    for _ in range(k - 1):
        sel.append(rng.choice([' ', ' ', '>', '+', '~']))
        sel.append(gen_compound(rng, ns, rng.randint(0, 6)))
    return sel


# --------------------------------------------------------------------------------------------------
# what the generator knows by construction
def count_simple(s):
    """(b, c, d) of one simple selector / type selector / pseudo-element / negation"""
    k = s[0]
    if k == 'type':
        return (0, 0, 0 if s[2] == '*' else 1)
    if k == 'id':
        return (1, 0, 0)
    if k in ('class', 'attr'):
        return (0, 1, 0)
    if k == 'pc':
        return (0, 0, 0)
    if k in ('pe1', 'pe2'):
        return (0, 0, 1)
    if k == 'func':
        return (0, 0, 1 if s[1] == 2 else 0)
    if k == 'not':
        return count_simple(s[1])
    raise ValueError(k)


def expected_specificity(sel):
    b = c = d = 0
    for part in sel:
        if isinstance(part, str):
            continue
        items = ([part['type']] if part['type'] else []) + part['simples'] + ([part['pe']] if part['pe'] else [])
        for s in items:
            x = count_simple(s)
            b, c, d = b + x[0], c + x[1], d + x[2]
    return (0, b, c, d)


def unesc(name):
    """value of an identifier after removing simple (non-hex) escapes -- for comparing names only"""
    out, i = [], 0
    while i < len(name):
        if name[i] == '\\' and i + 1 < len(name):
            out.append(name[i + 1])
            i += 2
        else:
            out.append(name[i])
            i += 1
    return ''.join(out)


def norm_name(name):
    """what is stored for a pseudo name: lower case; a backslash goes only before a character that may stand
    unescaped anywhere in an identifier (letters g-z, `_`, non-ASCII) -- written independently of selector.py"""
    out, i = [], 0
    while i < len(name):
        ch = name[i]
        if ch == '\\' and i + 1 < len(name):
            nx = name[i + 1]
            if ('g' <= nx.lower() <= 'z' and nx.isascii()) or nx == '_' or ord(nx) >= 128:
                out.append(nx)
            else:
                out.append(ch + nx)
            i += 2
        else:
            out.append(ch)
            i += 1
    return ''.join(out).lower()


def resolve(prefix, ns, attribute=False):
    if attribute and not prefix:
        return 'PLAIN'
    if prefix is None:
        return ns.get('', None)
    if prefix == '*':
        return 'ANY'
    if prefix == '':
        return ''
    return ns[prefix]


def expected_projection(sel, ns):
    """the sequence of simple selectors and combinators the selector denotes, as canonical tuples"""
    out = []

    def simple(s, neg=False):
        k = s[0]
        if k == 'type':
            out.append(('type', resolve(s[1], ns), s[2]))
        elif k == 'id':
            out.append(('id', '#' + s[1]))
        elif k == 'class':
            out.append(('class', '.' + s[1]))
        elif k == 'attr':
            u = resolve(s[1], ns, attribute=True)
            out.append(('attr', u, s[2], s[3], None if s[4] is None else s[4][1]))
        elif k == 'pc':
            out.append(('pseudo', ':' + norm_name(s[1])))
        elif k == 'pe2':
            out.append(('pseudo', '::' + norm_name(s[1])))
        elif k == 'pe1':
            out.append(('pseudo', ':' + norm_name(s[1])))
        elif k == 'func':
            out.append(('func', ':' * s[1] + norm_name(s[2]) + '(', ''.join(canon_atom(a) for a in s[3])))
        elif k == 'not':
            out.append(('not(',))
            simple(s[1], True)
            out.append((')',))

    for part in sel:
        if isinstance(part, str):
            out.append(('comb', part))
            continue
        if part['type']:
            simple(part['type'])
        for s in part['simples']:
            simple(s)
        if part['pe']:
            simple(part['pe'])
    return out


def canon_atom(a):
    if a[:1] in '"\'':
        return '"' + a[1:-1] + '"'
    return a


# --------------------------------------------------------------------------------------------------
# rendering with spelling choices
class Spelling:
    """independent spelling choices; p_* are probabilities"""

    def __init__(self, rng, ws=0.3, comments=0.1, case=0.3, escapes=0.1, minimal=False):
        self.rng, self.p_ws, self.p_c, self.p_case, self.p_esc, self.minimal = rng, ws, comments, case, escapes, minimal

    def ws(self, force=False):
        if self.minimal:
            return ' ' if force else ''
        if force or self.rng.random() < self.p_ws:
            return self.rng.choice(WS)
        return ''

    def cm(self):
        if not self.minimal and self.rng.random() < self.p_c:
            return ''.join(self.rng.choice(COMMENTS) for _ in range(self.rng.choice([1, 1, 2])))
        return ''

    def fill(self):
        """white space and comments where white space is not significant (inside [ ] and ( ))"""
        if self.minimal:
            return ''
        s = ''
        for _ in range(self.rng.choice([0, 0, 0, 1, 1, 2])):
            s += self.rng.choice(WS) if self.rng.random() < 0.7 else self.rng.choice(COMMENTS)
        return s

    def kw(self, name):
        """a case-insensitive name: random case, occasionally a backslash before a non-hex letter"""
        if self.minimal:
            return name
        out = []
        for ch in name:
            if ch.isascii() and ch.isalpha() and self.rng.random() < self.p_case:
                ch = ch.swapcase()
            if ch.isascii() and ch.isalpha() and ch.lower() not in 'abcdef' and self.rng.random() < self.p_esc:
                ch = '\\' + ch
            out.append(ch)
        return ''.join(out)

    def string(self, content):
        if self.minimal:
            return '"' + content.replace('"', '\\"') + '"'
        q = self.rng.choice('"\'')
        return q + content.replace(q, '\\' + q) + q


def hx(s):
    return '.'.join('%X' % ord(c) for c in s) if s else '-'


class Builder:
    """renders a selector AST under a Spelling and, in parallel, writes the *written selector* (structure +
    spelling, `Sel` of lean/CssVerif/Model/SelSpec.lean) in the wire format of the driver's `spec` request.
    White-space/comment runs and functional arguments are cut into tokens by the real tokenizer (`tokenize`)."""

    def __init__(self, sp, tokenize):
        self.sp, self.tokenize = sp, tokenize

    def fills(self, text):
        """wire words for a run of white space and comments"""
        toks = self.tokenize(text) if text else []
        out = ['%d' % len(toks)]
        for t in toks:
            if t[0] not in ('S', 'COMMENT'):
                raise ValueError('not a filler: %r' % (t,))
            out.append(('w' if t[0] == 'S' else 'c') + hx(t[1]))
        return out

    def prefix(self, prefix):
        if prefix is None:
            return '', ['pn']
        if prefix == '*':
            return '*|', ['pa']
        if prefix == '':
            return '|', ['pe']
        return prefix + '|', ['pq' + hx(prefix)]

    def typesel(self, s):
        t, w = self.prefix(s[1])
        return t + s[2], w + (['u'] if s[2] == '*' else ['n' + hx(s[2])])

    def attr(self, s):
        sp = self.sp
        f1, f2 = sp.fill(), sp.fill()
        pt, pw = self.prefix(s[1])
        text = '[' + f1 + pt + s[2] + f2
        w = self.fills(f1) + pw + ['n' + hx(s[2])] + self.fills(f2)
        if s[3] is None:
            w.append('o-')
        else:
            f3, f4 = sp.fill(), sp.fill()
            if s[4][0] == 'ident':
                vt, vw = s[4][1], 'vi' + hx(s[4][1])
            else:
                vt = sp.string(s[4][1])
                vw = 'vs' + hx(vt)
            text += s[3] + f3 + vt + f4
            w += ['o' + {'=': 'eq', '~=': 'inc', '|=': 'dash', '^=': 'pre', '$=': 'suf', '*=': 'sub'}[s[3]]]
            w += self.fills(f3) + [vw] + self.fills(f4)
        return text + ']', w

    def args(self, atoms):
        sp = self.sp
        t = sp.fill()
        for i, a in enumerate(atoms):
            if i:
                prev = atoms[i - 1]
                t += sp.ws(force=(prev not in '+-' and a not in '+-'))
                if not sp.minimal and sp.rng.random() < sp.p_c / 2:
                    t += sp.rng.choice(COMMENTS)
            if a[:1] in '"\'':
                a = sp.string(a[1:-1])
            t += a
        t += sp.fill()
        toks = self.tokenize(t)
        w = ['%d' % len(toks)]
        for typ, val in ((x[0], x[1]) for x in toks):
            if typ == 'CHAR' and val in '+-':
                w.append('a' + val)
            else:
                w.append({'NUMBER': 'an', 'DIMENSION': 'ad', 'STRING': 'as', 'IDENT': 'ai', 'S': 'aw', 'COMMENT': 'ac'}[typ]
                         + hx(val))
        return t, w

    def simple(self, s, neg=False):
        sp = self.sp
        k = s[0]
        if k == 'type':
            t, w = self.typesel(s)
            return t, ['T'] + w
        if k == 'id':
            return '#' + s[1], ['I' + hx('#' + s[1])]
        if k == 'class':
            return '.' + s[1], ['C' + hx(s[1])]
        if k == 'attr':
            t, w = self.attr(s)
            return t, ['A'] + w
        if k in ('pc', 'pe1'):
            n = sp.kw(s[1])
            return ':' + n, ['P0' + hx(n)]
        if k == 'pe2':
            n = sp.kw(s[1])
            return '::' + n, ['P1' + hx(n)]
        if k == 'func':
            n = sp.kw(s[2]) + '('
            at, aw = self.args(s[3])
            return ':' * s[1] + n + at + ')', ['F%d' % (s[1] - 1) + hx(n)] + aw
        if k == 'not':
            n = sp.kw('not') + '('
            f1, f2 = sp.fill(), sp.fill()
            at, aw = self.simple(s[1], neg=True)
            return ':' + n + f1 + at + f2 + ')', ['N' + hx(n)] + self.fills(f1) + aw + self.fills(f2)
        raise ValueError(k)

    def compound(self, c):
        sp = self.sp
        text, w = '', []
        if c['type']:
            t, tw = self.typesel(c['type'])
            text += t
            w += ['h'] + tw
        else:
            w += ['h-']
        parts = c['simples'] + ([c['pe']] if c['pe'] else [])
        w.append('%d' % len(parts))
        first = not c['type']
        for s in parts:
            cm = '' if first else sp.cm()
            first = False
            st, sw = self.simple(s)
            text += cm + st
            w += self.fills(cm) + sw
        return text, w

    def selector(self, sel, edges=True):
        sp = self.sp
        lead = (sp.ws() + sp.cm()) if edges else ''
        text, w = lead, self.fills(lead)
        ct, cw = self.compound(sel[0])
        text += ct
        w += cw
        w.append('%d' % ((len(sel) - 1) // 2))
        for i in range(1, len(sel), 2):
            comb = sel[i]
            if comb == ' ':
                pre = sp.cm() + sp.ws(force=True) + sp.cm()
                text += pre
                w += self.fills(pre) + ['g-']
            else:
                pre, post = sp.cm() + sp.ws(), sp.ws() + sp.cm()
                text += pre + comb + post
                w += self.fills(pre) + ['g' + comb] + self.fills(post)
            ct, cw = self.compound(sel[i + 1])
            text += ct
            w += cw
        trail = (sp.cm() + sp.ws()) if edges else ''
        text += trail
        w += self.fills(trail)
        return text, w


def render_selector(sel, sp, edges=True, tokenize=None):
    """text of the selector under the spelling `sp` (and, with `tokenize`, the wire words of the written selector)"""
    if tokenize is None:
        import cssutils.tokenize2
        tk = cssutils.tokenize2.Tokenizer()
        tokenize = lambda t: [(x[0], x[1]) for x in tk.tokenize(t)]      # noqa: E731
        return Builder(sp, tokenize).selector(sel, edges)[0]
    return Builder(sp, tokenize).selector(sel, edges)


# --------------------------------------------------------------------------------------------------
# canonical projection of an implementation `seq` (the oracle's view)
def project_seq(seq, comment_cls):
    """[(value, type)] of a cssutils Seq -> the canonical tuples of expected_projection.
    Comments are dropped; inside a functional pseudo the argument is the concatenation of the values with
    white space dropped (an+b may be written with or without it); a descendant combinator directly before
    another combinator or at the very end (only comments between / after) is white space, not a combinator."""
    items = [(it.value, it.type) for it in seq if not isinstance(it.value, comment_cls)]
    out, i = [], 0
    while i < len(items):
        v, t = items[i]
        if t in ('type-selector', 'negation-type-selector', 'universal'):
            out.append(('type', 'ANY' if v[0] == -1 else v[0], v[1]))
        elif t == 'id':
            out.append(('id', v))
        elif t == 'class':
            out.append(('class', v))
        elif t == 'attribute-start':
            j = i + 1
            name = op = val = None
            u = 'PLAIN'
            while j < len(items) and items[j][1] != 'attribute-end':
                vv, tt = items[j]
                if tt == 'attribute-selector':
                    if isinstance(vv, tuple):
                        u, name = ('ANY' if vv[0] == -1 else vv[0]), vv[1]
                    else:
                        name = vv
                elif tt in ('equals', 'includes', 'dashmatch', 'prefixmatch', 'suffixmatch', 'substringmatch'):
                    op = vv
                elif tt in ('attribute-value', 'STRING'):
                    val = vv
                else:
                    out.append(('?', vv, tt))
                j += 1
            out.append(('attr', u, name, op, val))
            i = j
        elif t in ('pseudo-class', 'pseudo-element'):
            if isinstance(v, str) and v.endswith('('):
                j = i + 1
                arg = ''
                while j < len(items) and items[j][1] != 'function-end':
                    vv, tt = items[j]
                    if tt == 'S':
                        pass
                    elif tt == 'STRING':
                        arg += '"' + vv + '"'
                    else:
                        arg += vv if isinstance(vv, str) else repr(vv)
                    j += 1
                out.append(('func', v, arg))
                i = j
            else:
                out.append(('pseudo', v))
        elif t == 'negation-start':
            out.append(('not(',))
        elif t == 'negation-end':
            out.append((')',))
        elif t == 'descendant':
            if i + 1 == len(items) or items[i + 1][1] in ('descendant', 'child', 'adjacent-sibling', 'following-sibling'):
                pass        # white space before another combinator or at the end (only comments follow)
            else:
                out.append(('comb', ' '))
        elif t in ('child', 'adjacent-sibling', 'following-sibling'):
            out.append(('comb', v))
        else:
            out.append(('?', v if isinstance(v, str) else repr(v), t))
        i += 1
    return out


# --------------------------------------------------------------------------------------------------
# token soups
FRAGMENTS = [
    'a', 'div', '*', '|', 'p|', '*|', '.c', '#i', '#1a', ':hover', '::after', ':before', ':NOT(', ':not(', ':nth-child(',
    '::x-fn(', ':lang(', '[', ']', '(', ')', '=', '~=', '|=', '^=', '$=', '*=', '"s"', "'t'", '""', '2n', '+1', '3', '-n',
    '+', '-', '>', '~', ',', ' ', '\n', '/*c*/', '/**/', '@media', '50%', 'url(x)', '!', ';', '{', '}', ':', '.', '::',
    'odd', 'even', 'e\\:f', 'U+1F', '<!--', '-->', 'not', 'É', ':FIRST-LINE', ':first-letter', '.5', '1.5em', '\\2a', '&',
    'p|a', 'q|*', '*|*', '|b', '[a]', '[p|a=b]', ':not(a)', 'a b', 'a>b', ':nth-child(2n + 1)',
]

SYNTHETIC = [
    ('CHAR', ''), ('CHAR', '+-'), ('CHAR', '+>'), ('CHAR', '>~'), ('CHAR', '+>~'), ('STRING', ''), ('STRING', '"'),
    ('universal', 'a|b|*'), ('universal', 'a|*'), ('universal', 'x'), ('namespace_prefix', 'p|'), ('namespace_prefix', ''),
    ('class', '.x'), ('class', ' '), ('class', '['), ('pseudo-class', ':x('), ('pseudo-class', '['), ('pseudo-class', ' '),
    ('pseudo-element', '::y'), ('pseudo-element', ' '), ('negation', ':not('), ('negation', '['), ('negation', ' '),
    ('HASH', ' '), ('HASH', '['), ('IDENT', ' '), ('IDENT', '['), ('EOF', ''), ('PERCENTAGE', '5%'), ('FUNCTION', 'f('),
    ('IDENT', 'a|b'), ('CHAR', '*'), ('CHAR', '|'), ('S', ' '), ('COMMENT', '/*x*/'), ('NUMBER', '1'), ('DIMENSION', '2n'),
    ('CHAR', ':'), ('CHAR', '.'), ('CHAR', '['), ('CHAR', ']'), ('CHAR', '('), ('CHAR', ')'), ('CHAR', '='), ('CHAR', '+'),
    ('CHAR', '-'), ('CHAR', '>'), ('IDENT', 'a'), ('STRING', '" "'), ('STRING', '"["'), ('INCLUDES', '~='), ('ATKEYWORD', '@x'),
    ('IDENT', 'p'), ('FUNCTION', 'NOT('), ('FUNCTION', 'n\\ot('), ('CHAR', ','), ('CHAR', '{'), ('CHAR', ';'),
]


def soup(rng, tokenize, ns):
    """a token list: fragments tokenized by the real tokenizer and concatenated at the token level"""
    n = rng.choice([1, 2, 3, 4, 5, 6, 8, 10, 14])
    toks = []
    for _ in range(n):
        f = rng.choice(FRAGMENTS)
        toks += [(t[0], t[1], 1, 1) for t in tokenize(f)]
    return toks


def mutate(rng, toks, tokenize):
    toks = list(toks)
    for _ in range(rng.choice([1, 1, 1, 2, 3])):
        r = rng.random()
        if r < 0.3 and toks:
            del toks[rng.randrange(len(toks))]
        elif r < 0.5 and toks:
            i = rng.randrange(len(toks))
            toks.insert(i, toks[i])
        elif r < 0.65 and len(toks) > 1:
            i = rng.randrange(len(toks) - 1)
            toks[i], toks[i + 1] = toks[i + 1], toks[i]
        elif r < 0.9:
            f = rng.choice(FRAGMENTS)
            i = rng.randrange(len(toks) + 1)
            toks[i:i] = [(t[0], t[1], 1, 1) for t in tokenize(f)]
        elif toks:
            k = rng.randrange(len(toks))
            toks = toks[:k]
    return toks


def synthetic(rng):
    n = rng.choice([1, 2, 2, 3, 3, 4, 5, 6])
    return [(t, v, 1, 1) for t, v in (rng.choice(SYNTHETIC) for _ in range(n))]
