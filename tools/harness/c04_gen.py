"""generators and implementation-side judges for C04 (no model knowledge in here)"""
import re

IDENTS = ['a', 'b', 'div', 'p', 'x', 'foo', 'h1', 'li', 'em', 'td']
DECLS = [
    ('color', 'red'), ('color', '#fff'), ('color', 'rgb(1, 2, 3)'), ('margin', '0 auto'), ('width', '10px'),
    ('background', 'url(x.png) no-repeat'), ('font-family', '"A B", serif'), ('content', '"x;y}"'),
    ('content', "'{(['"), ('top', 'calc(1px + 2px)'), ('z-index', '1'), ('left', '-1.5em'), ('width', '50%'),
    ('font', 'bold 12px/1.2 Arial, sans-serif'), ('background-image', 'url("a;b.png")'), ('quotes', '"[" "]"'),
    ('COLOR', 'Blue'), ('c\\olor', 'green'), ('border', '1px solid #000'), ('x-unknown', 'f(g(1, 2), [3])'),
    ('top', '0'), ('clip', 'rect(1px, 2px, 3px, 4px)'), ('padding', '1px 2px 3px 4px'), ('display', 'none'),
]
PRIOS = ['', '', '', ' !important', '!important', ' ! important', ' !IMPORTANT', ' !/**/important']
DELIMS = set('{}[]();:,!')
REGION_TYPES = {'IDENT', 'HASH', 'DIMENSION', 'FUNCTION', 'UNICODE-RANGE', 'ATKEYWORD', 'CHARSET_SYM', 'IMPORT_SYM',
                'NAMESPACE_SYM', 'PAGE_SYM', 'MEDIA_SYM', 'FONT_FACE_SYM', 'VARIABLES_SYM'}


def escaped_delimiter_token(toks):
    """region of known finding C04-escaped-delimiter-ident: a non-CHAR token (identifier-like) whose unescaped
    value contains a delimiter character (the '(' that ends a FUNCTION token does not count)"""
    for t in toks:
        if t[0] in REGION_TYPES:
            v = t[1][:-1] if t[0] == 'FUNCTION' and t[1].endswith('(') else t[1]
            if DELIMS & set(v):
                return t
    return None


SELECTORS = ['a', '.c', '#i', 'a b', 'a>b', 'a > b', 'a[href]', 'a[href="x;}"]', 'a:hover', 'a::before', '*',
             'a:not(.b)', 'a, b', 'h1 + p', 'li:nth-child(2n+1)', 'a.b#c', 'A', 'div p em', 'a[x|="{"]',
             'td ~ td']
MEDIA = ['screen', 'print', 'all', 'screen, print', 'screen and (min-width: 100px)', 'only screen',
         'not print', 'print and (orientation: landscape)', 'SCREEN']
WS = ['', ' ', '\n', '  ', '\t', ' /*c*/ ', '\n    ', '/**/']
UNKNOWN_AT = ['@foo bar;', '@foo{a{b:c}}', '@foo (x;y) [z];', '@-x-y "s;}";', '@foo{}', '@three-dee{@bg{x:y}z:1}',
              '@foo url(x) , 1px;', '@FOO bar {a:b;c:d}', '@foo;']


def ws(rng, must=False):
    w = rng.choice(WS)
    if must and not w.strip(' \n\t'):
        w = w or ' '
    if must and not w:
        w = ' '
    return w


class Piece:
    """a generated construct with the text span it occupies after rendering"""
    def __init__(self, kind):
        self.kind = kind
        self.start = self.end = None


class Decl(Piece):
    def __init__(self, text):
        super().__init__('decl')
        self.text = text


class Stmt(Piece):
    def __init__(self, kind, head=None, decls=None, inner=None, text=None, gaps=None):
        super().__init__(kind)
        self.head = head          # selector / media query / whole text for simple statements
        self.decls = decls or []  # style
        self.inner = inner or []  # media
        self.text = text
        self.gaps = gaps or {}
        self.block_start = None   # offset just after "{"


class Sheet:
    def __init__(self, stmts, gaps):
        self.stmts = stmts
        self.gaps = gaps
        self._cache = None

    def render(self):
        """-> (text, injection points [(offset, where)])"""
        if self._cache:
            return self._cache
        out = []
        pos = [0]
        points = []

        def emit(s):
            out.append(s)
            pos[0] += len(s)

        def stmt_list(stmts, gaps, where, allow_first):
            body_seen = False
            for i, st in enumerate(stmts):
                if i > 0 or allow_first:
                    points.append((pos[0], where if not body_seen else where + '+body'))
                emit(gaps[i])
                one(st)
                if st.kind in ('style', 'media', 'page', 'fontface'):
                    body_seen = True
            points.append((pos[0], where if not body_seen else where + '+body'))
            emit(gaps[len(stmts)])

        def one(st):
            st.start = pos[0]
            if st.kind == 'style':
                emit(st.head)
                emit(st.gaps['pre'])
                emit('{')
                st.block_start = pos[0]
                points.append((pos[0], 'decl'))
                for j, d in enumerate(st.decls):
                    emit(st.gaps['d'][j])
                    d.start = pos[0]
                    emit(d.text)
                    d.end = pos[0]
                    last = j == len(st.decls) - 1
                    if not last or st.gaps['semi']:
                        emit(st.gaps['s'][j] + ';')
                        points.append((pos[0], 'decl'))
                emit(st.gaps['post'])
                emit('}')
            elif st.kind == 'media':
                emit(st.head)
                emit('{')
                st.block_start = pos[0]
                stmt_list(st.inner, st.gaps['inner'], 'stmt-media', True)
                emit('}')
            else:
                emit(st.text)
            st.end = pos[0]

        first_is_charset = bool(self.stmts) and self.stmts[0].kind == 'charset'
        stmt_list(self.stmts, self.gaps, 'stmt', not first_is_charset)
        self._cache = (''.join(out), points)
        return self._cache


def gen_decl(rng):
    n, v = rng.choice(DECLS)
    return Decl(n + rng.choice(['', ' ']) + ':' + rng.choice(['', ' ', '  ', '/**/']) + v + rng.choice(PRIOS))


def gen_style(rng, selectors=SELECTORS):
    nd = rng.choice([0, 1, 1, 2, 2, 3, 4])
    decls = [gen_decl(rng) for _ in range(nd)]
    gaps = {'pre': rng.choice(['', ' ', '\n']), 'post': rng.choice(['', ' ', '\n']),
            'd': [rng.choice(['', ' ', '\n    ', ' /*d*/ ']) for _ in decls],
            's': [rng.choice(['', '', ' ']) for _ in decls], 'semi': rng.random() < 0.6}
    return Stmt('style', head=rng.choice(selectors), decls=decls, gaps=gaps)


def at_kw(rng, kw):
    r = rng.random()
    if r < 0.8:
        return kw
    if r < 0.9:
        return kw.upper()
    return kw[0] + kw[1].upper() + kw[2:]


def gen_media(rng, depth=0):
    n = rng.choice([0, 1, 2, 3])
    inner = []
    for _ in range(n):
        r = rng.random()
        if r < 0.7:
            inner.append(gen_style(rng))
        elif r < 0.8 and depth < 2:
            inner.append(gen_media(rng, depth + 1))
        elif r < 0.88:
            inner.append(Stmt('comment', text='/* m%d */' % rng.randint(0, 99)))
        elif r < 0.94:
            inner.append(Stmt('page', text='@page :left{margin:1cm}'))
        else:
            inner.append(Stmt('unknown', text=rng.choice(UNKNOWN_AT)))
    kw = at_kw(rng, '@media')
    head = kw + ws(rng, True) + rng.choice(MEDIA) + rng.choice(['', ' ', '\n'])
    gaps = {'inner': [rng.choice(['', ' ', '\n  ']) for _ in range(n + 1)]}
    return Stmt('media', head=head, inner=inner, gaps=gaps)


def gen_deep_media(rng, levels):
    """an @media rule with `levels` more @media rules nested inside it (one chain), styles around them"""
    inner = [gen_style(rng) for _ in range(rng.choice([0, 1, 1, 2]))]
    inner.append(gen_deep_media(rng, levels - 1) if levels > 0 else gen_style(rng))
    if rng.random() < 0.5:
        inner.append(rng.choice([gen_style(rng), Stmt('comment', text='/* t */'),
                                 Stmt('unknown', text=rng.choice(UNKNOWN_AT))]))
    head = at_kw(rng, '@media') + ws(rng, True) + rng.choice(MEDIA) + rng.choice(['', ' '])
    gaps = {'inner': [rng.choice(['', ' ', '\n  ']) for _ in range(len(inner) + 1)]}
    return Stmt('media', head=head, inner=inner, gaps=gaps)


def gen_deep_sheet(rng):
    """truncation at depth: a chain of 3-6 nested @media rules between two style rules"""
    stmts = [gen_style(rng), gen_deep_media(rng, rng.choice([2, 3, 4, 5])), gen_style(rng)]
    return Sheet(stmts, [rng.choice(['', ' ', '\n']) for _ in range(4)])


def gen_sheet(rng):
    stmts = []
    if rng.random() < 0.25:
        stmts.append(Stmt('charset', text='@charset "utf-8";'))
    for _ in range(rng.choice([0, 0, 1, 2])):
        r = rng.random()
        if r < 0.6:
            stmts.append(Stmt('import', text=at_kw(rng, '@import') + rng.choice(
                [' "i%d.css";', ' url(i%d.css);', ' url("i%d.css") screen;', '"i%d.css" print, tv;']) % rng.randint(0, 9)))
        elif r < 0.8:
            stmts.append(Stmt('comment', text='/* i%d */' % rng.randint(0, 99)))
        else:
            stmts.append(Stmt('unknown', text=rng.choice(UNKNOWN_AT)))
    sels = SELECTORS
    r = rng.random()
    if r < 0.25:
        stmts.append(Stmt('namespace', text=at_kw(rng, '@namespace') + ' p "http://u/%d";' % rng.randint(0, 9)))
        sels = SELECTORS + ['p|a', 'p|*', '*|a', 'a[p|x]']
        if rng.random() < 0.4:
            stmts.append(Stmt('namespace', text='@namespace "http://d/";'))
    elif r < 0.35:
        stmts.append(Stmt('variables', text='@variables { c1: red; c2: 1px }'))
    for _ in range(rng.choice([1, 2, 3, 4, 5])):
        r = rng.random()
        if r < 0.55:
            stmts.append(gen_style(rng, sels))
        elif r < 0.75:
            stmts.append(gen_media(rng))
        elif r < 0.82:
            stmts.append(Stmt('comment', text='/* c%d */' % rng.randint(0, 99)))
        elif r < 0.88:
            stmts.append(Stmt('page', text=at_kw(rng, '@page') + rng.choice(
                [' :first{margin:1in}', '{margin:1cm;@top-left{content:"x"}}', ' :left { margin: 2cm }'])))
        elif r < 0.93:
            stmts.append(Stmt('fontface', text=at_kw(rng, '@font-face') + '{font-family:X;src:url(x.woff)}'))
        else:
            stmts.append(Stmt('unknown', text=rng.choice(UNKNOWN_AT)))
    gaps = [rng.choice(['', ' ', '\n', '\n\n', ' <!-- ', ' --> ']) for _ in range(len(stmts) + 1)]
    if stmts and stmts[0].kind == 'charset':
        gaps[0] = ''
    return Sheet(stmts, gaps)


# -- balanced garbage ------------------------------------------------------------------------------------
ATOMS = ['x', 'foo', 'red', '1', '10px', '50%', '#f00', ':', ',', '!', '"s;}"', "'{'", '/*;*/', '.', '*', '=', '+',
         '>', '~', '|', '$', '%', '^', '&', 'url(u)', 'U+20', '-->', '<!--', 'x\\41 y', 'a\\z', '@kw', '1e3', '-',
         'important', '#']      # no bare '/': glued to '*' it would open a comment (comments must be balanced too)
# identifiers whose unescaped value contains a delimiter: region of known finding C04-escaped-delimiter-ident
ESCAPED_DELIMS = ['\\3b x', 'a\\7d', '\\7b ', '\\28 ', 'x\\5d', '\\3a', '#\\7b', '1\\7d ']


def balanced(rng, depth=0, semis=False, blocks=True, least=0):
    """balanced token soup; `;` only inside brackets unless semis; `{}` groups at this level only if blocks"""
    n = max(least, rng.choice([0, 1, 1, 2, 3]))
    parts = []
    for _ in range(n):
        r = rng.random()
        if r < 0.6 or depth >= 3:
            a = rng.choice(ATOMS + ([';'] if (depth > 0 or semis) else []))
            if rng.random() < 0.03:
                a = rng.choice(ESCAPED_DELIMS)
            parts.append(a)
        elif r < 0.7:
            parts.append('(' + balanced(rng, depth + 1) + ')')
        elif r < 0.8:
            parts.append('[' + balanced(rng, depth + 1) + ']')
        elif r < 0.9 and (blocks or depth > 0):
            parts.append('{' + balanced(rng, depth + 1) + '}')
        else:
            parts.append(rng.choice(['f(', 'rgb(', 'calc(']) + balanced(rng, depth + 1) + ')')
    return rng.choice(['', ' ']).join(parts) if rng.random() < 0.3 else ' '.join(parts)


class Garbage:
    def __init__(self, text, kind, invalid=False):
        self.text = text
        self.kind = kind
        # invalid by construction (CSS 2.1 4.1.7/4.1.8: a declaration starts with an identifier, a selector
        # cannot start with these characters): the judge then does not ask the implementation whether the
        # garbage is a construct, and expects nothing of it in the DOM
        self.invalid = invalid


BAD_SELECTORS = ['$x', 'a!b', '..x', 'a:::b', 'a[=]', '#', '1a', 'a,,b', '(x)', 'a b !', '%', 'a >', '> > a',
                 'a[', 'a]', ':', 'a:not(', 'a{', 'q|a', '[x](y)', '"s"', 'a;b']
BAD_SELECTORS_BALANCED = [s for s in BAD_SELECTORS if s not in ('a[', 'a]', 'a:not(', 'a{', 'a;b')]
BAD_DECLS = ['foo {z} color: blue', 'foo [z] top: 1px !important', 'x y {a:b} color: blue !important', 'top (z) left: 0',
             'color red', 'color:', ': red', '(x): 1', '[x]:1', '{a:b}', 'x(y): 1', '*zoom: 1', 'color: red ! x y',
             '!important', 'color: red green (1 ; 2)', '= 1', 'color; red'[:5], '1px: 2', '#a: b', '"s": 1',
             'color: {x}', 'color: [1;2]', 'a b: c', 'color:: red', 'color: red !important !important',
             '(x) ! color: red', '*zoom ! color: red', ', ,', 'color @x: red', 'color: red !important @x',
             'url(x): 1', 'color:red !', '-: 1', 'f(', ]
BAD_DECLS = [d for d in BAD_DECLS if d != 'f(']
# no colon / no value / no name / not starting with an identifier / two names: never a declaration
INVALID_DECLS = {'foo {z} color: blue', 'foo [z] top: 1px !important', 'x y {a:b} color: blue !important',
                 'top (z) left: 0', 'color red', 'color:', ': red', '(x): 1', '[x]:1', '{a:b}', '*zoom: 1', '!important', '= 1',
                 '1px: 2', '#a: b', '"s": 1', 'a b: c', '(x) ! color: red', '*zoom ! color: red', ', ,', 'color'}
INVALID_SELECTORS = {'$x', 'a!b', '..x', '#', '1a', '(x)', '%', ':', '"s"', 'a b !'}
MISPLACED = ['@import "late.css";', '@charset "latin-1";', '@namespace q "http://late/";', '@IMPORT url(l.css);',
             # honoured by mistake these would change how later selectors resolve: a default namespace, and a
             # prefix the grammar sheets declare (p) bound to another URI
             '@namespace "http://late-default/";', '@namespace p "http://late-p/";', '@NAMESPACE p url(http://late-p2/);',
             '@namespace url("http://late-default2/");']


def ident_garbage(rng):
    """a malformed declaration that STARTS WITH AN IDENTIFIER: the identifier is not followed by ':' (so by CSS 2.1
    4.1.8 it is no declaration, by construction), then nested {} [] () blocks at level 0, and declaration-looking
    text before its ';' — everything up to that ';' must be dropped as a whole, nothing of it may leak in"""
    name = rng.choice(['foo', 'color', 'x', 'top', 'w\\idth', 'COLOR'])
    second = rng.choice(['{' + balanced(rng, 1) + '}', '[' + balanced(rng, 1) + ']', '(' + balanced(rng, 1) + ')',
                         'f(' + balanced(rng, 1) + ')', 'bar', '1px', '"s"', '{z}', '{a:b;c:d}', '*', '='])
    parts = [name, second]
    for _ in range(rng.choice([0, 0, 1, 2])):
        parts.append(rng.choice(['{' + balanced(rng, 1) + '}', '[' + balanced(rng, 1) + ']', '(' + balanced(rng, 1) + ')',
                                 rng.choice(ATOMS)]))
    for _ in range(rng.choice([0, 1, 1, 2])):
        n, v = rng.choice(DECLS)
        parts.append(n + rng.choice(['', ' ']) + ':' + rng.choice(['', ' ']) + v + rng.choice(PRIOS))
    return Garbage(' ' + ' '.join(parts) + rng.choice(['', ' ']) + ';', 'decl:ident-blocks', invalid=True)


# -- selectors from the selector grammar's own pieces (valid or not: decided on the rule alone) -----------------
# every kind of simple-selector piece and every token class selector.py has an "Unexpected ..." branch for
SEL_PIECES = ['a', '*', '.c', '#i', '[x]', '[x=y]', '[x~="s t"]', '[x|=y]', '[p|x^=y]', ':hover', '::before',
              ':not(.n)', ':not(b)', ':nth-child(2n+1)', ':lang(fr)', 'p|a', '*|a', '|a', 'p|*', 'q|a', 'p|', 'a.b',
              '2n', '+1', '1', '50%', '=', '~=', '|=', '^=', '"s"', '@x', '!', '$', ':', '::', ',', '>', '+', '~',
              '/*c*/', 'U+20', 'f(x)']
# contexts: top level (after nothing / a type selector / a combinator), inside :not( ), [ ], a functional pseudo,
# each also followed by further tokens of the same selector
SEL_WRAPPERS = ['%s', 'x %s', 'x%s', 'x > %s', 'x:not(%s)', 'x[%s]', 'x:nth-child(%s)', 'x:not(%s) y', 'x[%s] y',
                'x[y=%s]', '%s, z', 'z, %s', 's|%s z']


def selector_cases():
    """every ordered pair of pieces, glued and spaced, in every context (about 48 k selectors, all bracket-balanced)"""
    for w in SEL_WRAPPERS:
        for a in SEL_PIECES:
            for b in SEL_PIECES:
                for j in ('', ' '):
                    yield w % (a + j + b)
        for a in SEL_PIECES:
            yield w % a


def grammar_selector(rng):
    n = rng.choice([1, 2, 2, 3])
    inner = rng.choice(['', ' ']).join(rng.choice(SEL_PIECES) for _ in range(n))
    if rng.random() < 0.3:
        inner = rng.choice(['x:not(%s)', 'x[%s]', ':nth-child(%s)', '[y=%s]']) % inner + rng.choice(['', ' ', '.k', ' y'])
    return rng.choice(SEL_WRAPPERS) % inner


def gen_garbage(rng, where):
    """text to insert at an injection point of kind `where`"""
    base = where.split('+')[0]
    if base == 'decl':
        r = rng.random()
        if r < 0.5:
            d = rng.choice(BAD_DECLS)
            return Garbage(rng.choice(['', ' ']) + d + rng.choice(['', ' ']) + ';', 'decl:list',
                           invalid=d in INVALID_DECLS)
        if r < 0.68:
            return ident_garbage(rng)
        if r < 0.85:
            first = rng.choice(['(', '[', '{', 'f(', ':', '!', '1', '#x', '"s"', '*', '$', 'x', 'x y', ','])
            close = {'(': ')', '[': ']', '{': '}', 'f(': ')'}.get(first, '')
            body = balanced(rng, 1) if close else ''
            text = ' ' + first + body + close + ' ' + balanced(rng, 0) + ';'
            # not starting with an identifier: no declaration
            return Garbage(text, 'decl:soup', invalid=first not in ('x', 'x y', 'f('))
        return Garbage(' ' + rng.choice(UNKNOWN_AT) + ' ', 'decl:at-rule')
    # statement level
    r = rng.random()
    if r < 0.2:
        # a rule whose selector is put together from the selector grammar's pieces: valid or invalid, the judge
        # asks the implementation on the rule alone (and a rule it raises on is judged on the damaged sheet)
        body = ';'.join(n + ':' + v for n, v in [rng.choice(DECLS) for _ in range(rng.choice([0, 1, 2]))])
        return Garbage(' ' + grammar_selector(rng) + rng.choice(['', ' ']) + '{' + body + '}' + rng.choice(['', ' ']),
                       'stmt:selector-grammar')
    if r < 0.4:
        sel = rng.choice(BAD_SELECTORS_BALANCED)
        body = ';'.join(n + ':' + v for n, v in [rng.choice(DECLS) for _ in range(rng.choice([0, 1, 2]))])
        return Garbage(' ' + sel + rng.choice(['', ' ']) + '{' + body + '}' + rng.choice(['', ' ']), 'stmt:bad-selector',
                       invalid=sel in INVALID_SELECTORS)
    if r < 0.58:
        return Garbage(' ' + rng.choice(UNKNOWN_AT) + ' ', 'stmt:unknown-at')
    if r < 0.8 and where.endswith('+body') and base == 'stmt':
        return Garbage(' ' + rng.choice(MISPLACED) + ' ', 'stmt:misplaced')
    if r < 0.9:
        # a complete statement: a prelude without top-level ';' or '{}' that does not start like an at-rule,
        # closed by a block or (cssutils ends a ruleset statement there too) a ';'
        first = rng.choice(['x', 'foo', '1', '.', '#f00', '*', '$', '(x)', '[y]', ':', ',', '!', '"s"'])
        return Garbage(' ' + first + ' ' + balanced(rng, 0, blocks=False)
                       + rng.choice([' ;', '{' + balanced(rng, 1, True) + '}']) + ' ', 'stmt:soup')
    at = rng.choice(['@foo', '@x-y', '@bar'])
    return Garbage(' ' + at + ' ' + balanced(rng, 0, blocks=False)
                   + rng.choice([';', '{' + balanced(rng, 1, True) + '}']) + ' ', 'stmt:at-soup')


NS_STMT = re.compile(r'@namespace[^;{}]*;', re.I)


def residue_of(g, where, parse_real, prelude=''):
    """what the garbage alone leaves in the DOM (the damaged construct itself), or None if the implementation
    takes the garbage for (or finds inside it) a valid construct"""
    base = where.split('+')[0]
    if g.invalid:
        return []
    if base == 'decl':
        dom = parse_real('x{' + g.text + '}')
        if isinstance(dom, tuple):
            return []            # raising on the garbage alone: judged on the damaged sheet
        if len(dom) != 1 or dom[0][0] != 'style':
            return None          # the garbage broke out of the block: not balanced for the implementation
        items = dom[0][2]
        if any(it[0] == 'decl' for it in items):
            return None
        return items
    if g.kind == 'stmt:misplaced':
        return []
    if base == 'stmt':
        dom = parse_real(prelude + g.text)
        if isinstance(dom, tuple):
            return []
        if prelude:
            dom = [r for r in dom if r[0] != 'namespace']
        if g.kind == 'stmt:selector-grammar' and all(r[0] in ('style', 'comment') for r in dom):
            return dom           # a rule the implementation accepts: the construct itself, nothing else may change
        if any(r[0] not in ('unknown', 'comment') for r in dom):
            return None
        return dom
    dom = parse_real(prelude + '@media all{' + g.text + '}')
    if isinstance(dom, tuple):
        return []
    if prelude:
        dom = [r for r in dom if r[0] != 'namespace']
    if len(dom) != 1 or dom[0][0] != 'media':
        return None
    inner = dom[0][3]
    if g.kind == 'stmt:selector-grammar' and all(r[0] in ('style', 'comment') for r in inner):
        return inner
    if any(r[0] not in ('unknown', 'comment') for r in inner):
        return None
    return inner


def _insert_eq(big, small, residue):
    """big == small with `residue` spliced in at one position"""
    if len(big) != len(small) + len(residue):
        return False
    for i in range(len(small) + 1):
        if big[:i] == small[:i] and big[i:i + len(residue)] == residue and big[i + len(residue):] == small[i:]:
            return True
    return False


def equal_apart_from(real, orig, residue):
    """real (DOM of the damaged sheet) equals orig apart from `residue` spliced into one list of the tree"""
    if real == orig and not residue:
        return True
    if _insert_eq(real, orig, residue) and residue:
        return True
    if len(real) != len(orig):
        return False
    diff = [i for i in range(len(real)) if real[i] != orig[i]]
    if len(diff) != 1:
        return False
    r, o = real[diff[0]], orig[diff[0]]
    if r[0] != o[0]:
        return False
    if r[0] == 'style' and r[1] == o[1]:
        return bool(residue) and _insert_eq(r[2], o[2], residue)
    if r[0] == 'media' and r[1] == o[1] and r[2] == o[2]:
        return equal_apart_from(r[3], o[3], residue)
    return False


# -- truncation --------------------------------------------------------------------------------------------
def token_offsets(text, toks):
    """cut points: every offset for short texts, else offsets around structural characters + a sample"""
    if len(text) <= 140:
        return list(range(len(text) + 1))
    offs = {0, len(text)}
    for i, c in enumerate(text):
        if c in '{};:,()[]"\'@!/':
            offs.update((i, i + 1))
    step = max(1, len(text) // 60)
    offs.update(range(0, len(text), step))
    return sorted(offs)


def complete_before(sh, o):
    """description of what must survive a cut at offset o (from the generator's spans)"""
    def descr(stmts):
        k = 0
        for st in stmts:
            if st.end <= o:
                k += 1
            else:
                part = None
                if st.kind == 'style' and st.block_start is not None and st.block_start <= o:
                    part = ('style', sum(1 for d in st.decls if d.end <= o), len(st.decls))
                elif st.kind == 'media' and st.block_start is not None and st.block_start <= o:
                    part = ('media', descr(st.inner))
                return (k, part, len(stmts))
        return (k, None, len(stmts))
    sh.render()
    return descr(sh.stmts)


def _decl_items(items):
    return [it for it in items if it[0] == 'decl']


def missing_complete(real, full, want):
    """None if `real` (truncated DOM) keeps what `want` describes of `full`; else a description"""
    k, part, total = want
    if len(full) != total:
        return None            # the implementation does not take every generated statement for a rule: no claim
    if real[:k] != full[:k]:
        return {'expected_first_rules': full[:k], 'got': real[:k + 1]}
    if part is None:
        return None
    if len(full) <= k:
        return None
    f = full[k]
    if len(real) <= k:
        return {'expected_rule_in_progress': f, 'got': None}
    r = real[k]
    if part[0] == 'style':
        if f[0] != 'style':
            return None
        n = part[1]
        fd = _decl_items(f[2])
        if len(fd) != part[2]:
            return None        # a generated declaration is not accepted by the implementation: no claim
        if r[0] != 'style' or r[1] != f[1]:
            return {'expected_rule_in_progress': f, 'got': r}
        if _decl_items(r[2])[:n] != fd[:n]:
            return {'expected_first_declarations': fd[:n], 'got': r}
        return None
    if part[0] == 'media':
        if f[0] != 'media':
            return None
        if r[0] != 'media' or r[1] != f[1] or r[2] != f[2]:
            return {'expected_rule_in_progress': f[:3], 'got': r}
        return missing_complete(r[3], f[3], part[1])
    return None


def missing_complete_text(real, original, cut, parse_real):
    """replay variant without the generator's spans: the rules of the full parse that also result from the
    text before the last complete top-level statement"""
    full = parse_real(original)
    if isinstance(full, tuple):
        return None
    k = 0
    while k < len(full) and k < len(real) and real[k] == full[k]:
        k += 1
    # at least every rule that the prefix cut at the previous "}" or ";" yields must be there
    j = max(original.rfind('}', 0, cut), original.rfind(';', 0, cut))
    if j < 0:
        return None
    head = parse_real(original[:j + 1])
    if isinstance(head, tuple):
        return None
    n = 0
    while n < len(head) and n < len(full) and head[n] == full[n]:
        n += 1
    if k < n - 1:
        return {'expected_first_rules': full[:n - 1], 'got': real[:n]}
    return None


# -- malformed stream -------------------------------------------------------------------------------------
SOUP = ['a', 'b', 'x', 'color', 'red', ':', ';', '{', '}', '(', ')', '[', ']', ',', '!', '!important', '"s"', "'t'",
        '"open', '/*c*/', '/*open', '@media', '@import', '@charset ', '@namespace', '@page', '@font-face',
        '@variables', '@MEDIA', '@foo', '@top-left', '@charset', '@CHARSET', '@c\\harset', '@\\63harset', 'url(x)', 'url(', 'f(', 'rgb(1,2,3)', '10px', '#fff', '.c',
        '<!--', '-->', '\\7b ', '\\3b ', '\\7d ', '\\28 ', 'a\\3b b', 'screen', 'print', 'and', '*', '>', '+', '1',
        '\n', ' ', ' ', ' ', 'p|a', '"u"', 'only']


def gen_soup(rng, short=False):
    n = rng.randint(0, 8 if short else 24)
    return ''.join(rng.choice(SOUP) + rng.choice(['', ' ', ' ']) for _ in range(n))


def mutate(rng, text):
    for _ in range(rng.choice([1, 1, 2, 3])):
        if not text:
            break
        r = rng.random()
        i = rng.randint(0, len(text))
        if r < 0.25:
            j = min(len(text), i + rng.randint(1, 4))
            text = text[:i] + text[j:]
        elif r < 0.5:
            text = text[:i] + rng.choice(SOUP) + text[i:]
        elif r < 0.65:
            j = min(len(text), i + rng.randint(1, 8))
            text = text[:j] + text[i:j] + text[j:]
        elif r < 0.8:
            text = text[:i] + rng.choice('{}()[];:!@"\'\\') + text[i:]
        elif r < 0.9:
            text = text[:i]
        else:
            text = text[:i] + rng.choice(['@media print{', '@import "x";', '@charset "x";', '@namespace p "u";',
                                          '@page{', '@font-face{', '@variables{', '@x{', '}}', '<!--']) + text[i:]
    return text


def gen_block(rng):
    parts = []
    for _ in range(rng.randint(0, 6)):
        r = rng.random()
        if r < 0.4:
            parts.append(gen_decl(rng).text + rng.choice([';', ';', ' ;', '']))
        elif r < 0.6:
            parts.append(rng.choice(BAD_DECLS) + rng.choice([';', ';', '']))
        elif r < 0.7:
            parts.append(balanced(rng, 0, True) + rng.choice([';', '']))
        elif r < 0.8:
            parts.append(rng.choice(UNKNOWN_AT))
        elif r < 0.9:
            parts.append('/*c*/')
        else:
            parts.append(gen_soup(rng, True))
    return rng.choice(['', ' ']).join(parts)
