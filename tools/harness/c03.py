"""C03 — serialise-then-parse is lossless; serialisation is a fixpoint.

model: lean/CssVerif/Model/StrCodec.lean (content codecs: unicodesub/_repl, cleanstring, helper.string / stringvalue /
uri / urivalue / normalize, the token recognisers); theorems: lean/CssVerif/Props/C03.lean
translator: tools/gen/c03_productions.py -> lean/CssVerif/Gen/C03Productions.lean
correspondence: (1) every generated pattern vs CPython's compiled pattern vs the hand recogniser, (2) the codec
functions on a content stream over the whole character range, (3) what the DOM stores for a token text in every place
that stores string / URL / identifier / comment content, and what the serializer writes for it.
oracle (implementation only): sheet.cssText -> parseString -> cssText bytes and DOM projection, on generated sheets of
all rule kinds x the content stream, after DOM edits, per node type set back on its own, and on all shipped sheets.
"""
import logging
import os

from lib.framework import Check, enc, dec, time_limit
from gen import c03_productions, relib
from harness import c03_content as C

PATTERN_NAMES = ['STRING', 'URI', 'IDENT', 'COMMENT', 'unicodesub', 'cleanstring', 'simpleescapes', 'forbidden_in_uri']


def quiet():
    import cssutils
    cssutils.log.setLevel(logging.FATAL)
    cssutils.ser.prefs.useDefaults()
    return cssutils


def lower_ok(s):
    """str.lower() agrees with the ASCII-only fold of the model on this text"""
    return all((c.lower() == c) if ord(c) > 127 else True for c in s)


def opt(r):
    return 'ERR IndexError' if r is None else 'OK ' + enc(r)


class C03(Check):
    id = 'C03'
    props_module = 'CssVerif.Props.C03'
    driver_exe = 'drv_c03'
    sources = ('cssutils/serialize.py', 'cssutils/helper.py', 'cssutils/tokenize2.py', 'cssutils/cssproductions.py',
               'cssutils/util.py', 'cssutils/css/value.py', 'cssutils/css/selector.py', 'cssutils/css/csscomment.py',
               'cssutils/css/cssimportrule.py', 'cssutils/css/cssnamespacerule.py', 'cssutils/css/csscharsetrule.py')
    trusted_base = (
        'hand-written model lean/CssVerif/Model/StrCodec.lean of the content codecs, tied to the source by the '
        'correspondence of this run (functions, stored DOM values, written text)',
        'translator tools/gen/c03_productions.py (+ tools/gen/relib.py): the STRING/URI/IDENT/COMMENT productions and '
        'the unicodesub / cleanstring / _simpleescapes / _match_forbidden_in_uri patterns as Re terms, regenerated '
        'from the source on every run and compared with CPython\'s compiled patterns on the content stream',
    )
    assumptions = (
        'sre-faithfulness of Re.first for the supported regex subset (checked on every run against the compiled patterns)',
        'str.lower() = ASCII fold on the generated alphabet (cased non-ASCII letters are not generated for normalize)',
        'str.isspace() / \\s = the 25 code points (ranges) listed in isSpaceU (compared with CPython on every run)',
    )
    rule = ('content stream: token texts built from plain characters of every class the code distinguishes (ASCII, '
            'controls, non-ASCII, astral, lone surrogate, all white space kinds), escaped backslashes, hex escapes of 33 '
            'code points x 1-6 digits x 7 terminators, simple escapes, escaped line breaks, both quotes; '
            'non-trivial = distinct token text / value containing a backslash, a quote, a line break or a non-ASCII character')

    # ------------------------------------------------------------------------------------------
    def translate(self, ctx):
        files, pats, asts = c03_productions.generate(ctx.repo)
        self._pats, self._asts = pats, asts
        return files

    # ------------------------------------------------------------------------------------------
    def run(self, ctx):
        cssutils = quiet()
        try:
            rng = ctx.sub_rng('c03')
            self.corr_patterns(ctx, cssutils, rng)
            self.corr_functions(ctx, cssutils, rng)
            self.corr_safe(ctx, cssutils, rng)
        finally:
            cssutils.ser.prefs.useDefaults()

    # -- (1) generated patterns vs compiled patterns vs hand recognisers ------------------------------
    def compiled(self, cssutils):
        from cssutils import helper, tokenize2
        tk = tokenize2.Tokenizer()
        d = {name: m.__self__ for name, m in tk.tokenmatches}
        d['unicodesub'] = tokenize2.Tokenizer.unicodesub.__self__
        d['cleanstring'] = tokenize2.Tokenizer.cleanstring.__self__
        d['simpleescapes'] = helper._simpleescapes.__self__
        d['forbidden_in_uri'] = helper._match_forbidden_in_uri.__self__
        return d

    def corr_patterns(self, ctx, cssutils, rng):
        if not hasattr(self, '_pats'):
            self._pats, _tk = c03_productions.patterns(ctx.repo)
        comp = self.compiled(cssutils)
        # the translator read the same pattern text that the live objects were compiled from
        for name in PATTERN_NAMES:
            if comp[name].pattern != self._pats[name][0]:
                ctx.disagree('translator: pattern text of %s' % name, name, comp[name].pattern, self._pats[name][0])
        texts = []
        for _ in range(ctx.n(1500, 30000)):
            r = rng.random()
            if r < 0.25:
                q, body = C.string_token(rng, 5)
                t = q + body + q + C.raw_text(rng, 2)
            elif r < 0.45:
                t = rng.choice(['url(', 'url( ', 'url(\t', 'URL(', 'u\\rl(', '\\75 rl(', 'url']) + \
                    rng.choice([C.url_unquoted_body(rng, 4), '"%s"' % C.string_token(rng, 3, '"')[1],
                                "'%s'" % C.string_token(rng, 3, "'")[1], C.raw_text(rng, 3)]) + \
                    rng.choice([')', ' )', ')x', '', ' \n)', ')' + C.raw_text(rng, 2)])
            elif r < 0.6:
                t = C.ident_text(rng, 4) + C.raw_text(rng, 2)
            elif r < 0.7:
                t = C.comment_text(rng, 5) + C.raw_text(rng, 2)
            else:
                t = C.raw_text(rng, 7)
            if len(t) <= 24:
                texts.append(t)
        lines, cases = [], []
        for t in texts:
            for name in PATTERN_NAMES:
                lines.append('re %s %s' % (name, enc(t)))
                cases.append((name, t, 're'))
                if name != 'forbidden_in_uri':
                    lines.append('hand %s %s' % (name, enc(t)))
                    cases.append((name, t, 'hand'))
        out = ctx.driver(lines) if ctx.model_ok else [None] * len(lines)
        for (name, t, which), m in zip(cases, out):
            with time_limit(10):
                mo = comp[name].match(t)
            got = 'NONE' if mo is None else 'N %d' % mo.end()
            if which == 're':
                ctx.case(key=('pat', name, t), nontrivial=mo is not None and mo.end() > 1, kind='pattern:' + name)
                if m is not None and m != got:
                    ctx.disagree('generated pattern %s (Re.first) vs compiled pattern' % name, t, got, m)
            else:
                if m is None:
                    continue
                if name == 'URI':
                    # the hand recogniser covers the literal `url(` prefix and the non-backtracking cases only
                    if m != 'NONE' and m != got:
                        ctx.disagree('hand recogniser lexUriPlain vs compiled URI production', t, got, m)
                    ctx.count('hand:URI:' + ('applies' if m != 'NONE' else 'n/a'))
                elif m != got:
                    ctx.disagree('hand recogniser for %s vs compiled pattern' % name, t, got, m)

    # -- (2) the codec functions ----------------------------------------------------------------------
    def corr_functions(self, ctx, cssutils, rng):
        from cssutils import helper, tokenize2, util
        base = util.Base()
        tk = tokenize2.Tokenizer()
        lines, cases = [], []

        def add(op, arg, impl_fn, kind):
            lines.append('%s %s' % (op, enc(arg)))
            cases.append((op, arg, impl_fn, kind))

        def tokval(kind, found, expect_type):
            """value the tokenizer gives the token that starts the text (must be the whole text)"""
            def f(_):
                toks = list(tk.tokenize(found))
                if len(toks) != 1 or toks[0][0] != expect_type:
                    return None
                return enc(toks[0][1])
            lines.append('tokval %s %s' % (kind, enc(found)))
            cases.append(('tokval', found, f, 'tokval:' + expect_type))

        for _ in range(ctx.n(2500, 50000)):
            s = C.raw_text(rng, 8)
            add('string', s, lambda x: enc(helper.string(x)), 'string')
            add('uri', s, lambda x: enc(helper.uri(x)), 'uri')
            add('forb', s, lambda x: '1' if helper._match_forbidden_in_uri(x) else '0', 'forb')
            add('clean', s, lambda x: enc(tokenize2.Tokenizer.cleanstring('', x)), 'clean')

            def sv(x):
                try:
                    return opt(helper.stringvalue(x))
                except IndexError:
                    return opt(None)
            add('stringvalue', s, sv, 'stringvalue')
            q = rng.choice(['"', "'", ''])
            u = rng.choice(['url(', 'url( ', 'URL(', 'x', '']) + q + s + q + rng.choice([')', ' )', '', ')\xa0'])

            def uv(x):
                try:
                    return opt(helper.urivalue(x))
                except IndexError:
                    return opt(None)

            def utv(x):
                try:
                    return opt(base._uritokenvalue(('URI', x, 1, 1)))
                except IndexError:
                    return opt(None)
            add('urivalue', u, uv, 'urivalue')
            add('uritokenvalue', u, utv, 'uritokenvalue')
            if lower_ok(s):
                add('normalize', s, lambda x: enc(helper.normalize(x)), 'normalize')
            # unicodesub on (nearly) arbitrary text: inside a comment
            if '*/' not in s and not s.endswith('*') and not s.startswith('/'):
                tokval('o', '/*' + s + '*/', 'COMMENT')
        for _ in range(ctx.n(2500, 50000)):
            q, body = C.string_token(rng, 7)
            tokval('s', q + body + q, 'STRING')
            tokval('o', C.ident_text(rng, 5), 'IDENT')
            tokval('o', 'url(' + C.url_unquoted_body(rng, 6) + ')', 'URI')
            q2, body2 = C.string_token(rng, 5)
            tokval('o', 'url(' + rng.choice(['', ' ']) + q2 + body2 + q2 + rng.choice(['', ' ']) + ')', 'URI')
        out = ctx.driver(lines) if ctx.model_ok else [None] * len(lines)
        for (op, arg, f, kind), m in zip(cases, out):
            got = f(arg)
            if got is None:
                ctx.count('skipped:' + kind + ':not-one-token')
                continue
            ctx.case(key=(op, arg), nontrivial=any(c in arg for c in '\\"\'\n\r\f') or not arg.isascii(), kind=kind,
                     sample={'op': op, 'arg': arg, 'impl': got if op in ('forb',) else dec_opt(got)})
            if m is not None and m != got:
                ctx.disagree('codec function ' + op + ' (' + kind + ')', arg, got, m)

    # -- (3) the Safe predicates: exactly the values that survive write-then-read --------------------
    SAFE_PIECES = ['\\', '"', 'a', 'g', '\n', ' ', "'", ')', '110000', '\x01', '\r']

    def safe_values(self, ctx, rng):
        import itertools
        vals = []
        for n in range(0, ctx.n(4, 5) + 1):
            for t in itertools.product(self.SAFE_PIECES, repeat=n):
                vals.append(''.join(t))
        for _ in range(ctx.n(3000, 60000)):
            vals.append(C.raw_text(rng, 7))
        return vals

    def impl_str_rt(self, cssutils, tk, v):
        """helper.string(v) tokenized by the real tokenizer and read back with stringvalue: (written, value|None)"""
        from cssutils import helper
        w = helper.string(v)
        toks = list(tk.tokenize(w))
        if len(toks) != 1 or toks[0][0] != 'STRING':
            return w, None
        return w, helper.stringvalue(toks[0][1])

    def impl_uri_rt(self, cssutils, tk, v):
        from cssutils import helper
        w = helper.uri(v)
        toks = list(tk.tokenize(w))
        if len(toks) != 1 or toks[0][0] != 'URI':
            return w, None
        return w, helper.urivalue(toks[0][1])

    def corr_safe(self, ctx, cssutils, rng):
        from cssutils import tokenize2
        tk = tokenize2.Tokenizer()
        vals = self.safe_values(ctx, rng)
        lines = []
        for v in vals:
            lines.append('strclass ' + enc(v))
            lines.append('uriclass ' + enc(v))
        out = ctx.driver(lines) if ctx.model_ok else [None] * len(lines)
        for i, v in enumerate(vals):
            for which, m, rt, mirror in (('string', out[2 * i], self.impl_str_rt, C.str_class),
                                         ('uri', out[2 * i + 1], self.impl_uri_rt, C.uri_class)):
                w, back = rt(cssutils, tk, v)
                ok = back == v
                mir = mirror(v) or 'safe'
                ctx.case(key=('safe', which, v), nontrivial='\\' in v or '"' in v, kind='safe:%s:%s' % (which, mir),
                         sample={'stored': v, 'written': w, 'reread': back, 'class': mir})
                if m is not None and m != mir:
                    ctx.disagree('Safe class (%s): Lean predicate vs python mirror' % which, v, mir, m)
                if ok != (mir == 'safe'):
                    ctx.disagree('Safe (%s) is exactly "written value reads back" on the implementation' % which,
                                 {'stored': v, 'written': w}, {'reread': back, 'ok': ok}, mir)

    # ------------------------------------------------------------------------------------------
    def replay(self, ctx, data):
        self.run(ctx)


def dec_opt(s):
    if s.startswith('OK '):
        return dec(s[3:])
    if s.startswith('ERR'):
        return s
    try:
        return dec(s)
    except Exception:
        return s


CHECK = C03()
